"""C03 — expiry and revocation are final and cascade: histories with full probing, liveness reference spec."""
import common
import prov

RULE = ("cases: histories (authorize, redeem with separate parse/process, refresh with/without scope, userinfo, introspect, revocation endpoint, "
        "revoke_token API recursive or not, revoke_grant, logout/revoke_client_session, user-level revocation, remove_session, clock advance) "
        "over 2 users x 3 clients, OIDC and OAuth2 token endpoints, opaque and JWT handlers, plus (opaque handlers, usage rules that let access "
        "tokens be exchanged) token exchange by the owning or another client for an access or refresh token with or without a scope; "
        "generated against the live provider so that every "
        "handle is real; after every step the outcome and the projection (class, grant, based_on, used, revoked, expiry, scope) of every token "
        "are compared with the Lean model, and every token minted so far is probed at userinfo and introspection against a reference "
        "liveness rule. non-trivial: history with at least one revocation/tick and at least 3 tokens")
MODELLED = ("modelled: Item.is_active, Grant.mint_token/revoke_token/find_scope/revoke, token endpoint helpers (code, refresh; OIDC and OAuth2), "
            "userinfo/introspection/revocation process_request decision logic, SessionManager.revoke_token/revoke_grant/revoke_client_session/"
            "remove_session, TokenExchangeHelper (parse + process, ExchangeGrant for another client, inherited expiry). NOT modelled: token exchange "
            "with JWT handlers (the JWT's own exp then differs from expires_at), client-credentials/password grants, DPoP, resource indicators, "
            "revoke_refresh_on_issue=true")
ASSUMPTIONS = ["token values and grant ids are fresh", "client authentication succeeds for the owning client (C01 covers it)",
               "token exchange histories run with opaque token handlers only"]


def chain_case(rng, oidc, jwt):
    """derivation chains: code -> (AT1,RT1) -> refresh -> (AT2,RT2) -> ...; some middle tokens revoked non-recursively, then an
    ancestor revoked recursively (API or OIDC code replay), then every token probed"""
    return {"t": "chain", "oidc": oidc, "jwt": jwt, "depth": rng.randint(2, 4), "seed": rng.getrandbits(32)}


def _chain_ops(c):
    import random
    rng = random.Random(c["seed"])
    red = "https://client_1.example.com/cb"
    R = prov.Runner(c["oidc"], c["jwt"])
    ops = []

    def do(o):
        ops.append(o)
        return R.op(o)
    do(["authorize", "diana", "client_1", ["openid", "offline_access", "email"], red])
    do(["tokenParse", "client_1", 1, red])
    r = do(["tokenProcess", 0])
    rts = [r[2]] if r[0] == "tokens" else []
    for _ in range(c["depth"] - 1):
        if not rts or rts[-1] < 0:
            break
        r = do(["refresh", "client_1", rts[-1], None])
        if r[0] == "tokens" and r[2] >= 0:
            rts.append(r[2])
        else:
            break
    alltok = sorted(R.val)
    # revoke some middle tokens without recursion (endpoint or API)
    for t in rng.sample(alltok[1:], min(len(alltok) - 1, rng.randint(1, 2))):
        do(["revokeEp", "client_1", t] if rng.random() < 0.5 else ["revokeTok", t, False])
    # then an ancestor recursively
    anc = rng.choice([1] + [x for x in rts[:1] if x >= 0])
    if c["oidc"] and anc == 1 and rng.random() < 0.5:
        do(["tokenParse", "client_1", 1, red])          # replay of the used code at the OIDC endpoint
    else:
        do(["revokeTok", anc, True])
    for t in sorted(R.val):
        do(["userinfo", t]); do(["introspect", "client_1", t])
    if rts and rts[-1] >= 0:
        do(["refresh", "client_1", rts[-1], None])
    return ops


def cases(rng, tier):
    n = {"quick": 60, "thorough": 900, "search": 600}[tier]
    out = []
    for _ in range({"quick": 24, "thorough": 300, "search": 200}[tier]):
        out.append(chain_case(rng, rng.random() < 0.6, rng.random() < 0.3))
    for i in range(n):
        oidc = rng.random() < 0.6
        jwt = rng.random() < 0.3
        seed = rng.getrandbits(48)
        out.append({"t": "hist", "oidc": oidc, "jwt": jwt, "gen_seed": seed, "n": rng.randint(8, 22 if tier == "quick" else 40)})
    for _ in range({"quick": 8, "thorough": 100, "search": 60}[tier]):
        out.append({"t": "hist", "oidc": rng.random() < 0.7, "jwt": rng.random() < 0.3, "gen_seed": rng.getrandbits(48), "n": rng.randint(8, 18 if tier == "quick" else 36),
                    "restore": rng.choice(["ctx", "ctx-json", "sm"])})
    for _ in range({"quick": 16, "thorough": 200, "search": 120}[tier]):
        out.append({"t": "session", "oidc": rng.random() < 0.7, "jwt": rng.random() < 0.3, "seed": rng.getrandbits(32)})
    # a client with usage rules of its own (partial ones): lifetimes and minting rights as merged, the clock moving past them
    for _ in range({"quick": 10, "thorough": 120, "search": 80}[tier]):
        out.append({"t": "hist", "oidc": rng.random() < 0.6, "jwt": rng.random() < 0.3, "usage": "c1rules", "gen_seed": rng.getrandbits(48),
                    "n": rng.randint(10, 24 if tier == "quick" else 40)})
    # the library's default layout: no usage rule for refresh tokens (handler lifetime, class defaults), grants without a lifetime
    for _ in range({"quick": 8, "thorough": 100, "search": 60}[tier]):
        out.append({"t": "hist", "oidc": rng.random() < 0.6, "jwt": rng.random() < 0.3, "usage": rng.choice(["norefrule", "norefrule", "nogrant"]),
                    "gen_seed": rng.getrandbits(48), "n": rng.randint(10, 24 if tier == "quick" else 40)})
    for _ in range({"quick": 10, "thorough": 120, "search": 80}[tier]):
        out.append({"t": "xchain", "oidc": rng.random() < 0.6, "jwt": False, "usage": "exchange", "seed": rng.getrandbits(32)})
    for i in range(n // 2):
        out.append({"t": "hist", "oidc": rng.random() < 0.6, "jwt": False, "usage": "exchange", "gen_seed": rng.getrandbits(48),
                    "n": rng.randint(10, 24 if tier == "quick" else 40)})
    return out


XW = dict(redeem=25, exchange=22, authorize=14)


def _session_ops(c):
    """logins of one user at several clients, logout from one / from all (Session endpoint paths), login again at the same client
    after the logout, a second logout; optionally the clock moves past the ID-token lifetime before a logout; then everything probed"""
    import random
    rng = random.Random(c["seed"])
    R = prov.Runner(c["oidc"], c["jwt"])
    ops = []

    def do(o):
        ops.append(o)
        return R.op(o)

    def login(user, cl):
        red = f"https://{cl}.example.com/cb"
        r = do(["authorize", user, cl, ["openid", "offline_access", "email"], red])
        if r[0] == "code":
            do(["tokenParse", cl, r[1], red]); do(["tokenProcess", 0])
    clients = rng.sample(prov.CLIENTS[:3], rng.randint(2, 3))
    for cl in clients:
        login("diana", cl)
    if rng.random() < 0.6:
        # a second session at one of the clients, the older one removed (remove_session): what is left must still be reached by a later logout
        login("diana", clients[0])
        olds = [hg for hg, (g, path) in sorted(R.gobj.items()) if path[:2] == ["diana", clients[0]]]
        if len(olds) >= 2:
            do(["remove", olds[0] if rng.random() < 0.7 else olds[-1]])
    if rng.random() < 0.5:
        login("bob", clients[0])
    for rnd in range(rng.randint(1, 3)):
        if rng.random() < 0.5:
            do(["tick", rng.choice([301, 1000, 3000])])
        k = rng.choice(["one", "one", "all", "all", "user"])
        if k == "one":
            do(["revokeClient", "diana", rng.choice(clients)])
        elif k == "all":
            do(["logoutAll", "diana"])
        else:
            do(["revokeUser", "diana"])
        for cl in rng.sample(clients, rng.randint(1, len(clients))):
            login("diana", cl)          # the user comes back
    do(["logoutAll", "diana"] if rng.random() < 0.5 else ["revokeClient", "diana", clients[0]])
    for t in sorted(R.val):
        do(["userinfo", t]); do(["introspect", "client_1", t])
    return ops


def _xchain_ops(c):
    """code -> (AT, RT); AT / RT exchanged by the owner and by another client, exchanged tokens exchanged again; then one of the
    ancestors dies (revocation endpoint, API recursive or not, grant, logout, expiry) and everything is probed and offered for exchange"""
    import random
    rng = random.Random(c["seed"])
    red = "https://client_1.example.com/cb"
    R = prov.Runner(c["oidc"], False, usage="exchange")
    ops = []

    def do(o):
        ops.append(o)
        return R.op(o)
    do(["authorize", "diana", "client_1", ["openid", "offline_access", "email", "profile"], red])
    do(["tokenParse", "client_1", 1, red])
    r = do(["tokenProcess", 0])
    if r[0] != "tokens":
        return ops
    at, rt = r[1], r[2]
    minted = []
    for _ in range(rng.randint(2, 4)):
        subj = rng.choice([at, rt] + minted)
        styp = "access" if subj == at or (subj in minted and rng.random() < 0.8) else "refresh"
        x = do(["exchange", rng.choice(["client_1", "client_2", "client_3"]), subj, styp, rng.choice([None, "access", "refresh"]),
                rng.choice([None, ["openid"], ["openid", "offline_access"], ["email", "foo"]])])
        if x[0] == "exchanged":
            minted.append(x[1])
    kill = rng.choice(["ep", "api", "apirec", "grant", "client", "user", "tick", "replay"])
    victim = rng.choice([at, rt] + minted)
    if kill == "ep":
        do(["revokeEp", "client_1", victim])
    elif kill == "api":
        do(["revokeTok", victim, False])
    elif kill == "apirec":
        do(["revokeTok", rng.choice([1, at, rt]), True])
    elif kill == "grant":
        do(["revokeGrant", 0])
    elif kill == "client":
        do(["revokeClient", "diana", "client_1"])
    elif kill == "user":
        do(["revokeUser", "diana"])
    elif kill == "tick":
        do(["tick", rng.choice([3601, 86401])])
    elif c["oidc"]:
        do(["tokenParse", "client_1", 1, red])
    for t in sorted(R.val):
        do(["userinfo", t]); do(["introspect", "client_1", t])
    for t in [at, rt] + minted:
        do(["exchange", rng.choice(["client_1", "client_2"]), t, "access" if t != rt else "refresh", None, None])
    return ops


def _ops_for(c):
    if "ops" in c:
        return c["ops"]
    if c["t"] == "chain":
        return _chain_ops(c)
    if c["t"] == "xchain":
        return _xchain_ops(c)
    if c["t"] == "session":
        return _session_ops(c)
    import random
    ops, _ = prov.gen_adaptive(random.Random(c["gen_seed"]), c["n"], oidc=c["oidc"], jwt=c["jwt"], usage=c.get("usage"),
                               weights=XW if c.get("usage") == "exchange" else dict(tick=14, refresh=16, redeem=22) if c.get("usage") in ("c1rules", "norefrule", "nogrant") else None)
    if c.get("restore"):
        # the provider's state is exported and imported (into a fresh instance from the same configuration) at some points of the
        # history: what was dead stays dead, whatever the import does to bring old state "in line"
        rr = random.Random(c["gen_seed"] + 1)
        out = []
        for o in ops:
            out.append(o)
            if o[0] in ("revokeTok", "revokeEp", "refresh", "tokenProcess", "revokeGrant", "revokeClient", "logoutAll") and rr.random() < 0.5 or rr.random() < 0.08:
                out.append(["restore", c["restore"]])
        return out
    return ops


def impl(c):
    ops = _ops_for(c)
    # histories with an export / import: the configuration pins the key material (signing keys in a key file), as it must for a restore
    # into a fresh instance to make sense at all — a session-manager-only import does not carry the provider's signing keys
    R = prov.Runner(c["oidc"], c["jwt"], usage=c.get("usage"), keys="pwsalt" if any(o[0] == "restore" for o in ops) else None)
    steps = []
    for o in ops:
        if o[0] == "restore":
            R = R.restored(o[1])
            r = ["ok"]
        else:
            r = R.op(o)
        proj = R.projection()
        # non-mutating probes of every token minted so far
        status = {}
        for hnd in sorted(R.val):
            ui = R.op_safe(["userinfo", hnd])
            it = R.op_safe(["introspect", _owner(R, hnd), hnd])
            status[hnd] = [ui[0] == "userinfo", it[0] == "introspect" and bool(it[1])]
        steps.append({"out": prov.canon_outcome(r), "raw": r, "proj": proj, "status": status, "now": prov.clock.CLOCK.t - prov.T0})
    return {"ops": ops, "steps": steps}


def _owner(R, hnd):
    for hg, (g, path) in R.gobj.items():
        for t in g.issued_token:
            if R.h[t.value] == hnd:
                return path[1]
    return "client_1"


def model_lines(c, obs):
    # (an export / import is no event of the provider model: a tick of zero seconds)
    return [prov.cfg_line(c["oidc"], c["jwt"], c.get("usage"))] + [prov.model_line(o if o[0] != "restore" else ["tick", 0]) for o in obs["ops"]]


def compare(c, obs, outs):
    return prov.compare_history(obs["ops"], obs["steps"], outs)


def oracle(c, obs):
    """reference liveness: a token dead by the rules below must be refused by userinfo and introspection at every later step;
    revocation addressed to one grant must not change the status of tokens of other grants"""
    v = []
    ops = obs["ops"]
    dead = set()
    removed = set()
    xgrant = set()  # dead only through a derivation that crosses grants (token exchange by another client)
    info = {}      # handle -> [cls, grant, based_on, exp]
    grant_of = {}  # grant handle -> (user, client) learnt from authorize ops in order
    prev_status = {}
    for i, st in enumerate(obs["steps"]):
        o = ops[i]
        for t in st["proj"]["toks"]:
            if t[0] not in info and c.get("usage") != "exchange":
                # the lifetime the CONFIGURATION gives this class for this client (general usage rules, a client's own rules merged over them)
                life = {"code": 300, "access": 3600, "refresh": 86400, "idtoken": 300}.get(t[1])
                cl_ = grant_of.get(t[2], (None, None))[1]
                if cl_ is None and o[0] == "authorize":
                    cl_ = o[2]
                if c.get("usage") == "c1rules" and cl_ == "client_1" and t[1] == "access":
                    life = 600
                if life and cl_ is not None and t[6] != st["now"] + life:
                    v.append({"cls": "configured-lifetime-not-applied", "step": i, "token_class": t[1], "client": cl_, "expires_at": t[6], "minted_at": st["now"], "configured": life})
            info.setdefault(t[0], [t[1], t[2], t[3], t[6]])
        if o[0] == "authorize" and st["raw"][0] == "code":
            ginfo = info.get(st["raw"][1])
            if ginfo:
                grant_of[ginfo[1]] = (o[1], o[2])
        if o[0] == "exchange" and st["raw"][0] == "exchanged":
            ninfo, sinfo = info.get(st["raw"][1]), info.get(o[2])
            if ninfo and sinfo and ninfo[1] not in grant_of and sinfo[1] in grant_of:
                grant_of[ninfo[1]] = (grant_of[sinfo[1]][0], o[1])      # the ExchangeGrant: the subject's user, the exchanging client
            was_dead = o[2] in dead or (sinfo is not None and sinfo[3] != 0 and st["now"] > sinfo[3])
            if was_dead or o[2] in xgrant:
                v.append({"cls": "dead-token-honoured", "step": i, "op": "exchange", "token_class": sinfo[0] if sinfo else "?",
                          "cross_grant": not was_dead, "why": "exchange minted from a dead subject token"})
        if o[0] == "refresh" and st["raw"][0] == "tokens" and (o[2] in dead):
            v.append({"cls": "dead-token-honoured", "step": i, "op": "refresh", "token_class": "refresh", "cross_grant": False, "why": "refresh minted from a dead token"})

        def desc(x):
            """everything derived from x, in whatever grant (an exchange by another client puts the new token in a grant of its own);
            second component: the ones whose derivation crosses a grant boundary"""
            out, cross, todo = set(), set(), [x]
            while todo:
                y = todo.pop()
                for h2, inf in info.items():
                    if inf[2] == y and h2 not in out:
                        out.add(h2); todo.append(h2)
                        if inf[1] != info[y][1] or y in cross:
                            cross.add(h2)
            xgrant.update(cross - dead)
            for h2 in out:
                addressed_more.add(info[h2][1])
            return out - cross

        addressed = None
        addressed_more = set()
        k = o[0]
        ok = st["raw"][0] != "err"
        if k in ("revokeClient", "logoutAll", "revokeUser") and not ok and str(st["raw"][1]).startswith("exc:"):
            # a logout that blows up half-way: whatever it did not reach stays honoured
            mine = [g for g, uc in grant_of.items() if uc[0] == o[1] and (k != "revokeClient" or uc[1] == o[2]) and g not in removed]
            if mine and st["raw"][1] != "exc:KeyError" or (mine and any(ui or it for h, (ui, it) in st["status"].items() if info.get(h) and info[h][1] in mine)):
                v.append({"cls": "logout-raised", "step": i, "op": k, "how": st["raw"][1]})
        if k == "revokeTok" and ok and o[1] in info:
            dead.add(o[1]); addressed = {info[o[1]][1]}
            if o[2]:
                dead |= desc(o[1])
        elif k == "revokeEp" and ok and o[1:] and o[2] in info and grant_of.get(info[o[2]][1], (None, None))[1] == o[1] and info[o[2]][0] != "idtoken":
            dead.add(o[2]); addressed = {info[o[2]][1]}
        elif k == "revokeGrant" and ok:
            dead |= {h for h, inf in info.items() if inf[1] == o[1]}; addressed = {o[1]}
        elif k == "revokeClient" and ok:
            gs = {g for g, uc in grant_of.items() if uc == (o[1], o[2])}
            dead |= {h for h, inf in info.items() if inf[1] in gs}; addressed = gs
        elif k == "revokeUser" and ok:
            gs = {g for g, uc in grant_of.items() if uc[0] == o[1]}
            dead |= {h for h, inf in info.items() if inf[1] in gs}; addressed = gs
        elif k == "logoutAll" and ok:
            # every client session that is told about the logout (the client registered a logout URI, an ID token was issued in the session)
            # is over afterwards, whatever the age or state of that ID token
            gs = set()
            for g, uc in grant_of.items():
                if uc[0] == o[1] and prov.LOGOUT.get(uc[1]):
                    same = {g2 for g2, uc2 in grant_of.items() if uc2 == uc and g2 not in removed}
                    if any(inf[0] == "idtoken" and inf[1] in same for inf in info.values()):
                        gs |= same
            dead |= {h for h, inf in info.items() if inf[1] in gs}; addressed = {g for g, uc in grant_of.items() if uc[0] == o[1]}
        elif k == "remove" and ok:
            dead |= {h for h, inf in info.items() if inf[1] == o[1]}; addressed = {o[1]}; removed.add(o[1])
        elif k == "tokenParse" and c["oidc"] and not ok and o[2] in info and info[o[2]][0] == "code":
            # second presentation of a used code at the OIDC endpoint invalidates what was minted from it
            used = [t for t in st["proj"]["toks"] if t[0] == o[2] and t[4] > 0]
            if used:
                dead |= desc(o[2])
        for hnd, (ui, it) in st["status"].items():
            inf = info.get(hnd)
            if inf is None:
                continue
            expired = inf[3] != 0 and st["now"] > inf[3]
            if (hnd in dead or hnd in xgrant or expired) and (ui or it):
                v.append({"cls": "dead-token-honoured", "step": i, "op": k, "token_class": inf[0], "userinfo": ui, "introspect": it,
                          "cross_grant": hnd not in dead and not expired,
                          "why": "revoked/removed" if hnd in dead else ("expired" if expired else
                                 "an ancestor in another grant was revoked recursively (token exchange by another client)")})
            if (ui and inf[0] != "access") or (it and inf[0] not in ("access", "refresh")):
                v.append({"cls": "wrong-class-honoured", "step": i, "token_class": inf[0]})
        if addressed is not None:
            addressed = set(addressed) | addressed_more
            for hnd, stt in st["status"].items():
                inf = info.get(hnd)
                if inf and inf[1] not in addressed and hnd in prev_status and prev_status[hnd] != stt:
                    v.append({"cls": "non-local-revocation", "step": i, "op": k, "token": hnd})
        prev_status = st["status"]
        if v:
            break
    return v


def known_key(c, v, known):
    return common.known_key(c, v, known)


def classify(c, obs):
    return ("oidc" if c["oidc"] else "oauth2") + ":" + ("jwt" if c["jwt"] else "opaque")


def nontrivial(c, obs):
    kinds = {o[0] for o in obs["ops"]}
    ntok = len(obs["steps"][-1]["status"]) if obs["steps"] else 0
    return ntok >= 3 and bool(kinds & {"revokeTok", "revokeEp", "revokeGrant", "revokeClient", "revokeUser", "remove", "tick"})


def corpus():
    # F-C03-a (fixed): grant-level revocation must reach the tokens
    red = "https://client_1.example.com/cb"
    return [{"t": "hist", "oidc": True, "jwt": False,
             "ops": [["authorize", "diana", "client_1", ["openid", "offline_access"], red], ["tokenParse", "client_1", 1, red], ["tokenProcess", 0],
                     ["revokeGrant", 0], ["userinfo", 2], ["introspect", "client_1", 2]]},
            {"t": "hist", "oidc": True, "jwt": True,
             "ops": [["authorize", "diana", "client_1", ["openid", "offline_access"], red], ["tokenParse", "client_1", 1, red], ["tokenProcess", 0],
                     ["revokeClient", "diana", "client_1"], ["userinfo", 2], ["refresh", "client_1", 3, None]]}] + [
            # single tokens revoked while their grant lives on (revocation endpoint, non-recursive revocation, replayed code), then an
            # export / import, then the dead tokens again
            {"t": "hist", "oidc": True, "jwt": jwt,
             "ops": [["authorize", "diana", "client_1", ["openid", "offline_access"], red], ["tokenParse", "client_1", 1, red], ["tokenProcess", 0],
                     ["refresh", "client_1", 3, None], ["revokeTok", 2, False], ["revokeEp", "client_1", 3], ["restore", mode], ["userinfo", 2], ["introspect", "client_1", 2],
                     ["introspect", "client_1", 3], ["refresh", "client_1", 3, None], ["userinfo", 5], ["tokenParse", "client_1", 1, red], ["restore", mode],
                     ["userinfo", 5], ["introspect", "client_1", 6], ["refresh", "client_1", 6, None]]}
            for mode, jwt in (("ctx", False), ("ctx-json", True), ("sm", False))]
