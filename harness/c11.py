"""C11 — message verification enforces the declared schema: exhaustive cell check over all Message subclasses."""
import json
import sys
import common
from common import enc_str, enc_list, dec_str
sys.path.insert(0, common.VERIF + "/tools")
import extract_msg
import c10
from idpyoidc.message import Message

RULE = ("cells (exhaustive over the classes found by introspection): for every Message subclass (a) a message with every required parameter "
        "set to a schema-directed value, then each required parameter removed / emptied in turn -> class verify(); (b) generic Message.verify "
        "on random present/absent/empty/out-of-set assignments vs the Lean verifyGeneric; (c) every typed parameter of a modelled kind given "
        "every other JSON type (str,int,bool,list,dict,None) -> constructor outcome vs Lean addValue, and the stored value's type is checked. "
        "oracle: verify() returned normally => every required parameter present and non-empty and every enumerated value inside its set; "
        "stored value is of the declared type. non-trivial: cell with a missing/empty/out-of-set/wrong-typed value")
MODELLED = ("modelled: Message.verify (generic), Message._type_check, Message._add_value for modelled kinds, the MRO override chain as a table "
            "(regenerated; chaining detected by AST). NOT modelled: the bodies of the ~30 class-specific cross-field rules (run on the real code "
            "by the oracle only), embedded signed objects (C16/C08 cover request objects and ID tokens)")
ASSUMPTIONS = ["AST detection of an unconditional parent verify call is sound for the idioms used in the package (top-level statement calling super().verify or Parent.verify)"]

KIND = extract_msg.KIND


def classes():
    return c10.classes()


def plausible(rng, kind, pn, cls):
    al = cls.c_allowed_values.get(pn)
    if al:
        v = list(al)[0]
        return [v] if kind in ("listStr", "spSep") else v
    if kind == "str":
        if "uri" in pn or pn in ("iss",):
            return "https://example.org/x"
        return "val"
    if kind == "int":
        return 1700000000
    if kind == "bool":
        return True
    if kind in ("listStr", "spSep"):
        return ["code"] if pn == "response_type" else ["openid"]
    return None


def cases(rng, tier):
    out = []
    for qn, cls in classes().items():
        spec = {pn: (KIND.get(extract_msg.triple(sp), "other"), sp[1] is True) for pn, sp in cls.c_param.items() if pn != "*"}
        req = [pn for pn, (k, r) in spec.items() if r and k != "other"]
        base = {pn: plausible(rng, spec[pn][0], pn, cls) for pn in req}
        out.append({"t": "req", "cls": qn, "args": base, "drop": None})
        for pn in req:
            a = dict(base); a.pop(pn)
            out.append({"t": "req", "cls": qn, "args": a, "drop": pn})
            if spec[pn][0] in ("str", "listStr", "spSep", "int"):
                out.append({"t": "req", "cls": qn, "args": base, "drop": pn, "empty": True})
        # a missing required parameter BESIDE optional ones: whatever else the message carries (an `error`, a token, ...) does not
        # make up for it.  `error` always, the other optional parameters of modelled kinds sampled (all of them in the thorough tier)
        opt = [pn for pn, (k, r) in spec.items() if not r and k != "other" and plausible(rng, k, pn, cls) is not None]
        for pn in req:
            a = dict(base); a.pop(pn)
            some = [o for o in opt if o == "error"] + (opt if tier != "quick" else rng.sample(opt, min(3, len(opt))))
            for o in dict.fromkeys(some):
                out.append({"t": "req", "cls": qn, "args": dict(a, **{o: plausible(rng, spec[o][0], o, cls)}), "drop": pn, "beside": o})
            if opt:
                out.append({"t": "req", "cls": qn, "args": dict(a, **{o: plausible(rng, spec[o][0], o, cls) for o in opt}), "drop": pn, "beside": "*"})
        for pn in cls.c_allowed_values:
            if pn in spec and spec[pn][0] != "other":
                a = dict(base)
                a[pn] = ["not-allowed-value"] if spec[pn][0] in ("listStr", "spSep") else ("not-allowed-value" if spec[pn][0] == "str" else 424242)
                out.append({"t": "req", "cls": qn, "args": a, "drop": None, "outside": pn})
        # generic verify correspondence
        names = [pn for pn, (k, r) in spec.items() if k != "other"]
        for _ in range(2 if tier == "quick" else 12):
            a = {}
            for pn in rng.sample(names, min(len(names), rng.randint(0, 6))):
                k = spec[pn][0]
                r = rng.random()
                if r < 0.6:
                    a[pn] = plausible(rng, k, pn, cls)
                elif r < 0.8:
                    a[pn] = {"str": "", "int": 0, "bool": False, "listStr": [], "spSep": []}[k]
                else:
                    a[pn] = {"str": "zzz", "int": 99, "bool": True, "listStr": ["zzz"], "spSep": ["zzz"]}[k]
            out.append({"t": "gen", "cls": qn, "assign": a})
        # typed slots of opaque kinds whose declared type is a plain JSON type (dict / [dict]): oracle only
        for pn, sp in cls.c_param.items():
            if pn == "*" or KIND.get(extract_msg.triple(sp), "other") != "other":
                continue
            vt = sp[0][0] if isinstance(sp[0], list) else sp[0]
            if vt is dict:
                for wrong in ([[1, 2], 7, 2.5, True, "plain text", {"a": 1}] if tier != "quick" else rng.sample([[1, 2], 7, 2.5, True, {"a": 1}], 3)):
                    out.append({"t": "slot", "cls": qn, "param": pn, "kind": "other", "v": wrong})
        # typed slots
        for pn, (k, r) in spec.items():
            if k == "other":
                continue
            WRONG = ["s", 7, True, ["a", "b"], {"a": 1}, None, "12", [1], [], ["a", 1], [1, "a"], ["a", {"x": 1}], ["a", None], ["a", ["b"]]]
            for wrong in (WRONG if tier != "quick" else rng.sample(WRONG, 4)):
                out.append({"t": "slot", "cls": qn, "param": pn, "kind": k, "v": wrong})
    out += rule_cases() + bcl_cases() + dpop_hdr_cases()
    return out


# ---- typed slots filled from a SIGNED HEADER (the DPoP proof classes read their claims with verify_header, not through the constructor)
DPOP_CLS = ["idpyoidc.client.oauth2.add_on.dpop.DPoPProof", "idpyoidc.server.oauth2.add_on.dpop.DPoPProof"]
DPOP_WRONG = {"iat": ["1700000000", "yesterday", [1700000000], {"t": 1}, 17.5], "jti": [7, ["j"], {"a": 1}], "htm": [5, ["POST"]], "htu": [9, {"u": 1}], "ath": [3, ["x"]]}
_dk = None


def dpop_hdr_cases():
    return [{"t": "dpophdr", "cls": q, "param": pn, "v": v} for q in DPOP_CLS for pn, vs in DPOP_WRONG.items() for v in vs] + \
           [{"t": "dpophdr", "cls": q, "param": None, "v": None} for q in DPOP_CLS]


def _dpophdr_impl(c):
    global _dk
    import importlib
    from cryptojwt.jwk.ec import new_ec_key
    from cryptojwt.jws.jws import JWS
    if _dk is None:
        _dk = new_ec_key("P-256")
    mod, name = c["cls"].rsplit(".", 1)
    cls = getattr(importlib.import_module(mod), name)
    claims = {"jti": "j-1", "htm": "POST", "htu": "https://example.com/token", "iat": 1700000000}
    if c["param"]:
        claims[c["param"]] = c["v"]
    hdr = JWS(json.dumps(claims), alg="ES256").sign_compact([_dk], protected={"typ": "dpop+jwt", "jwk": _dk.serialize(private=False)})
    try:
        m = cls().verify_header(hdr)
    except Exception as e:
        return {"r": "exc", "e": type(e).__name__}
    if m is None:
        return {"r": "exc", "e": "None"}
    try:
        m.verify()
        ver = "ok"
    except Exception as e:
        ver = "raise"
    want = {"iat": int, "jti": str, "htm": str, "htu": str, "ath": str}
    bad = [k for k, t in want.items() if k in m and (not isinstance(m[k], t) or isinstance(m[k], bool))]
    return {"r": "stored", "verify": ver, "bad": bad, "val": {k: repr(m[k])[:30] for k in bad}}


# ---------------------------------------------------------------------------------------------------------------- cross-parameter rules
# For each class with a rule of its own: the FULL table of the rule's inputs (the property's quantifier), on a message that satisfies the
# generic schema.  `args` go to the constructor, `kw` to verify(); `line` is what the Lean rule is asked.
BCL = "http://schemas.openid.net/event/backchannel-logout"


# ---- the embedded signed object of a back-channel logout request, as the relying party's handler consumes it
BCL_REG = ["dynamic-with-alg", "dynamic-without-alg", "static"]
BCL_TOK = ["genuine", "unsigned", "foreign-key", "with-nonce", "no-events", "other-aud", "no-sub-no-sid"]


def bcl_cases():
    return [{"t": "bcl", "reg": r, "tok": t} for r in BCL_REG for t in BCL_TOK]


def _bcl_impl(c):
    import rpbase, clock
    from idpyoidc.client.oauth2.stand_alone_client import backchannel_logout
    from idpyoidc.exception import MessageException
    rp = rpbase.make_rp(sigalg="RS256" if c["reg"] == "dynamic-with-alg" else None, reg="dynamic" if c["reg"].startswith("dynamic") else "static")
    import time
    now = int(time.time())
    cl = {"iss": rpbase.ISS, "aud": [rpbase.CID], "iat": now, "jti": "j1", "sub": "sub-alice",
          "events": {"http://schemas.openid.net/event/backchannel-logout": {}}}
    t = c["tok"]
    if t == "with-nonce":
        cl["nonce"] = "n"
    elif t == "no-events":
        del cl["events"]
    elif t == "other-aud":
        cl["aud"] = ["somebody-else"]
    elif t == "no-sub-no-sid":
        del cl["sub"]
    tok = rpbase.sign(cl, {"unsigned": "unsigned", "foreign-key": "foreign-rsa"}.get(t, "op-rsa"))
    try:
        backchannel_logout(rp, request_args={"logout_token": tok})
        return {"r": "ok"}
    except KeyError as e:
        return {"r": "ok", "note": "verified; no session known for the subject"}
    except MessageException as e:
        return {"r": "rejected", "e": str(e)[:80]}
    except Exception as e:
        return {"r": "rejected", "e": type(e).__name__ + ": " + str(e)[:80]}


def _b(x):
    return "1" if x else "0"


def _ol(x):
    return "-" if x is None else enc_list(x)


def _os(x):
    return "-" if x is None else enc_str(x)


def rule_cases():
    import itertools as it
    out = []

    def add(cls, rule, args, kw, line):
        out.append({"t": "rule", "cls": cls, "rule": rule, "args": args, "kw": kw, "line": "\t".join(["rules", rule] + line)})
    # OauthClientMetadata / OauthClientInformationResponse
    GT = [None, ["authorization_code"], ["implicit"], ["refresh_token"], ["refresh_token", "implicit"], ["client_credentials", "authorization_code"], []]
    for gt, ru in it.product(GT, (False, True)):
        a = {}
        if gt is not None:
            a["grant_types"] = gt
        if ru:
            a["redirect_uris"] = ["https://rp.example/cb"]
        add("idpyoidc.message.oauth2.OauthClientMetadata", "clientMetadata", a, {}, [enc_list(gt or []), _b(ru)])
        for sec, exp in it.product((False, True), repeat=2):
            b = dict(a, client_id="c")
            if sec:
                b["client_secret"] = "s"
            if exp:
                b["client_secret_expires_at"] = 0 if gt is None else 1900000000
            add("idpyoidc.message.oauth2.OauthClientInformationResponse", "clientInformation", b, {}, [enc_list(gt or []), _b(ru), _b(sec), _b(exp)])
    # oidc.AuthorizationRequest
    RT = [["code"], ["id_token"], ["code", "id_token"], ["id_token", "token"], ["token"], ["code", "token"]]
    SC = [["openid"], ["profile"], ["openid", "offline_access"], ["offline_access"], ["openid", "profile"]]
    PR = [None, ["consent"], ["none"], ["none", "login"], ["login"], ["login", "consent"], ["none", "consent"]]
    for rt, nonce, sc, pr in it.product(RT, (False, True), SC, PR):
        a = {"client_id": "c", "redirect_uri": "https://rp.example/cb", "response_type": rt, "scope": sc}
        if nonce:
            a["nonce"] = "n"
        if pr is not None:
            a["prompt"] = pr
        add("idpyoidc.message.oidc.AuthorizationRequest", "oidcAuthorizationRequest", a, {}, [enc_list(rt), _b(nonce), enc_list(sc), _ol(pr)])
    # RegistrationRequest / RegistrationResponse
    PAIRS = ["request_object_encryption", "id_token_encrypted_response", "userinfo_encrypted_response"]
    for il, none_alg in it.product((None, "https://rp.example/login", "http://rp.example/login"), (None, "none", "RS256")):
        for combo in it.product(((False, False), (True, False), (False, True), (True, True)), repeat=3):
            if sum(1 for x in combo if x != (False, False)) > 2 and (il or none_alg):
                continue       # keep the table at the rule's inputs: all 64 pair combinations alone, the rest with at most two pairs touched
            a = {"redirect_uris": ["https://rp.example/cb"]}
            if il:
                a["initiate_login_uri"] = il
            if none_alg:
                a["token_endpoint_auth_signing_alg"] = none_alg
            ps = []
            for name, (alg, enc) in zip(PAIRS, combo):
                if alg:
                    a[name + "_alg"] = "RSA-OAEP"
                if enc:
                    a[name + "_enc"] = "A128CBC-HS256"
                ps += [_b(alg), _b(enc)]
            add("idpyoidc.message.oidc.RegistrationRequest", "registrationRequest", a, {},
                ["-" if il is None else _b(il.startswith("https:")), _b(none_alg == "none")] + ps)
    for uri, at_, none_alg in it.product((False, True), (False, True), (None, "none")):
        for combo in (((False, False),) * 3, ((True, True), (False, False), (False, False)), ((False, True), (False, False), (False, False))):
            a = {"client_id": "c", "redirect_uris": ["https://rp.example/cb"]}
            if uri:
                a["registration_client_uri"] = "https://op.example/reg?client_id=c"
            if at_:
                a["registration_access_token"] = "rat"
            if none_alg:
                a["token_endpoint_auth_signing_alg"] = none_alg
            ps = []
            for name, (alg, enc) in zip(PAIRS, combo):
                if alg:
                    a[name + "_alg"] = "RSA-OAEP"
                if enc:
                    a[name + "_enc"] = "A128CBC-HS256"
                ps += [_b(alg), _b(enc)]
            add("idpyoidc.message.oidc.RegistrationResponse", "registrationResponse", a, {}, [_b(none_alg == "none"), _b(uri), _b(at_)] + ps)
    # ProviderConfigurationResponse
    RTS = [["code"], ["id_token"], ["code id_token"], ["id_token", "id_token token"], ["code token", "id_token"], ["code id_token token"], ["token", "id_token"],
           ["code", "code id_token"]]
    for scopes, iss, allow, auth, ida, rts, tep in it.product([None, ["openid"], ["profile"], ["openid", "email"]],
                                                              ["https://op.example", "http://op.example", "https://op.example?x=1", "https://op.example#f"],
                                                              (False, True), [None, ["RS256"], ["none", "RS256"]], [["RS256"], ["none"], ["none", "ES256"], ["None"]],
                                                              RTS, (False, True)):
        if (scopes, auth, ida) != (None, None, ["RS256"]) and rts not in (["code"], ["id_token"]):
            continue          # response types vary over the whole list with the other inputs fixed; the other inputs vary against two lists
        a = {"issuer": iss, "authorization_endpoint": "https://op.example/authz", "jwks_uri": "https://op.example/jwks.json", "response_types_supported": rts,
             "subject_types_supported": ["public"], "id_token_signing_alg_values_supported": ida}
        if scopes is not None:
            a["scopes_supported"] = scopes
        if auth is not None:
            a["token_endpoint_auth_signing_alg_values_supported"] = auth
        if tep:
            a["token_endpoint"] = "https://op.example/token"
        kw = {"allow_http": True} if allow else {}
        add("idpyoidc.message.oidc.ProviderConfigurationResponse", "providerConfiguration", a, kw,
            [_ol(scopes), _b(iss.startswith("https:")), _b(allow), _ol(auth), enc_list(ida), _b("?" not in iss and "#" not in iss), enc_list(rts), _b(tep)])
    # IdToken: audience rules (times valid)
    for aud, azp, me in it.product([["me"], ["me", "other"], ["other"], ["other", "third"]], [None, "me", "other", "stranger"], [None, "me"]):
        a = {"iss": "https://op.example", "sub": "s", "aud": aud, "exp": "NOW+600", "iat": "NOW"}
        if azp:
            a["azp"] = azp
        kw = {"client_id": me} if me else {}
        add("idpyoidc.message.oidc.IdToken", "idTokenAudience", a, kw, [enc_list(aud), _os(azp), _os(me)])
    # LogoutToken
    for nonce, ev, sub, sid, wa, wi in it.product((False, True), [{BCL: {}}, {BCL: {"x": 1}}, {"other": {}}, {BCL: {}, "other": {}}, {}], (False, True), (False, True),
                                                  (None, "me", "stranger"), (None, "https://op.example", "https://evil.example")):
        a = {"iss": "https://op.example", "aud": ["me"], "iat": "NOW", "jti": "j", "events": ev}
        if nonce:
            a["nonce"] = "n"
        if sub:
            a["sub"] = "s"
        if sid:
            a["sid"] = "sid"
        kw = {}
        if wa:
            kw["aud"] = wa
        if wi:
            kw["iss"] = wi
        keys = list(ev)
        add("idpyoidc.message.oidc.session.LogoutToken", "logoutToken", a, kw,
            [_b(nonce), enc_list(keys), _b(len(keys) == 1 and ev[keys[0]] == {}), _b(sub), _b(sid), enc_list(["me"]), _os(wa), enc_str("https://op.example"), _os(wi)])
    # oauth2.AuthorizationResponse
    for cid, wcid, iss, wiss in it.product((None, "c"), (None, "c", "d"), (None, "https://op.example"), (None, "https://op.example", "https://evil.example")):
        a = {"code": "x"}
        if cid:
            a["client_id"] = cid
        if iss:
            a["iss"] = iss
        kw = {}
        if wcid:
            kw["client_id"] = wcid
        if wiss:
            kw["iss"] = wiss
        add("idpyoidc.message.oauth2.AuthorizationResponse", "authorizationResponse", a, kw, [_os(cid), _os(wcid), _os(iss), _os(wiss)])
    # EndSessionRequest (presence part; the hint itself is a signed object: C08)
    for pl in (False, True):
        a = {"post_logout_redirect_uri": "https://rp.example/lo"} if pl else {}
        add("idpyoidc.message.oidc.session.EndSessionRequest", "endSessionRequest", a, {}, [_b(pl), "0"])
    return out


def _run_rule(c):
    import importlib
    import time as _t
    mod, name = c["cls"].rsplit(".", 1)
    cls = getattr(importlib.import_module(mod), name)
    now = int(_t.time())
    args = {k: (now + 600 if v == "NOW+600" else now if v == "NOW" else v) for k, v in c["args"].items()}
    try:
        m = cls(**args)
    except Exception as e:
        return {"r": "construct-exc", "e": type(e).__name__}
    try:
        r = m.verify(**c["kw"])
    except Exception as e:
        return {"r": "refuse", "e": type(e).__name__}
    return {"r": "ok" if r is not False else "refuse", "e": None if r is not False else "returned False"}


def impl(c):
    if c["t"] == "dpophdr":
        return _dpophdr_impl(c)
    if c["t"] == "bcl":
        return _bcl_impl(c)
    if c["t"] == "rule":
        return _run_rule(c)
    cls = classes()[c["cls"]]
    if c["t"] == "req":
        try:
            m = cls(**c["args"])
            if c.get("empty"):
                k = KIND.get(extract_msg.triple(cls.c_param[c["drop"]]), "other")
                m._dict[c["drop"]] = {"str": "", "int": 0, "listStr": [], "spSep": []}[k]
        except Exception as e:
            return {"r": "construct-exc", "e": type(e).__name__}
        try:
            r = m.verify()
        except Exception as e:
            return {"r": "raise", "e": type(e).__name__}
        # state of the message AFTER verification
        missing = []
        for pn, sp in cls.c_param.items():
            if sp[1] is True and pn != "*":
                if pn not in m or (sp[0] is not bool and not m[pn]):
                    missing.append(pn)
        outside = []
        for pn, al in cls.c_allowed_values.items():
            if pn in m and m[pn]:
                vals = m[pn] if isinstance(m[pn], list) else [m[pn]]
                if any(isinstance(x, (str, int)) and x not in al for x in vals):
                    outside.append(pn)
        return {"r": "ok", "missing": missing, "outside": outside}
    if c["t"] == "gen":
        m = Message()
        m.c_param, m.c_allowed_values = cls.c_param, cls.c_allowed_values     # instance attributes: class tables untouched
        m._dict = dict(c["assign"])
        try:
            Message.verify(m)
            return {"r": "ok"}
        except Exception as e:
            return {"r": "raise", "e": type(e).__name__}
    if c["t"] == "slot":
        try:
            m = cls(set_defaults=False, **{c["param"]: c["v"]})
        except Exception as e:
            return {"r": "exc", "e": type(e).__name__}
        if c["param"] not in m:
            return {"r": "drop"}
        st = m[c["param"]]
        vt = cls.c_param[c["param"]][0]
        if isinstance(vt, list):
            typed = isinstance(st, list) and all(isinstance(x, vt[0]) for x in st)
        else:
            typed = st is None or (isinstance(st, vt) and not (vt is int and isinstance(st, bool)))
        return {"r": "ok", "stored": st if isinstance(st, (str, int, bool, list)) else repr(st), "typed": typed}


def _enc_allowed(al):
    if al is None:
        return ""
    return "A" + "\x1f".join(("s" + x) if isinstance(x, str) else ("i%d" % x) for x in al)


def model_lines(c, obs):
    if c["t"] in ("bcl", "dpophdr"):
        return []          # the embedded object's signature policy is C08's / C16's model; here the oracle states the rule
    if c["t"] == "rule":
        return [c["line"]]
    cls = classes()[c["cls"]]
    if c["t"] == "gen":
        names, kinds, reqs, allowed = [], [], [], []
        for pn, sp in cls.c_param.items():
            if pn == "*":
                continue
            k = KIND.get(extract_msg.triple(sp), "other")
            names.append(pn); kinds.append(k); reqs.append("1" if sp[1] is True else "0")
            al = cls.c_allowed_values.get(pn)
            allowed.append(_enc_allowed(list(al) if al is not None else None))
        keys = list(c["assign"])
        vals = [c10.enc_val(c["assign"][k]) for k in keys]
        return ["\t".join(["msg", "verify", enc_list(names), enc_list(kinds), enc_list(reqs), enc_list(allowed), enc_list(keys)] + vals)]
    if c["t"] == "slot":
        if c["kind"] == "other":
            return []
        v = c["v"]
        if isinstance(v, dict) or v is None or (isinstance(v, list) and any(not isinstance(x, str) for x in v)):
            w = "o:1"      # opaque to the model: dict / null / list of non-strings
        else:
            w = c10.enc_val(v)
        return [f"msg\tdict\t{c['kind']}\t{w}"]
    return []


def compare(c, obs, outs):
    if c["t"] in ("bcl", "dpophdr"):
        return []
    if c["t"] == "rule":
        return [] if outs[0] == obs["r"] else [f"rule {c['rule']} on {c['args']} verify({c['kw']}): model={outs[0]} impl={obs}"]
    if c["t"] == "gen":
        return [] if outs[0] == obs["r"] else [f"generic verify: model={outs[0]} impl={obs['r']} {obs.get('e')}"]
    if c["t"] == "slot":
        if c["kind"] == "other":
            return []
        v = c["v"]
        if v is None or isinstance(v, dict) or (isinstance(v, list) and any(not isinstance(x, str) for x in v)):
            return []     # opaque inputs: oracle only
        res = outs[0].split("\t")[1]
        want = {"drop": "drop", "exc": "exc"}.get(res, "ok")
        if want != obs["r"]:
            return [f"slot outcome: model={res} impl={obs}"]
        if want == "ok":
            mv = c10.dec_val(res[3:])
            if mv != obs["stored"]:
                return [f"stored value: model={mv!r} impl={obs['stored']!r}"]
        return []
    return []


RULE_ORACLE = {
    # independent restatement of a few rules in terms of the raw arguments (the others are covered by the model comparison)
    "providerConfiguration": lambda a, kw: not any("code" in rt.split(" ") for rt in a["response_types_supported"]) or "token_endpoint" in a,
    "oidcAuthorizationRequest": lambda a, kw: ("id_token" not in a["response_type"] or "nonce" in a) and "openid" in a["scope"],
    "registrationResponse": lambda a, kw: ("registration_client_uri" in a) == ("registration_access_token" in a),
    "clientMetadata": lambda a, kw: not ({"authorization_code", "implicit"} & set(a.get("grant_types", []))) or "redirect_uris" in a,
    "idTokenAudience": lambda a, kw: (len(a["aud"]) < 2 or a.get("azp") in a["aud"]) and (kw.get("client_id") is None or kw["client_id"] in a["aud"]),
}


def oracle(c, obs):
    v = []
    if c["t"] == "dpophdr":
        if obs["r"] == "stored" and obs["bad"]:
            v.append({"cls": "wrong-type-stored", "via": "signed header", "class": c["cls"].split(".")[1] + ".DPoPProof", "params": obs["bad"], "verify": obs["verify"]})
        if obs["r"] != "stored" and c["param"] is None:
            v.append({"cls": "genuine-proof-refused", "class": c["cls"].split(".")[1] + ".DPoPProof", "how": obs.get("e")})
        return v
    if c["t"] == "bcl":
        if obs["r"] == "ok" and c["tok"] != "genuine":
            v.append({"cls": "invalid-logout-token-accepted", "token": c["tok"], "registration": c["reg"]})
        if obs["r"] != "ok" and c["tok"] == "genuine":
            v.append({"cls": "genuine-logout-token-refused", "registration": c["reg"], "how": obs.get("e")})
        return v
    if c["t"] == "rule":
        f = RULE_ORACLE.get(c["rule"])
        if f and obs["r"] == "ok" and not f(c["args"], c["kw"]):
            v.append({"cls": "cross-parameter-rule-not-enforced", "rule": c["rule"], "class": c["cls"].split(".")[-1]})
        return v
    if c["t"] == "req" and obs["r"] == "ok":
        if obs["missing"]:
            v.append({"cls": "verify-accepts-missing-required", "class": c["cls"].split(".")[-1]})
        if obs["outside"]:
            v.append({"cls": "verify-accepts-value-outside-set", "class": c["cls"].split(".")[-1]})
    if c["t"] == "slot" and obs["r"] == "ok" and not obs["typed"]:
        v.append({"cls": "wrong-type-stored", "class": c["cls"].split(".")[-1], "param": c["param"], "given": type(c["v"]).__name__,
                  "triple": "/".join(extract_msg.triple(classes()[c["cls"]].c_param[c["param"]]))})
    return v


def known_key(c, v, known):
    return common.known_key(c, v, known)


def classify(c, obs):
    if c["t"] == "dpophdr":
        return "dpophdr:" + obs["r"]
    if c["t"] == "bcl":
        return "bcl:" + obs["r"]
    if c["t"] == "rule":
        return "rule:" + c["rule"] + ":" + obs["r"]
    return c["t"] + ":" + obs["r"]


def nontrivial(c, obs):
    if c["t"] in ("rule", "bcl", "dpophdr"):
        return True
    return c["t"] != "req" or c.get("drop") is not None or c.get("outside") is not None


def generated_obligations():
    return len(classes())


def corpus():
    # F-C11-c: JAR by reference verifies without the required response_type/client_id; F-C11-d: VerificationElement
    return [{"t": "req", "cls": "idpyoidc.message.oauth2.JWTSecuredAuthorizationRequest", "args": {"request_uri": "https://rp.example/r.jwt"}, "drop": "client_id"}]
