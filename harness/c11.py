"""C11 — message verification enforces the declared schema: exhaustive cell check over all Message subclasses."""
import json
import sys
import common
from common import enc_str, enc_list, dec_str
sys.path.insert(0, common.VERIF + "/tools")
import extract_msg
import c10
from idpyoidc.message import Message

RULE = ("cells (exhaustive over the classes found by introspection): for every Message subclass (a) a message with every required parameter "
        "set to a schema-directed value, then each required parameter removed / emptied in turn -> class verify(); (b) generic Message.verify "
        "on random present/absent/empty/out-of-set assignments vs the Lean verifyGeneric; (c) every typed parameter of a modelled kind given "
        "every other JSON type (str,int,bool,list,dict,None) -> constructor outcome vs Lean addValue, and the stored value's type is checked. "
        "oracle: verify() returned normally => every required parameter present and non-empty and every enumerated value inside its set; "
        "stored value is of the declared type. non-trivial: cell with a missing/empty/out-of-set/wrong-typed value")
MODELLED = ("modelled: Message.verify (generic), Message._type_check, Message._add_value for modelled kinds, the MRO override chain as a table "
            "(regenerated; chaining detected by AST). NOT modelled: the bodies of the ~30 class-specific cross-field rules (run on the real code "
            "by the oracle only), embedded signed objects (C16/C08 cover request objects and ID tokens)")
ASSUMPTIONS = ["AST detection of an unconditional parent verify call is sound for the idioms used in the package (top-level statement calling super().verify or Parent.verify)"]

KIND = extract_msg.KIND


def classes():
    return c10.classes()


def plausible(rng, kind, pn, cls):
    al = cls.c_allowed_values.get(pn)
    if al:
        v = list(al)[0]
        return [v] if kind in ("listStr", "spSep") else v
    if kind == "str":
        if "uri" in pn or pn in ("iss",):
            return "https://example.org/x"
        return "val"
    if kind == "int":
        return 1700000000
    if kind == "bool":
        return True
    if kind in ("listStr", "spSep"):
        return ["code"] if pn == "response_type" else ["openid"]
    return None


def cases(rng, tier):
    out = []
    for qn, cls in classes().items():
        spec = {pn: (KIND.get(extract_msg.triple(sp), "other"), sp[1] is True) for pn, sp in cls.c_param.items() if pn != "*"}
        req = [pn for pn, (k, r) in spec.items() if r and k != "other"]
        base = {pn: plausible(rng, spec[pn][0], pn, cls) for pn in req}
        out.append({"t": "req", "cls": qn, "args": base, "drop": None})
        for pn in req:
            a = dict(base); a.pop(pn)
            out.append({"t": "req", "cls": qn, "args": a, "drop": pn})
            if spec[pn][0] in ("str", "listStr", "spSep", "int"):
                out.append({"t": "req", "cls": qn, "args": base, "drop": pn, "empty": True})
        for pn in cls.c_allowed_values:
            if pn in spec and spec[pn][0] != "other":
                a = dict(base)
                a[pn] = ["not-allowed-value"] if spec[pn][0] in ("listStr", "spSep") else ("not-allowed-value" if spec[pn][0] == "str" else 424242)
                out.append({"t": "req", "cls": qn, "args": a, "drop": None, "outside": pn})
        # generic verify correspondence
        names = [pn for pn, (k, r) in spec.items() if k != "other"]
        for _ in range(2 if tier == "quick" else 12):
            a = {}
            for pn in rng.sample(names, min(len(names), rng.randint(0, 6))):
                k = spec[pn][0]
                r = rng.random()
                if r < 0.6:
                    a[pn] = plausible(rng, k, pn, cls)
                elif r < 0.8:
                    a[pn] = {"str": "", "int": 0, "bool": False, "listStr": [], "spSep": []}[k]
                else:
                    a[pn] = {"str": "zzz", "int": 99, "bool": True, "listStr": ["zzz"], "spSep": ["zzz"]}[k]
            out.append({"t": "gen", "cls": qn, "assign": a})
        # typed slots of opaque kinds whose declared type is a plain JSON type (dict / [dict]): oracle only
        for pn, sp in cls.c_param.items():
            if pn == "*" or KIND.get(extract_msg.triple(sp), "other") != "other":
                continue
            vt = sp[0][0] if isinstance(sp[0], list) else sp[0]
            if vt is dict:
                for wrong in ([[1, 2], 7, 2.5, True, "plain text", {"a": 1}] if tier != "quick" else rng.sample([[1, 2], 7, 2.5, True, {"a": 1}], 3)):
                    out.append({"t": "slot", "cls": qn, "param": pn, "kind": "other", "v": wrong})
        # typed slots
        for pn, (k, r) in spec.items():
            if k == "other":
                continue
            for wrong in (["s", 7, True, ["a", "b"], {"a": 1}, None, "12", [1], []] if tier != "quick" else rng.sample(["s", 7, True, ["a", "b"], {"a": 1}, None, "12", [1], []], 3)):
                out.append({"t": "slot", "cls": qn, "param": pn, "kind": k, "v": wrong})
    return out


def impl(c):
    cls = classes()[c["cls"]]
    if c["t"] == "req":
        try:
            m = cls(**c["args"])
            if c.get("empty"):
                k = KIND.get(extract_msg.triple(cls.c_param[c["drop"]]), "other")
                m._dict[c["drop"]] = {"str": "", "int": 0, "listStr": [], "spSep": []}[k]
        except Exception as e:
            return {"r": "construct-exc", "e": type(e).__name__}
        try:
            r = m.verify()
        except Exception as e:
            return {"r": "raise", "e": type(e).__name__}
        # state of the message AFTER verification
        missing = []
        for pn, sp in cls.c_param.items():
            if sp[1] is True and pn != "*":
                if pn not in m or (sp[0] is not bool and not m[pn]):
                    missing.append(pn)
        outside = []
        for pn, al in cls.c_allowed_values.items():
            if pn in m and m[pn]:
                vals = m[pn] if isinstance(m[pn], list) else [m[pn]]
                if any(isinstance(x, (str, int)) and x not in al for x in vals):
                    outside.append(pn)
        return {"r": "ok", "missing": missing, "outside": outside}
    if c["t"] == "gen":
        m = Message()
        m.c_param, m.c_allowed_values = cls.c_param, cls.c_allowed_values     # instance attributes: class tables untouched
        m._dict = dict(c["assign"])
        try:
            Message.verify(m)
            return {"r": "ok"}
        except Exception as e:
            return {"r": "raise", "e": type(e).__name__}
    if c["t"] == "slot":
        try:
            m = cls(set_defaults=False, **{c["param"]: c["v"]})
        except Exception as e:
            return {"r": "exc", "e": type(e).__name__}
        if c["param"] not in m:
            return {"r": "drop"}
        st = m[c["param"]]
        vt = cls.c_param[c["param"]][0]
        if isinstance(vt, list):
            typed = isinstance(st, list) and all(isinstance(x, vt[0]) for x in st)
        else:
            typed = st is None or (isinstance(st, vt) and not (vt is int and isinstance(st, bool)))
        return {"r": "ok", "stored": st if isinstance(st, (str, int, bool, list)) else repr(st), "typed": typed}


def _enc_allowed(al):
    if al is None:
        return ""
    return "A" + "\x1f".join(("s" + x) if isinstance(x, str) else ("i%d" % x) for x in al)


def model_lines(c, obs):
    cls = classes()[c["cls"]]
    if c["t"] == "gen":
        names, kinds, reqs, allowed = [], [], [], []
        for pn, sp in cls.c_param.items():
            if pn == "*":
                continue
            k = KIND.get(extract_msg.triple(sp), "other")
            names.append(pn); kinds.append(k); reqs.append("1" if sp[1] is True else "0")
            al = cls.c_allowed_values.get(pn)
            allowed.append(_enc_allowed(list(al) if al is not None else None))
        keys = list(c["assign"])
        vals = [c10.enc_val(c["assign"][k]) for k in keys]
        return ["\t".join(["msg", "verify", enc_list(names), enc_list(kinds), enc_list(reqs), enc_list(allowed), enc_list(keys)] + vals)]
    if c["t"] == "slot":
        if c["kind"] == "other":
            return []
        v = c["v"]
        if isinstance(v, dict) or v is None or (isinstance(v, list) and any(not isinstance(x, str) for x in v)):
            w = "o:1"      # opaque to the model: dict / null / list of non-strings
        else:
            w = c10.enc_val(v)
        return [f"msg\tdict\t{c['kind']}\t{w}"]
    return []


def compare(c, obs, outs):
    if c["t"] == "gen":
        return [] if outs[0] == obs["r"] else [f"generic verify: model={outs[0]} impl={obs['r']} {obs.get('e')}"]
    if c["t"] == "slot":
        if c["kind"] == "other":
            return []
        v = c["v"]
        if v is None or isinstance(v, dict) or (isinstance(v, list) and any(not isinstance(x, str) for x in v)):
            return []     # opaque inputs: oracle only
        res = outs[0].split("\t")[1]
        want = {"drop": "drop", "exc": "exc"}.get(res, "ok")
        if want != obs["r"]:
            return [f"slot outcome: model={res} impl={obs}"]
        if want == "ok":
            mv = c10.dec_val(res[3:])
            if mv != obs["stored"]:
                return [f"stored value: model={mv!r} impl={obs['stored']!r}"]
        return []
    return []


def oracle(c, obs):
    v = []
    if c["t"] == "req" and obs["r"] == "ok":
        if obs["missing"]:
            v.append({"cls": "verify-accepts-missing-required", "class": c["cls"].split(".")[-1]})
        if obs["outside"]:
            v.append({"cls": "verify-accepts-value-outside-set", "class": c["cls"].split(".")[-1]})
    if c["t"] == "slot" and obs["r"] == "ok" and not obs["typed"]:
        v.append({"cls": "wrong-type-stored", "class": c["cls"].split(".")[-1], "param": c["param"], "given": type(c["v"]).__name__,
                  "triple": "/".join(extract_msg.triple(classes()[c["cls"]].c_param[c["param"]]))})
    return v


def known_key(c, v, known):
    return common.known_key(c, v, known)


def classify(c, obs):
    return c["t"] + ":" + obs["r"]


def nontrivial(c, obs):
    return c["t"] != "req" or c.get("drop") is not None or c.get("outside") is not None


def generated_obligations():
    return len(classes())


def corpus():
    # F-C11-c: JAR by reference verifies without the required response_type/client_id; F-C11-d: VerificationElement
    return [{"t": "req", "cls": "idpyoidc.message.oauth2.JWTSecuredAuthorizationRequest", "args": {"request_uri": "https://rp.example/r.jwt"}, "drop": "client_id"}]
