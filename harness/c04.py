"""C04 — tokens are unforgeable, class-separated and bound to their session."""
import base64
import json
import random
import common
from common import enc_str, enc_list
import prov
from cryptojwt.jws.jws import JWS
from cryptojwt.key_jar import build_keyjar

RULE = ("cases: a provider with many live sessions (2 users x 3 clients, codes / access / refresh / ID tokens; opaque and JWT handlers); every "
        "genuine token is mutated (bit flips in each position class: head / middle / tail / base64 padding; truncation; extension by '=', space, "
        "newline; alternative base64 alphabet; for JWTs: segment swaps between two genuine tokens, header alg rewritten to none / HS256, payload "
        "edited, re-signed with a foreign key; re-encryption of the plaintext layout under another key; a session id offered as token) and "
        "offered in every slot (code at the token endpoint, bearer at userinfo, refresh_token at the token endpoint, token at introspection and "
        "revocation); genuine tokens are offered in every WRONG slot, and at the non-mutating slots in the right one. Outcome honoured / refused "
        "compared with the Lean model; oracle: honoured implies string-equal to a minted token of an accepted class. "
        "non-trivial: the offered string differs from every genuine token, or is offered in a slot of another class")
MODELLED = ("modelled: the exact-value lookup + class test + liveness at the end of every resolution path. At the interface (arbitrary function "
            "`decode` in the theorems): DefaultToken.info (base64/Fernet/lv_unpack), JWTToken.info (JWS), TokenHandler.get_handler order")
ASSUMPTIONS = ["token values are unique (freshness of rndstr / jti)", "mutating slots (code redemption, refresh, revocation) are probed only with strings expected to be refused; their accepting behaviour is C02/C03"]

_foreign = None
STATS = {"probes": 0, "honoured": 0, "by_kind": {}}


def foreign():
    global _foreign
    if _foreign is None:
        _foreign = build_keyjar([{"type": "RSA", "use": ["sig"]}, {"type": "EC", "crv": "P-256", "use": ["sig"]}])
    return _foreign


def cases(rng, tier):
    n = {"quick": 6, "thorough": 60, "search": 40}[tier]
    out = [{"t": "world", "jwt": rng.random() < 0.5, "oidc": rng.random() < 0.7, "seed": rng.getrandbits(40), "nmut": 70 if tier == "quick" else 150} for _ in range(n)]
    # every handler a JWT handler built from ONE specification, ID tokens signed with the algorithm of the JWT handlers
    # worlds with token exchange: exchanged tokens (owning and another client) are tokens like any other
    out += [{"t": "world", "jwt": False, "oidc": rng.random() < 0.7, "xchg": True, "seed": rng.getrandbits(40), "nmut": 30 if tier == "quick" else 100}
            for _ in range({"quick": 1, "thorough": 8, "search": 4}[tier])]
    out += [{"t": "world", "jwt": "shared", "oidc": True, "seed": rng.getrandbits(40), "nmut": 30 if tier == "quick" else 100}
            for _ in range({"quick": 1, "thorough": 6, "search": 4}[tier])]
    return out


def opbase_cliauth():
    import opbase
    return list(opbase.CLIAUTH)


def _flip(s, i):
    ch = s[i]
    rep = "A" if ch != "A" else "B"
    return s[:i] + rep + s[i + 1:]


def mutations(rng, tok, others, n):
    out = []
    L = len(tok)
    for pos in {0, 1, L // 3, L // 2, L - 3, L - 2, L - 1} | {rng.randrange(L) for _ in range(4)}:
        if 0 <= pos < L:
            out.append(_flip(tok, pos))
    out += [tok[:-1], tok[:-4], tok[1:], tok + "=", tok + "==", tok + " ", tok + "\n", " " + tok, tok + "A", tok.replace("+", "-").replace("/", "_"),
            tok.replace("-", "+").replace("_", "/"), tok.upper(), tok.rstrip("="), tok + tok]
    if tok.count(".") == 2:
        h, p, sg = tok.split(".")
        for o in others:
            if o.count(".") == 2:
                oh, op, osg = o.split(".")
                out += [".".join([h, op, sg]), ".".join([h, p, osg]), ".".join([oh, p, sg])]
        def b64(d):
            return base64.urlsafe_b64encode(json.dumps(d).encode()).decode().rstrip("=")
        try:
            hd = json.loads(base64.urlsafe_b64decode(h + "=" * (-len(h) % 4)))
            pl = json.loads(base64.urlsafe_b64decode(p + "=" * (-len(p) % 4)))
            out.append(".".join([b64(dict(hd, alg="none")), p, ""]))
            out.append(".".join([b64(dict(hd, alg="none")), p, sg]))
            out.append(".".join([b64(dict(hd, alg="HS256")), p, sg]))
            out.append(".".join([h, b64(dict(pl, exp=pl.get("exp", 0) + 10**6)), sg]))
            fk = foreign().get_signing_key("RSA" if str(hd.get("alg", "")).startswith("RS") else "EC", "")
            out.append(JWS(json.dumps(pl), alg=hd.get("alg", "ES256") if fk else "none").sign_compact(fk))
        except Exception:
            pass
    out = [m for m in dict.fromkeys(out) if m != tok]
    rng.shuffle(out)
    return out[:n]


def _probe(R, slot, s):
    client = "client_1"
    if slot == "userinfo":
        r = R.op_safe_raw("userinfo", s)
    elif slot == "introspect":
        r = R.op_safe_raw("introspect", s)
    elif slot == "tokenCode":
        r = R.op_safe_raw("tokenCode", s)
    elif slot == "refreshGrant":
        r = R.op_safe_raw("refreshGrant", s)
    elif slot == "bearerAuth":
        r = R.op_safe_raw("bearerAuth", s)
    else:
        r = R.op_safe_raw("revoke", s)
    return r


def impl(c):
    rng = random.Random(c["seed"])
    from idpyoidc.server.oauth2.token_revocation import TokenRevocation
    # the revocation endpoint also accepts an access token as the client's credential (bearer_header)
    R = prov.Runner(c["oidc"], c["jwt"], usage="exchange" if c.get("xchg") else None,
                    more_endpoints={"token_revocation": {"path": "revocation", "class": TokenRevocation,
                                                         "kwargs": {"client_authn_method": opbase_cliauth() + ["bearer_header"]}}})
    if c["jwt"]:
        # ID tokens of client_2 carry the signature algorithm of the JWT token handlers (their default, ES256)
        R.s.context.cdb["client_2"]["id_token_signed_response_alg"] = "ES256"
    ops, _ = [], None
    # build a world with many live sessions
    for u in prov.USERS:
        for cl in prov.CLIENTS:
            red = f"https://{cl}.example.com/cb"
            r = R.op(["authorize", u, cl, ["openid", "offline_access", "email"], red])
            if r[0] == "code" and rng.random() < 0.8:
                R.op(["tokenParse", cl, r[1], red]); R.op(["tokenProcess", 0])
    if c.get("xchg"):
        acc = [t[0] for t in R.projection()["toks"] if t[1] == "access"]
        ref = [t[0] for t in R.projection()["toks"] if t[1] == "refresh"]
        for _ in range(6):
            if acc:
                R.op(["exchange", rng.choice(prov.CLIENTS[:3]), rng.choice(acc), "access", rng.choice([None, "access", "refresh"]), None])
            if ref:
                R.op(["exchange", rng.choice(prov.CLIENTS[:3]), rng.choice(ref), "refresh", rng.choice([None, "access"]), None])
    R.op(["revokeTok", rng.choice(sorted(R.val)), False])
    proj = R.projection()
    toks = {t[0]: t for t in proj["toks"]}
    now = prov.clock.CLOCK.t - prov.T0
    minted = []
    for h, val in R.val.items():
        t = toks.get(h)
        if t is None:
            continue
        active = (not t[5]) and (t[6] == 0 or now <= t[6]) and not (t[1] == "code" and t[4] >= 1)
        minted.append([val, t[1], t[2], active])
    genuine = [m[0] for m in minted]
    probes = []
    sids = [R._sid_of_grant(g) for g in R.gobj]
    for m in minted:
        for slot in ("userinfo", "introspect", "bearerAuth"):
            probes.append([slot, m[0], "genuine" if slot != "bearerAuth" or m[1] == "access" else "genuine-wrong-slot"])
        for slot in ("tokenCode", "refreshGrant"):
            if not (slot == "tokenCode" and m[1] == "code") and not (slot == "refreshGrant" and m[1] == "refresh"):
                probes.append([slot, m[0], "genuine-wrong-slot"])
        if m[1] == "idtoken":
            probes.append(["revoke", m[0], "genuine-wrong-slot"])
    pool = []
    for m in minted:
        for mu in mutations(rng, m[0], rng.sample(genuine, 2), 10):
            pool.append(mu)
    pool += sids
    rng.shuffle(pool)
    for mu in pool[: c["nmut"]]:
        for slot in ("tokenCode", "userinfo", "refreshGrant", "introspect", "revoke", "bearerAuth"):
            probes.append([slot, mu, "mutated"])
    before = R.projection()
    results = []
    for slot, s, kind in probes:
        results.append([slot, s, kind, _probe(R, slot, s)])
    # binding: what the non-mutating endpoints say a genuine token belongs to, asked by every registered client
    owner = {hg: [g.sub, path[1]] for hg, (g, path) in R.gobj.items()}
    binding = []
    for m in minted:
        binding.append(["userinfo", m[0], "client_1", R.resolve_raw("userinfo", m[0])])
        for caller in prov.CLIENTS:
            binding.append(["introspect", m[0], caller, R.resolve_raw("introspect", m[0], caller)])
    # the resolution layer under the endpoints (SessionManager.get_session_info_by_token with the class slot named): every genuine
    # token, whatever its state, in every class slot — it is what bearer client authentication and several helpers rely on
    KEYS = {"authorization_code": "code", "access_token": "access", "refresh_token": "refresh"}
    smres = []
    for m in minted:
        for key in KEYS:
            try:
                info = R.sm.get_session_info_by_token(m[0], handler_key=key, grant=True)
                who = [info["grant"].sub, info["client_id"]]
            except Exception:
                who = None
            smres.append([key, m[0], m[1], m[2], who])
    after = R.projection()
    STATS["sm_probes"] = STATS.get("sm_probes", 0) + len(smres)
    STATS["probes"] += len(results)
    STATS["honoured"] += sum(1 for r in results if r[3])
    for r in results:
        STATS["by_kind"][r[2]] = STATS["by_kind"].get(r[2], 0) + 1
    STATS["binding_probes"] = STATS.get("binding_probes", 0) + len(binding)
    return {"minted": minted, "results": results, "state_unchanged": before == after, "binding": binding, "owner": {str(k): v for k, v in owner.items()},
            "sm": smres, "sm_keys": KEYS}


def model_lines(c, obs):
    US = "\x1f"
    minted = enc_list([US.join([m[0], m[1], str(m[2]), "1" if m[3] else "0"]) for m in obs["minted"]])
    return (["\t".join(["res", "honour", slot, enc_str(s), minted]) for slot, s, kind, r in obs["results"]] +
            ["\t".join(["res", "honour", slot, enc_str(s), minted]) for slot, s, caller, who in obs["binding"]])


def compare(c, obs, outs):
    d = []
    for (slot, s, kind, r), o in zip(obs["results"], outs):
        m = o.startswith("honoured")
        if m != r:
            d.append(f"{slot} {kind} {s[:60]!r}: model={o} impl={'honoured' if r else 'refused'}")
            if len(d) > 2:
                break
    n = len(obs["results"])
    for (slot, s, caller, who), o in zip(obs["binding"], outs[n:]):
        if o.startswith("honoured"):
            want = obs["owner"].get(o.split(" ")[1])
            if who is None or want is None or who[0] != want[0] or (slot == "introspect" and who[1] != want[1]):
                d.append(f"{slot} by {caller}: model resolves to session {o.split(' ')[1]} = {want}, implementation says {who}")
                break
        elif who is not None:
            d.append(f"{slot} by {caller}: model refuses, implementation answers {who}")
            break
    return d


def oracle(c, obs):
    v = []
    acc = {"tokenCode": {"code"}, "userinfo": {"access"}, "refreshGrant": {"refresh"}, "introspect": {"access", "refresh"}, "revoke": {"code", "access", "refresh"},
           "bearerAuth": {"access"}}
    by_val = {m[0]: m for m in obs["minted"]}
    for slot, s, kind, r in obs["results"]:
        if r:
            m = by_val.get(s)
            if m is None:
                v.append({"cls": "unminted-string-honoured", "slot": slot, "kind": kind})
            elif m[1] not in acc[slot]:
                v.append({"cls": "wrong-class-honoured", "slot": slot, "token_class": m[1]})
            elif not m[3] and slot == "bearerAuth":
                v.append({"cls": "dead-token-authenticates-client", "slot": slot, "token_class": m[1]})
    for slot, s, caller, who in obs["binding"]:
        if who is not None:
            m = by_val.get(s)
            want = obs["owner"].get(str(m[2])) if m else None
            if want is None or who[0] != want[0] or (slot == "introspect" and who[1] != want[1]):
                v.append({"cls": "token-resolves-to-another-session", "slot": slot, "caller_is_owner": bool(want) and caller == want[1]})
                break
    for key, s, cls, sess, who in obs.get("sm", []):
        if who is not None:
            want = obs["owner"].get(str(sess))
            if obs["sm_keys"][key] != cls:
                v.append({"cls": "wrong-class-resolved-by-session-manager", "slot": key, "token_class": cls}); break
            if want is None or who != want:
                v.append({"cls": "token-resolves-to-another-session", "slot": "sm:" + key}); break
    if not obs["state_unchanged"]:
        v.append({"cls": "refused-probe-changed-state"})
    return v[:3]


def known_key(c, v, known):
    return common.known_key(c, v, known)


def classify(c, obs):
    return ("jwt-one-spec" if c["jwt"] == "shared" else "jwt" if c["jwt"] else "opaque") + ":" + ("oidc" if c["oidc"] else "oauth2")


def nontrivial(c, obs):
    return True


def evidence_extra():
    return {"probes": STATS["probes"], "probes_honoured": STATS["honoured"], "probes_by_kind": STATS["by_kind"], "binding_probes": STATS.get("binding_probes", 0),
            "session_manager_probes": STATS.get("sm_probes", 0)}
