"""C04 — tokens are unforgeable, class-separated and bound to their session."""
import base64
import json
import random
import common
from common import enc_str, enc_list
import prov
from cryptojwt.jws.jws import JWS
from cryptojwt.key_jar import build_keyjar

RULE = ("cases: a provider with many live sessions (2 users x 3 clients, codes / access / refresh / ID tokens; opaque and JWT handlers); every "
        "genuine token is mutated (bit flips in each position class: head / middle / tail / base64 padding; truncation; extension by '=', space, "
        "newline; alternative base64 alphabet; for JWTs: segment swaps between two genuine tokens, header alg rewritten to none / HS256, payload "
        "edited, re-signed with a foreign key; re-encryption of the plaintext layout under another key; a session id offered as token) and "
        "offered in every slot (code at the token endpoint, bearer at userinfo, refresh_token at the token endpoint, token at introspection and "
        "revocation); genuine tokens are offered in every WRONG slot, and at the non-mutating slots in the right one. Outcome honoured / refused "
        "compared with the Lean model; oracle: honoured implies string-equal to a minted token of an accepted class. "
        "non-trivial: the offered string differs from every genuine token, or is offered in a slot of another class")
MODELLED = ("modelled: the exact-value lookup + class test + liveness at the end of every resolution path. At the interface (arbitrary function "
            "`decode` in the theorems): DefaultToken.info (base64/Fernet/lv_unpack), JWTToken.info (JWS), TokenHandler.get_handler order")
ASSUMPTIONS = ["token values are unique (freshness of rndstr / jti)", "mutating slots (code redemption, refresh, revocation) are probed only with strings expected to be refused; their accepting behaviour is C02/C03"]

_foreign = None
STATS = {"probes": 0, "honoured": 0, "by_kind": {}}


def foreign():
    global _foreign
    if _foreign is None:
        _foreign = build_keyjar([{"type": "RSA", "use": ["sig"]}, {"type": "EC", "crv": "P-256", "use": ["sig"]}])
    return _foreign


def cases(rng, tier):
    n = {"quick": 6, "thorough": 60, "search": 40}[tier]
    out = [{"t": "world", "jwt": rng.random() < 0.5, "oidc": rng.random() < 0.7, "seed": rng.getrandbits(40), "nmut": 70 if tier == "quick" else 150} for _ in range(n)]
    # every handler a JWT handler built from ONE specification, ID tokens signed with the algorithm of the JWT handlers
    # worlds with token exchange: exchanged tokens (owning and another client) are tokens like any other
    out += [{"t": "world", "jwt": False, "oidc": rng.random() < 0.7, "xchg": True, "seed": rng.getrandbits(40), "nmut": 30 if tier == "quick" else 100}
            for _ in range({"quick": 1, "thorough": 8, "search": 4}[tier])]
    out += [{"t": "world", "jwt": "shared", "oidc": True, "seed": rng.getrandbits(40), "nmut": 30 if tier == "quick" else 100}
            for _ in range({"quick": 1, "thorough": 6, "search": 4}[tier])]
    # the handler layer on its own (DefaultToken.info, TokenHandler.get_handler, get_session_info_by_token up to the session lookup)
    out += [{"t": "handler", "shared": sh, "seed": rng.getrandbits(40), "n": 60 if tier == "quick" else 200}
            for sh in (False, True) for _ in range({"quick": 1, "thorough": 6, "search": 3}[tier])]
    return out


HNAMES = ["authorization_code", "access_token", "refresh_token"]


def _plaintexts(rng, n, alts):
    """structured plaintexts: (declared length, value) pairs; mostly well-formed with one defect"""
    import string
    AL = string.ascii_letters + string.digits + ":;."
    def word(k):
        return "".join(rng.choice(AL) for _ in range(k))
    tags = HNAMES + [alts[k] for k in HNAMES] + ["id_token", "I", "", "X", "access_token ", "Access_token", "T" * 2, "a"]
    out = []
    for _ in range(n):
        fields = [word(rng.choice([0, 1, 8, 32])), rng.choice(tags), word(rng.choice([0, 1, 5, 40])), str(rng.choice([0, 7, 1700000000, 99999999999]))]
        kind = rng.choice(["plain", "plain", "plain", "fewer", "more", "len+", "len-", "badlen", "nocolon", "ws", "empty", "minus1"])
        if kind == "minus1":
            fields[3] = "-1"
        if kind == "fewer":
            fields = fields[: rng.randrange(0, 4)]
        if kind == "more":
            fields = fields + [word(3)] * rng.randrange(1, 3)
        parts = [[len(f), f] for f in fields]
        if kind in ("len+", "len-") and parts:
            i = rng.randrange(len(parts))
            parts[i][0] = max(0, parts[i][0] + (rng.choice([1, 2, 50]) if kind == "len+" else -rng.choice([1, 2])))
        txt = "".join(f"{l}:{v}" for l, v in parts)
        if kind == "badlen" and parts:
            i = rng.randrange(len(parts))
            parts2 = [(str(l) if j != i else rng.choice(["x", "", "1x", "q9"])) + ":" + v for j, (l, v) in enumerate(parts)]
            txt = "".join(parts2)
        if kind == "nocolon":
            txt = txt.replace(":", "", 1) if rng.random() < 0.5 else txt + "9"
        if kind == "ws":
            txt = rng.choice([" ", "\n", "\t "]) + txt + rng.choice(["", " ", "\n"])
        if kind == "empty":
            txt = rng.choice(["", " ", "0:"])
        # outside the model's domain (documented in Model/LV.lean): int() leniencies — a length prefix that starts with whitespace, a sign or '_'
        if _lenient(txt):
            continue
        out.append([kind, txt])
    return out


def _lenient(txt):
    t = txt.strip()
    while t:
        if ":" not in t:
            return False
        l, v = t.split(":", 1)
        if not (l.isascii() and l.isdigit()):
            # Python's int() would still read ' 3', '+3', '-3', '1_0', non-ASCII digits
            try:
                int(l)
                return True
            except ValueError:
                return False
        t = v[int(l):]
    return False


def impl_handler(c):
    import opbase
    from idpyoidc.server.token import ALT_TOKEN_NAME
    from idpyoidc.server.token.exception import TokenException
    from cryptojwt.exception import Invalid
    from cryptojwt.jwe.fernet import FernetEncrypter
    rng = random.Random(c["seed"])
    short = {"authorization_code": "code", "access_token": "token", "refresh_token": "refresh"}
    keyid = {k: (0 if c["shared"] else i) for i, k in enumerate(HNAMES)}
    tha = {short[k]: {"lifetime": 600, "kwargs": {"crypt_conf": {"kwargs": {"key": (b"%d" % keyid[k]) * 32}}}} for k in HNAMES}
    tha["id_token"] = {"class": "idpyoidc.server.token.id_token.IDToken", "kwargs": {}}
    s = opbase.make_op(extra={"token_handler_args": tha})
    sm = s.context.session_manager
    th = sm.token_handler
    # the layer ends where the session lookup begins: what get_session_info_by_token hands on is observed, not looked up
    sm.get_session_info = lambda sid, **kw: {"sid": sid}
    sm._compatible_sid = lambda sid: sid
    foreign = FernetEncrypter(key=b"9" * 32)
    order = [k for k in th.handler_order if k in HNAMES]
    hs = [[k, ALT_TOKEN_NAME.get(k, ""), keyid[k]] for k in order]
    probes = []
    def outcome(f):
        try:
            r = f()
        except (KeyError, TokenException, Invalid, AttributeError) as e:
            return ["skip"]
        except Exception as e:
            return ["raise"]
        return r
    # genuine tokens first: minted by the handler itself
    clock = prov.clock
    for k in HNAMES:
        for sid in ("sid-1", "u;;c;;g"):
            tok = th.handler[k](session_id=sid)
            plain = th.handler[k].crypt.decrypt(base64.b64decode(tok)).decode()
            probes.append(["genuine", k, keyid[k], plain, tok])
    for kind, txt in _plaintexts(rng, c["n"], ALT_TOKEN_NAME):
        who = rng.choice(HNAMES + ["foreign"])
        crypt = foreign if who == "foreign" else th.handler[who].crypt
        tok = base64.b64encode(crypt.encrypt(txt.encode())).decode()
        probes.append([kind, who, 9 if who == "foreign" else keyid[who], txt, tok])
    res = []
    for kind, who, tkey, plain, tok in probes:
        infos = []
        for k in order:
            def f(k=k):
                i = th.handler[k].info(tok)
                return ["ok", i.get("_id"), i.get("token_class"), i.get("sid"), i.get("exp")]
            infos.append(outcome(f))
        def g():
            h, i = th.get_handler(tok)
            if h is None:
                return ["none"]
            return ["found", h.token_class, i.get("_id"), i.get("token_class"), i.get("sid"), i.get("exp")]
        got = outcome(g)
        hk = rng.choice([None] + HNAMES)
        def sidf():
            return ["sid", sm.get_session_info_by_token(tok, handler_key=hk or "")["sid"]]
        try:
            sid = sidf()
        except Exception:
            sid = ["refused"]
        res.append({"kind": kind, "by": who, "tkey": tkey, "plain": plain, "hk": hk, "infos": infos, "get": got, "sid": sid})
    STATS["handler_probes"] = STATS.get("handler_probes", 0) + len(res)
    for r in res:
        STATS["by_kind"]["handler:" + r["kind"]] = STATS["by_kind"].get("handler:" + r["kind"], 0) + 1
    return {"hs": hs, "res": res}


def _opt(x):
    return "none" if x is None else "some:" + enc_str(x)


def model_lines_handler(c, obs):
    US = "\x1f"
    hs = enc_list([US.join([n, a, str(k)]) for n, a, k in obs["hs"]])
    return ["\t".join(["res", "handler", hs, "none" if r["hk"] is None else enc_str(r["hk"]), enc_str(str(r["tkey"])), enc_str(r["plain"])]) for r in obs["res"]]


def compare_handler(c, obs, outs):
    d = []
    for r, o in zip(obs["res"], outs):
        def show(i):
            return "ok " + " ".join([enc_str(i[1]), enc_str(i[2]), _opt(i[3]), _opt(i[4])])
        infos = "|".join(show(i) if i[0] == "ok" else i[0] for i in r["infos"])
        g = r["get"]
        get = g[0] if g[0] in ("none", "raise") else ("raise" if g[0] == "skip" else enc_str(g[1]) + " ok " + " ".join([enc_str(g[2]), enc_str(g[3]), _opt(g[4]), _opt(g[5])]))
        sid = "none" if r["sid"][0] == "refused" else "some:" + enc_str(r["sid"][1])
        want = infos + " get=" + get + " sid=" + sid
        if want != o:
            d.append(f"handler layer, {r['kind']} plaintext {r['plain'][:60]!r} encrypted by {r['by']}, handler_key {r['hk']}: implementation {want} / model {o}")
            if len(d) > 2:
                break
    return d


def oracle_handler(c, obs):
    v = []
    tags = {n: {n, a} for n, a, k in obs["hs"]}
    keyof = {n: k for n, a, k in obs["hs"]}
    def fields(plain):
        # the reference reading of a WELL-FORMED text (every length right); None otherwise
        t, out = plain.strip(), []
        while t:
            l, _, v2 = t.partition(":")
            if not (l.isascii() and l.isdigit()) or len(v2) < int(l):
                return None
            out.append(v2[: int(l)]); t = v2[int(l):]
        return out
    for r in obs["res"]:
        f = fields(r["plain"])
        for (n, a, k), i in zip(obs["hs"], r["infos"]):
            if i[0] == "ok":
                if r["tkey"] != k:
                    v.append({"cls": "handler-accepts-text-under-another-key", "handler": n}); break
                if f is not None and (len(f) < 2 or f[1] not in tags[n]):
                    v.append({"cls": "handler-accepts-foreign-class-tag", "handler": n, "tag": f[1] if len(f) > 1 else None}); break
        if r["kind"] == "genuine":
            own = r["by"]
            if r["get"][0] != "found" or r["get"][1] != own:
                v.append({"cls": "genuine-token-not-resolved-by-own-handler", "handler": own, "got": r["get"][:2]})
            if r["hk"] not in (None, own) and r["sid"][0] == "sid":
                v.append({"cls": "wrong-class-resolved-by-session-manager", "slot": r["hk"], "token_class": own})
            if r["hk"] in (None, own) and r["sid"][0] != "sid":
                v.append({"cls": "genuine-token-refused-by-session-manager", "slot": r["hk"], "token_class": own})
        if r["sid"][0] == "sid" and r["hk"] and f is not None and (len(f) < 3 or f[1] not in tags[r["hk"]] or r["tkey"] != keyof[r["hk"]]):
            v.append({"cls": "wrong-class-resolved-by-session-manager", "slot": r["hk"], "tag": f[1] if len(f) > 1 else None})
    return v[:3]


def opbase_cliauth():
    import opbase
    return list(opbase.CLIAUTH)


def _flip(s, i):
    ch = s[i]
    rep = "A" if ch != "A" else "B"
    return s[:i] + rep + s[i + 1:]


def mutations(rng, tok, others, n):
    out = []
    L = len(tok)
    for pos in {0, 1, L // 3, L // 2, L - 3, L - 2, L - 1} | {rng.randrange(L) for _ in range(4)}:
        if 0 <= pos < L:
            out.append(_flip(tok, pos))
    out += [tok[:-1], tok[:-4], tok[1:], tok + "=", tok + "==", tok + " ", tok + "\n", " " + tok, tok + "A", tok.replace("+", "-").replace("/", "_"),
            tok.replace("-", "+").replace("_", "/"), tok.upper(), tok.rstrip("="), tok + tok]
    if tok.count(".") == 2:
        h, p, sg = tok.split(".")
        for o in others:
            if o.count(".") == 2:
                oh, op, osg = o.split(".")
                out += [".".join([h, op, sg]), ".".join([h, p, osg]), ".".join([oh, p, sg])]
        def b64(d):
            return base64.urlsafe_b64encode(json.dumps(d).encode()).decode().rstrip("=")
        try:
            hd = json.loads(base64.urlsafe_b64decode(h + "=" * (-len(h) % 4)))
            pl = json.loads(base64.urlsafe_b64decode(p + "=" * (-len(p) % 4)))
            out.append(".".join([b64(dict(hd, alg="none")), p, ""]))
            out.append(".".join([b64(dict(hd, alg="none")), p, sg]))
            out.append(".".join([b64(dict(hd, alg="HS256")), p, sg]))
            out.append(".".join([h, b64(dict(pl, exp=pl.get("exp", 0) + 10**6)), sg]))
            fk = foreign().get_signing_key("RSA" if str(hd.get("alg", "")).startswith("RS") else "EC", "")
            out.append(JWS(json.dumps(pl), alg=hd.get("alg", "ES256") if fk else "none").sign_compact(fk))
        except Exception:
            pass
    out = [m for m in dict.fromkeys(out) if m != tok]
    rng.shuffle(out)
    return out[:n]


def _probe(R, slot, s):
    client = "client_1"
    if slot == "userinfo":
        r = R.op_safe_raw("userinfo", s)
    elif slot == "introspect":
        r = R.op_safe_raw("introspect", s)
    elif slot == "tokenCode":
        r = R.op_safe_raw("tokenCode", s)
    elif slot == "refreshGrant":
        r = R.op_safe_raw("refreshGrant", s)
    elif slot == "bearerAuth":
        r = R.op_safe_raw("bearerAuth", s)
    else:
        r = R.op_safe_raw("revoke", s)
    return r


def impl(c):
    if c.get("t") == "handler":
        return impl_handler(c)
    rng = random.Random(c["seed"])
    from idpyoidc.server.oauth2.token_revocation import TokenRevocation
    # the revocation endpoint also accepts an access token as the client's credential (bearer_header)
    R = prov.Runner(c["oidc"], c["jwt"], usage="exchange" if c.get("xchg") else None,
                    more_endpoints={"token_revocation": {"path": "revocation", "class": TokenRevocation,
                                                         "kwargs": {"client_authn_method": opbase_cliauth() + ["bearer_header"]}}})
    if c["jwt"]:
        # ID tokens of client_2 carry the signature algorithm of the JWT token handlers (their default, ES256)
        R.s.context.cdb["client_2"]["id_token_signed_response_alg"] = "ES256"
    ops, _ = [], None
    # build a world with many live sessions
    for u in prov.USERS:
        for cl in prov.CLIENTS:
            red = f"https://{cl}.example.com/cb"
            r = R.op(["authorize", u, cl, ["openid", "offline_access", "email"], red])
            if r[0] == "code" and rng.random() < 0.8:
                R.op(["tokenParse", cl, r[1], red]); R.op(["tokenProcess", 0])
    if c.get("xchg"):
        acc = [t[0] for t in R.projection()["toks"] if t[1] == "access"]
        ref = [t[0] for t in R.projection()["toks"] if t[1] == "refresh"]
        for _ in range(6):
            if acc:
                R.op(["exchange", rng.choice(prov.CLIENTS[:3]), rng.choice(acc), "access", rng.choice([None, "access", "refresh"]), None])
            if ref:
                R.op(["exchange", rng.choice(prov.CLIENTS[:3]), rng.choice(ref), "refresh", rng.choice([None, "access"]), None])
    R.op(["revokeTok", rng.choice(sorted(R.val)), False])
    proj = R.projection()
    toks = {t[0]: t for t in proj["toks"]}
    now = prov.clock.CLOCK.t - prov.T0
    minted = []
    for h, val in R.val.items():
        t = toks.get(h)
        if t is None:
            continue
        active = (not t[5]) and (t[6] == 0 or now <= t[6]) and not (t[1] == "code" and t[4] >= 1)
        minted.append([val, t[1], t[2], active])
    genuine = [m[0] for m in minted]
    probes = []
    sids = [R._sid_of_grant(g) for g in R.gobj]
    for m in minted:
        for slot in ("userinfo", "introspect", "bearerAuth"):
            probes.append([slot, m[0], "genuine" if slot != "bearerAuth" or m[1] == "access" else "genuine-wrong-slot"])
        for slot in ("tokenCode", "refreshGrant"):
            if not (slot == "tokenCode" and m[1] == "code") and not (slot == "refreshGrant" and m[1] == "refresh"):
                probes.append([slot, m[0], "genuine-wrong-slot"])
        if m[1] == "idtoken":
            probes.append(["revoke", m[0], "genuine-wrong-slot"])
    pool = []
    for m in minted:
        for mu in mutations(rng, m[0], rng.sample(genuine, 2), 10):
            pool.append(mu)
    pool += sids
    rng.shuffle(pool)
    for mu in pool[: c["nmut"]]:
        for slot in ("tokenCode", "userinfo", "refreshGrant", "introspect", "revoke", "bearerAuth"):
            probes.append([slot, mu, "mutated"])
    before = R.projection()
    results = []
    for slot, s, kind in probes:
        results.append([slot, s, kind, _probe(R, slot, s)])
    # binding: what the non-mutating endpoints say a genuine token belongs to, asked by every registered client
    owner = {hg: [g.sub, path[1]] for hg, (g, path) in R.gobj.items()}
    binding = []
    for m in minted:
        binding.append(["userinfo", m[0], "client_1", R.resolve_raw("userinfo", m[0])])
        for caller in prov.CLIENTS:
            binding.append(["introspect", m[0], caller, R.resolve_raw("introspect", m[0], caller)])
    # two requests whose steps INTERLEAVE at one endpoint object (parse A, parse B, process A, process B — and B first): each is answered
    # for the session its own token was minted in, whatever the endpoint kept from the other
    inter = []
    live_at = [m for m in minted if m[1] == "access" and m[3]]
    for _ in range(min(12, len(live_at) * 2)):
        if len(live_at) < 2:
            break
        a, b = rng.sample(live_at, 2)
        for _try in range(8):          # tokens of DIFFERENT users, so that an answer for the other session shows
            if owner.get(a[2], [0])[0] != owner.get(b[2], [1])[0]:
                break
            a, b = rng.sample(live_at, 2)
        for slot in ("userinfo", "introspect"):
            try:
                if slot == "userinfo":
                    ep = R.s.get_endpoint("userinfo")
                    pa = ep.parse_request({}, http_info={"headers": {"authorization": "Bearer " + a[0]}})
                    pb = ep.parse_request({}, http_info={"headers": {"authorization": "Bearer " + b[0]}})
                    order = rng.choice([(pa, a, pb, b), (pb, b, pa, a)])
                    got = []
                    for pr, m in (order[0:2], order[2:4]):
                        out = ep.process_request(pr)
                        got.append([m[0], m[2], out.get("response_args", {}).get("sub") if "error" not in out else None])
                else:
                    ep = R.s.get_endpoint("introspection")
                    ca, cb = "client_1", "client_2"
                    pa = ep.parse_request({"token": a[0], "client_id": ca, "client_secret": R.secret(ca)})
                    pb = ep.parse_request({"token": b[0], "client_id": cb, "client_secret": R.secret(cb)})
                    got = []
                    for pr, m in ((pa, a), (pb, b)):
                        ra = ep.process_request(pr)["response_args"]
                        got.append([m[0], m[2], ra.get("sub") if ra.get("active") else None])
                inter.append([slot, got])
            except Exception as e:
                inter.append([slot, "exc:" + type(e).__name__])
    # the resolution layer under the endpoints (SessionManager.get_session_info_by_token with the class slot named): every genuine
    # token, whatever its state, in every class slot — it is what bearer client authentication and several helpers rely on
    KEYS = {"authorization_code": "code", "access_token": "access", "refresh_token": "refresh"}
    smres = []
    for m in minted:
        for key in KEYS:
            try:
                info = R.sm.get_session_info_by_token(m[0], handler_key=key, grant=True)
                who = [info["grant"].sub, info["client_id"]]
            except Exception:
                who = None
            smres.append([key, m[0], m[1], m[2], who])
    after = R.projection()
    STATS["sm_probes"] = STATS.get("sm_probes", 0) + len(smres)
    STATS["probes"] += len(results)
    STATS["honoured"] += sum(1 for r in results if r[3])
    for r in results:
        STATS["by_kind"][r[2]] = STATS["by_kind"].get(r[2], 0) + 1
    STATS["binding_probes"] = STATS.get("binding_probes", 0) + len(binding)
    return {"minted": minted, "results": results, "state_unchanged": before == after, "binding": binding, "owner": {str(k): v for k, v in owner.items()},
            "sm": smres, "sm_keys": KEYS, "inter": inter}


def model_lines(c, obs):
    if c.get("t") == "handler":
        return model_lines_handler(c, obs)
    US = "\x1f"
    minted = enc_list([US.join([m[0], m[1], str(m[2]), "1" if m[3] else "0"]) for m in obs["minted"]])
    return (["\t".join(["res", "honour", slot, enc_str(s), minted]) for slot, s, kind, r in obs["results"]] +
            ["\t".join(["res", "honour", slot, enc_str(s), minted]) for slot, s, caller, who in obs["binding"]])


def compare(c, obs, outs):
    if c.get("t") == "handler":
        return compare_handler(c, obs, outs)
    d = []
    for (slot, s, kind, r), o in zip(obs["results"], outs):
        m = o.startswith("honoured")
        if m != r:
            d.append(f"{slot} {kind} {s[:60]!r}: model={o} impl={'honoured' if r else 'refused'}")
            if len(d) > 2:
                break
    n = len(obs["results"])
    for (slot, s, caller, who), o in zip(obs["binding"], outs[n:]):
        if o.startswith("honoured"):
            want = obs["owner"].get(o.split(" ")[1])
            if who is None or want is None or who[0] != want[0] or (slot == "introspect" and who[1] != want[1]):
                d.append(f"{slot} by {caller}: model resolves to session {o.split(' ')[1]} = {want}, implementation says {who}")
                break
        elif who is not None:
            d.append(f"{slot} by {caller}: model refuses, implementation answers {who}")
            break
    return d


def oracle(c, obs):
    if c.get("t") == "handler":
        return oracle_handler(c, obs)
    v = []
    acc = {"tokenCode": {"code"}, "userinfo": {"access"}, "refreshGrant": {"refresh"}, "introspect": {"access", "refresh"}, "revoke": {"code", "access", "refresh"},
           "bearerAuth": {"access"}}
    by_val = {m[0]: m for m in obs["minted"]}
    for slot, s, kind, r in obs["results"]:
        if r:
            m = by_val.get(s)
            if m is None:
                v.append({"cls": "unminted-string-honoured", "slot": slot, "kind": kind})
            elif m[1] not in acc[slot]:
                v.append({"cls": "wrong-class-honoured", "slot": slot, "token_class": m[1]})
            elif not m[3] and slot == "bearerAuth":
                v.append({"cls": "dead-token-authenticates-client", "slot": slot, "token_class": m[1]})
    for slot, s, caller, who in obs["binding"]:
        if who is not None:
            m = by_val.get(s)
            want = obs["owner"].get(str(m[2])) if m else None
            if want is None or who[0] != want[0] or (slot == "introspect" and who[1] != want[1]):
                v.append({"cls": "token-resolves-to-another-session", "slot": slot, "caller_is_owner": bool(want) and caller == want[1]})
                break
    for key, s, cls, sess, who in obs.get("sm", []):
        if who is not None:
            want = obs["owner"].get(str(sess))
            if obs["sm_keys"][key] != cls:
                v.append({"cls": "wrong-class-resolved-by-session-manager", "slot": key, "token_class": cls}); break
            if want is None or who != want:
                v.append({"cls": "token-resolves-to-another-session", "slot": "sm:" + key}); break
    for slot, got in obs.get("inter", []):
        if isinstance(got, str):
            continue
        for tok, sess, sub in got:
            want = obs["owner"].get(str(sess))
            if sub is not None and want is not None and sub != want[0]:
                v.append({"cls": "token-resolves-to-another-session", "slot": slot, "how": "interleaved requests"}); break
    if not obs["state_unchanged"]:
        v.append({"cls": "refused-probe-changed-state"})
    return v[:3]


def known_key(c, v, known):
    return common.known_key(c, v, known)


def classify(c, obs):
    if c.get("t") == "handler":
        return "handler-layer:" + ("one-key" if c["shared"] else "key-per-class")
    return ("jwt-one-spec" if c["jwt"] == "shared" else "jwt" if c["jwt"] else "opaque") + ":" + ("oidc" if c["oidc"] else "oauth2")


def nontrivial(c, obs):
    return True


def evidence_extra():
    return {"probes": STATS["probes"], "probes_honoured": STATS["honoured"], "probes_by_kind": STATS["by_kind"], "binding_probes": STATS.get("binding_probes", 0),
            "session_manager_probes": STATS.get("sm_probes", 0)}
