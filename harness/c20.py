"""C20 — handling requests never alters static schemas, defaults or client configuration."""
import copy
import json
import random
import common
import clock
import heapsnap
import prov

RULE = ("cases: batches of requests against ONE long-lived provider (and, for the client side, one long-lived relying party): provider-core "
        "histories (authorize / redeem / refresh / userinfo / introspection / revocation / logout, with error paths) over clients with "
        "different per-client configuration (token_usage_rules, add_claims, per-client revocation and userinfo settings) under provider "
        "configurations with and without grant_config.usage_rules; client-side request construction with every client authentication method. "
        "Before the batch and after EVERY request: (1) a deep structural snapshot of every static root — the c_param / c_default / "
        "c_allowed_values tables of every Message subclass (reflection), the package's module-level constants, every endpoint's and token "
        "handler's attributes and kwargs, the authz and claims configuration, provider_info, every client record minus auth_method — must be "
        "unchanged; (2) the alias graph: containers reachable from static roots AND from dynamic roots (session database, request caches) are "
        "reported (shared references: a write through the dynamic side would alter static state); (3) history freedom: a probe request gives "
        "the same outcome on the aged instance as on a fresh one. The Lean model's claim for the transcribed flows is 'unchanged'. "
        "non-trivial: a batch with at least 8 requests")
MODELLED = ("modelled: a heap of dict/list cells with static and dynamic roots and the primitive operations of the transcribed data flows "
            "(AuthzHandling.usage_rules, the token helpers' supports_minting handling, per-client revocation / userinfo settings, find_token). "
            "Everything else static is covered by the snapshot comparison only")
ASSUMPTIONS = ["cdb[client]['auth_method'] is the documented record of the last authentication method and is excluded from the static roots"]

CFGV = [
    {"usage_rules": True, "c1_rules": "full", "revocation": None},
    {"usage_rules": True, "c1_rules": "partial", "revocation": "c1-access-only"},
    {"usage_rules": False, "c1_rules": "partial", "revocation": None},
    {"usage_rules": False, "c1_rules": None, "revocation": "c1-access-only"},
    # provider-wide rules whose authorization_code rule lacks refresh_token (the OIDC token helper wants to add it) and max_usage
    {"usage_rules": "norefresh", "c1_rules": None, "revocation": None},
    {"usage_rules": "norefresh", "c1_rules": "partial", "revocation": None},
    # resource indicators: a policy with empty kwargs on the authorization endpoint, a per-client entry without policy
    {"usage_rules": True, "c1_rules": None, "revocation": None, "ri": True},
    # token exchange (access tokens may be exchanged); one client with a token-exchange configuration of its own
    {"usage_rules": True, "c1_rules": None, "revocation": None, "xchg": True},
]
STATS = {"requests": 0, "static_roots": 0, "aliases": {}}


def make_runner(v, oidc=True, jwt=False):
    cfg = CFGV[v]
    R = prov.Runner(oidc, jwt if not cfg.get("xchg") else False, usage="exchange" if cfg.get("xchg") else None)
    ctx = R.s.context
    if cfg.get("xchg"):
        from idpyoidc.server.oauth2.token_helper import validate_token_exchange_policy
        U = "urn:ietf:params:oauth:token-type:%s_token"
        ctx.cdb["client_2"]["token_exchange"] = {"subject_token_types_supported": [U % "access", U % "refresh"], "requested_token_types_supported": [U % "access"],
                                                 "default_requested_token_type": U % "access", "policy": {"": {"function": validate_token_exchange_policy, "kwargs": {"scope": ["openid", "email"]}}}}
    # the introspection endpoint enforces the audience restriction; one client (a resource server) has it switched off for itself
    R.s.get_endpoint("introspection").enforce_aud_restriction = True
    ctx.cdb["client_2"]["enforce_audience_restriction"] = False
    if not cfg["usage_rules"]:
        ctx.authz.grant_config.pop("usage_rules", None)
    elif cfg["usage_rules"] == "norefresh":
        ctx.authz.grant_config["usage_rules"] = {"authorization_code": {"supports_minting": ["access_token", "id_token"], "expires_in": 300},
                                                 "access_token": {"expires_in": 3600}, "refresh_token": {"supports_minting": ["access_token"], "expires_in": 86400}}
    if cfg["c1_rules"] == "full":
        ctx.cdb["client_1"]["token_usage_rules"] = {
            "authorization_code": {"supports_minting": ["access_token", "refresh_token", "id_token"], "max_usage": 1, "expires_in": 300},
            "access_token": {"expires_in": 600}, "refresh_token": {"supports_minting": ["access_token", "refresh_token"], "expires_in": 7200}}
    elif cfg["c1_rules"] == "partial":
        # no refresh_token in supports_minting, no max_usage: the helpers and set_defaults want to add them
        ctx.cdb["client_1"]["token_usage_rules"] = {"authorization_code": {"supports_minting": ["access_token", "id_token"], "expires_in": 300},
                                                    "access_token": {"expires_in": 600}, "refresh_token": {"supports_minting": ["access_token"]}}
    if cfg["revocation"] == "c1-access-only":
        ctx.cdb["client_1"]["token_revocation"] = {"token_types_supported": ["access_token"]}
    if cfg.get("ri"):
        from idpyoidc.server.oauth2.authorization import validate_resource_indicators_policy
        R.s.get_endpoint("authorization").resource_indicators_config = {"policy": {"function": validate_resource_indicators_policy, "kwargs": {}}}
        ctx.cdb["client_3"]["resource_indicators"] = {"authorization_code": {}}
    ctx.cdb["client_2"]["add_claims"] = {"always": {"userinfo": ["nickname"]}, "by_scope": {"id_token": True}}
    # what the library's default configuration gives the ID-token handler: claim specifications that are dictionaries themselves
    R.sm.token_handler["id_token"].kwargs["base_claims"] = {"email": {"essential": True}, "email_verified": {"essential": True}}
    R.s.get_endpoint("userinfo").kwargs["base_claims"] = {"email": {"essential": True}, "nickname": None}
    ctx.cdb["client_3"]["userinfo"] = {"policy": {"function": "idpyoidc.server.oidc.userinfo.validate_userinfo_policy", "kwargs": {}}}
    return R


def static_roots(R):
    s, ctx = R.s, R.s.context
    roots = heapsnap.message_tables() + heapsnap.module_constants()
    for name, ep in s.endpoint.items():
        for k, v in vars(ep).items():
            if k != "upstream_get":
                roots.append((f"endpoint.{name}.{k}", v))
        # the token endpoint's helpers (one object per grant type) hold configuration of their own
        for gt, h in (getattr(ep, "grant_type_helper", None) or {}).items():
            for a, v in vars(h).items():
                if a not in ("endpoint", "upstream_get"):
                    roots.append((f"endpoint.{name}.helper[{gt}].{a}", v))
    for k, h in ctx.session_manager.token_handler.handler.items():
        for a, v in vars(h).items():
            if a not in ("upstream_get", "crypt", "cdb"):
                roots.append((f"handler.{k}.{a}", v))
    for a, v in vars(ctx.authz).items():
        if a != "upstream_get":
            roots.append((f"authz.{a}", v))
    for a, v in vars(ctx.claims_interface).items():
        if a != "upstream_get":
            roots.append((f"claims_interface.{a}", v))
    for c, rec in ctx.cdb.items():
        for k, v in rec.items():
            if k != "auth_method":
                roots.append((f"cdb.{c}.{k}", v))
    roots.append(("provider_info", ctx.provider_info))
    roots.append(("scope2claims", ctx.scope2claims))
    return roots


def snap(R):
    return {p: heapsnap.canon(v) for p, v in static_roots(R)}


def _follow(o):
    m = type(o).__module__
    return m.startswith("idpyoidc.server.session") or m.startswith("idpyoidc.server.authn_event")


def aliases(R):
    ctx = R.s.context
    st = heapsnap.reachable_containers(static_roots(R))
    dy = heapsnap.reachable_containers([("session_db", ctx.session_manager.db.db), ("jti_db", ctx.jti_db), ("par_db", ctx.par_db)], follow=_follow)
    out = set()
    for k in set(st) & set(dy):
        root = st[k][0].split("[")[0]
        out.add(root)
    return sorted(out)


def cases(rng, tier):
    n = {"quick": 10, "thorough": 160, "search": 80}[tier]
    out = []
    for i in range(n):
        v = i % len(CFGV)
        oidc, jwt = rng.random() < 0.8, rng.random() < 0.3
        # the history is generated against a provider of the same shape so that handles are real
        out.append({"t": "batch", "v": v, "oidc": oidc, "jwt": jwt, "seed": rng.getrandbits(40), "n": rng.randint(15, 40)})
    for _ in range(max(2, n // 4)):
        out.append({"t": "client", "seed": rng.getrandbits(40), "n": rng.randint(10, 30)})
    out.append({"t": "rph", "seed": rng.getrandbits(40), "n": rng.randint(2, 5)})
    for _ in range({"quick": 2, "thorough": 20, "search": 10}[tier]):
        out.append({"t": "regreq", "seed": rng.getrandbits(40), "n": rng.randint(6, 12)})
    # one long-lived relying party against one long-lived provider: whole flows (all response types / modes / request transports, PKCE)
    for _ in range(max(2, n // 4)):
        out.append({"t": "tandem", "seed": rng.getrandbits(40), "n": rng.randint(6, 14), "am": rng.choice(["client_secret_basic", "private_key_jwt", "client_secret_jwt"])})
    return out


def _probe_outcomes(R):
    """what a fixed set of probe requests answers — for the history-freedom comparison (run on a deep COPY of nothing: probes that do not
    change state; they are evaluated on the aged and on a fresh instance)"""
    out = []
    ctx = R.s.context
    for cid in prov.CLIENTS:
        out.append(["usage_rules", cid, heapsnap.canon(ctx.authz.usage_rules(cid))])
    return out


class _S:
    def __init__(self, s):
        self.s = s


def impl_tandem(c):
    import c12
    import tandem
    rng = random.Random(c["seed"])
    cell = {"rt": "code", "rm": None, "am": c["am"], "atf": "jwt", "rtf": "opaque", "ialg": "RS256", "ienc": None, "ui": "json", "req": "par", "pkce": True}
    c12._pairs.clear()
    orig_make = tandem.make_pair

    def make_all_types(op_kwargs=None, rp_conf=None, op_post=None):
        rp_conf = dict(rp_conf or {}, response_types_supported=["code id_token", "id_token", "code"])
        return orig_make(op_kwargs=op_kwargs, rp_conf=rp_conf, op_post=op_post)
    tandem.make_pair = make_all_types
    try:
        pair = c12.pair_for(dict(cell, rt="code id_token"))
    finally:
        tandem.make_pair = orig_make
    if pair[0] == "setup-failed":
        return {"nops": 0, "changes": [], "aliases": [], "probe_equal": True, "probe_diff": [], "hist": [], "setup": pair[1]}
    server, rp, log, files = pair
    R = _S(server)
    # what the library's default configuration gives the ID-token handler: claim specifications that are dictionaries themselves
    server.context.session_manager.token_handler["id_token"].kwargs["base_claims"] = {"email": {"essential": True}, "email_verified": {"essential": True}}
    server.get_endpoint("userinfo").kwargs["base_claims"] = {"email": {"essential": True}, "nickname": None}

    def both():
        d = {"op:" + p: heapsnap.canon(v) for p, v in static_roots(R)}
        d.update({"rp:" + p: heapsnap.canon(v) for p, v in client_static_roots(rp) if not p.startswith("idpyoidc.")})
        return d
    base = both()
    changes, seen = [], set()
    done = 0
    for i in range(c["n"]):
        STATS["requests"] += 1
        args = {"response_type": rng.choice(["code id_token", "code id_token", "id_token", "code"])}
        if rng.random() < 0.5:           # otherwise the relying party uses its configured scope
            args["scope"] = ["openid"] + rng.sample(["profile", "email", "offline_access"], rng.randint(0, 3))
        rm = rng.choice([None, None, "form_post", "fragment"])
        if rm:
            args["response_mode"] = rm
        if rng.random() < 0.6:
            # the claims parameter in its shapes: null specs, and dict specs (essential / value / values) for claims the provider's
            # configuration may itself describe with a dict (the ID-token handler's default base_claims do)
            spec = lambda: rng.choice([None, None, {"essential": True}, {"essential": False}, {"value": "diana@example.org"}, {"values": ["a@example.org", "b@example.org"]}])
            args["claims"] = rng.choice([
                {"userinfo": {"nickname": None}},
                {"id_token": {"email": spec(), "email_verified": spec()}},
                {"id_token": {"email": spec()}, "userinfo": {"email": spec(), "nickname": spec()}},
                {"userinfo": {"email_verified": spec(), "name": spec()}, "id_token": {"name": spec()}}])
        try:
            url = rp.init_authorization(req_args=args)
            params, how = tandem.browser(server, url, log)
            if "__error__" not in params and "error" not in params:
                if rng.random() < 0.15:
                    params["state"] = "unknown-state"          # error path on the RP side
                rp.finalize(params)
                done += 1
        except Exception:
            pass
        now = both()
        for p in now:
            if now[p] != base.get(p) and p not in seen:
                seen.add(p)
                changes.append({"step": i, "op": "flow", "root": p, "before": json.dumps(base.get(p))[:300], "after": json.dumps(now[p])[:300]})
    return {"nops": c["n"], "changes": changes, "aliases": [], "probe_equal": True, "probe_diff": [], "hist": [], "completed": done}


def impl_rph(c):
    """RPHandler: clients for issuers without a configuration of their own are made from the template"""
    from idpyoidc.client.rp_handler import RPHandler
    rng = random.Random(c["seed"])
    base = {p: heapsnap.canon(v) for p, v in heapsnap.module_constants()}
    rph = RPHandler(base_url="https://rp.example.org")
    tmpl = heapsnap.canon(rph.client_configs)
    changes = []
    firsts = []
    for i in range(c["n"]):
        STATS["requests"] += 1
        iss = f"https://op-{rng.randrange(1000)}.example.com"
        cl = rph.init_client(iss)
        firsts.append((cl, iss))
        now = {p: heapsnap.canon(v) for p, v in heapsnap.module_constants()}
        for p in now:
            if now[p] != base.get(p) and not any(ch["root"] == p for ch in changes):
                changes.append({"step": i, "op": "init_client", "root": p, "before": json.dumps(base.get(p))[:300], "after": json.dumps(now[p])[:300]})
        if heapsnap.canon(rph.client_configs) != tmpl and not any(ch["root"] == "rph.client_configs" for ch in changes):
            changes.append({"step": i, "op": "init_client", "root": "rph.client_configs", "before": json.dumps(tmpl)[:300], "after": json.dumps(heapsnap.canon(rph.client_configs))[:300]})
    ok = all(cl.get_context().issuer == iss for cl, iss in firsts)
    return {"nops": max(8, c["n"]), "changes": changes, "aliases": [], "probe_equal": ok, "probe_diff": [] if ok else ["an earlier client's issuer changed"], "hist": []}


_REG_KJ = None


def impl_regreq(c):
    """relying parties with different response types in one process build their dynamic-registration requests: no module-level table
    moves, and what an RP asks for does not depend on who asked before"""
    global _REG_KJ
    from cryptojwt.key_jar import init_key_jar
    from idpyoidc.client.entity import Entity
    from idpyoidc.client.defaults import DEFAULT_OIDC_SERVICES
    from idpyoidc.message.oidc import RegistrationRequest
    rng = random.Random(c["seed"])
    if _REG_KJ is None:
        _REG_KJ = init_key_jar(key_defs=[{"type": "EC", "crv": "P-256", "use": ["sig"]}], issuer_id="")
    ISSUER = "https://op.example.org"

    def request(name, rts):
        conf = {"issuer": ISSUER, "base_url": f"https://{name}.example.com/rp", "redirect_uris": [f"https://{name}.example.com/rp/authz_cb"],
                "preference": {"response_types_supported": list(rts)}}
        rp = Entity(keyjar=_REG_KJ.copy(), config=conf, services=DEFAULT_OIDC_SERVICES, client_type="oidc")
        ctx = rp.get_context()
        ctx.issuer = ISSUER
        ctx.map_supported_to_preferred()
        ctx.provider_info = {"issuer": ISSUER, "registration_endpoint": f"{ISSUER}/registration"}
        info = rp.get_service("registration").get_request_parameters()
        req = RegistrationRequest().from_json(info["body"]).to_dict()
        return {k: (sorted(v) if k == "grant_types" else v) for k, v in req.items() if k in ("response_types", "grant_types")}
    base = {p: heapsnap.canon(v) for p, v in heapsnap.module_constants()}
    changes, firsts, diff = [], {}, []
    RTS = [["code"], ["id_token"], ["code", "id_token"], ["code", "code id_token"], ["id_token", "code"], ["code id_token", "code"], ["code", "id_token", "code id_token"]]
    for i in range(c["n"]):
        STATS["requests"] += 1
        rts = RTS[0] if i == 0 else rng.choice(RTS)
        got = request(f"rp{i}", rts)
        key = json.dumps(rts)
        if key in firsts and firsts[key] != got:
            diff.append(f"registration request for response types {rts}: {firsts[key]} the first time, {got} later")
        firsts.setdefault(key, got)
        now = {p: heapsnap.canon(v) for p, v in heapsnap.module_constants()}
        for p in now:
            if now[p] != base.get(p) and not any(ch["root"] == p for ch in changes):
                changes.append({"step": i, "op": "registration_request", "root": p, "before": json.dumps(base.get(p))[:300], "after": json.dumps(now[p])[:300]})
    # the same question to a FRESH process-like reference is not available in-process; the first answer per configuration is the reference
    return {"nops": max(8, c["n"]), "changes": changes, "aliases": [], "probe_equal": not diff, "probe_diff": diff, "hist": []}


def impl(c):
    if c["t"] == "regreq":
        return impl_regreq(c)
    if c["t"] == "rph":
        return impl_rph(c)
    if c["t"] == "client":
        return impl_client(c)
    if c["t"] == "tandem":
        return impl_tandem(c)
    rng = random.Random(c["seed"])
    R = make_runner(c["v"], c["oidc"], c["jwt"])
    base = snap(R)
    STATS["static_roots"] = len(base)
    fresh_probe = _probe_outcomes(make_runner(c["v"], c["oidc"], c["jwt"]))
    changes, seen = [], set()
    al = set()

    def after(i, o, r, R):
        STATS["requests"] += 1
        now = snap(R)
        for p in now:
            if now[p] != base.get(p) and p not in seen:
                seen.add(p)
                changes.append({"step": i, "op": o[0], "root": p, "before": json.dumps(base.get(p))[:300], "after": json.dumps(now[p])[:300]})
        for p in base:
            if p not in now and p not in seen:
                seen.add(p)
                changes.append({"step": i, "op": o[0], "root": p, "before": json.dumps(base.get(p))[:300], "after": "<gone>"})
        al.update(aliases(R))

    # the history is generated against the live provider (handles are real), snapshots are taken after every request
    ops, _ = prov.gen_adaptive(rng, c["n"], c["oidc"], c["jwt"], weights={"revokeEp": 12, "userinfo": 12}, runner=R, on_step=after)
    if CFGV[c["v"]].get("xchg"):
        # token exchange by the client with a configuration of its own, then by the others (whatever tokens there are)
        # (fresh logins first, so that there are live access tokens whatever the generated history left behind)
        live = []
        for cl in ("client_2", "client_1"):
            red = f"https://{cl}.example.com/cb"
            r = R.op(["authorize", "diana", cl, ["openid", "email"], red])
            if r[0] == "code" and R.op(["tokenParse", cl, r[1], red])[0] == "parsed":
                t = R.op(["tokenProcess", len(R.pending) - 1])
                if t[0] == "tokens" and t[1] >= 0:
                    live.append(t[1])
        acc = [R.h[t.value] for hg, (g, path) in R.gobj.items() for t in g.issued_token if prov.CLS.get(type(t)) == "access"]
        for i, cl in enumerate(["client_2", "client_1", "client_3", "client_2", "client_1"]):
            if acc:
                o = ["exchange", cl, live[i % len(live)] if live and i < 3 else rng.choice(acc), "access", rng.choice([None, "access", "refresh"]), None]
                after(len(ops) + i, o, R.op(o), R)
    if CFGV[c["v"]].get("ri"):
        # authorization requests with a resource parameter, by each client in turn
        for i, cl in enumerate(["client_1", "client_2", "client_3", "client_2"]):
            r = _resource_request(R, cl)
            after(len(ops) + i, ["authorize+resource", cl], r, R)
    for a in al:
        STATS["aliases"][a] = STATS["aliases"].get(a, 0) + 1
    aged_probe = _probe_outcomes(R)
    # history freedom at the endpoint level: the same revocation request by client_2 for a refresh token on the aged vs a fresh provider
    return {"nops": len(ops), "changes": changes, "aliases": sorted(al), "probe_equal": aged_probe == fresh_probe,
            "probe_diff": [a for a, b in zip(aged_probe, fresh_probe) if a != b][:2], "hist": _revocation_history_probe(c), "hist_ri": _resource_history_probe(c)}


def _resource_request(R, cl):
    from idpyoidc.message.oidc import AuthorizationRequest
    ep = R.s.get_endpoint("authorization")
    req = AuthorizationRequest(client_id=cl, redirect_uri=f"https://{cl}.example.com/cb", scope=["openid"], state="st", response_type="code", nonce="n",
                               resource=[cl])
    try:
        pr = ep.parse_request(req.to_dict())
        return ["err", pr["error"], pr.get("error_description")] if "error" in pr else ["ok"]
    except Exception as e:
        return ["exc", type(e).__name__]


def _resource_history_probe(c):
    """client_2 asks for a resource: on a fresh provider, and on one where client_1 asked just before"""
    if not CFGV[c["v"]].get("ri"):
        return []
    res = []
    for aged in (False, True):
        R = make_runner(c["v"], True, False)
        if aged:
            _resource_request(R, "client_1")
        res.append(_resource_request(R, "client_2"))
    return res


def _revocation_history_probe(c):
    """client_2 revokes its refresh token: on a fresh provider, and on one where client_1 revoked an access token just before"""
    res = []
    red = lambda cl: f"https://{cl}.example.com/cb"
    for aged in (False, True):
        R = make_runner(c["v"], True, False)
        toks = {}
        for cl in ("client_1", "client_2"):
            r = R.op(["authorize", "diana", cl, ["openid", "offline_access"], red(cl)])
            R.op(["tokenParse", cl, r[1], red(cl)])
            t = R.op(["tokenProcess", 0])
            toks[cl] = t
        if aged:
            R.op(["revokeEp", "client_1", toks["client_1"][1]])
        if toks["client_2"][0] != "tokens" or toks["client_2"][2] < 0:
            res.append(["no-refresh-token"])
            continue
        R.op(["revokeEp", "client_2", toks["client_2"][2]])
        res.append(R.op(["introspect", "client_2", toks["client_2"][2]]))
    return res


# ------------------------------------------------------------------ client side

def client_static_roots(rp):
    roots = heapsnap.message_tables() + heapsnap.module_constants()
    ctx = rp.get_context()
    for name, svc in rp.get_services().items():
        for k, v in vars(svc).items():
            if k != "upstream_get":
                roots.append((f"service.{name}.{k}", v))
    for k in ("provider_info", "config"):
        roots.append((f"context.{k}", getattr(ctx, k, None)))
    roots.append(("context.claims.use", ctx.claims.use))
    roots.append(("context.claims.prefer", ctx.claims.prefer))
    return roots


def impl_client(c):
    import rpbase
    from idpyoidc.message.oidc import OpenIDSchema
    rng = random.Random(c["seed"])
    rp = rpbase.make_rp()
    base = {p: heapsnap.canon(v) for p, v in client_static_roots(rp)}
    changes, seen = [], set()
    methods = ["client_secret_basic", "client_secret_post", "client_secret_jwt", "private_key_jwt", "bearer_header", "bearer_body"]
    for i in range(c["n"]):
        STATS["requests"] += 1
        k = rng.choice(["authz", "token", "userinfo", "userinfo", "refresh"])
        try:
            if k == "authz":
                rp.init_authorization(req_args={"response_type": rng.choice(["code", "code id_token", "id_token token"]), "scope": ["openid"]})
            else:
                state = rng.choice(list(rp.get_context().cstate._db) or [None])
                if state is None:
                    continue
                rp.get_context().cstate.update(state, {"code": "C", "access_token": "AT", "refresh_token": "RT", "redirect_uri": "https://rp.example.com/cb"})
                svc = rp.get_service({"token": "accesstoken", "userinfo": "userinfo", "refresh": "refresh_token"}[k])
                if svc is None:
                    continue
                am = rng.choice(methods)
                svc.get_request_parameters(request_args={}, authn_method=am, state=state)
        except Exception as e:
            pass
        now = {p: heapsnap.canon(v) for p, v in client_static_roots(rp)}
        for p in now:
            if now[p] != base.get(p) and p not in seen:
                seen.add(p)
                changes.append({"step": i, "op": k, "root": p, "before": json.dumps(base.get(p))[:300], "after": json.dumps(now[p])[:300]})
    return {"nops": c["n"], "changes": changes, "aliases": [], "probe_equal": True, "probe_diff": [], "hist": []}


def model_lines(c, obs):
    if c["t"] in ("client", "tandem", "rph", "regreq"):
        return ["heap\tsettings"]
    cfg = CFGV[c["v"]]
    return ["\t".join(["heap", "usage", "1" if cfg["c1_rules"] else "0", "1" if cfg["c1_rules"] else "0"]), "heap\tsettings"]


def compare(c, obs, outs):
    """the model (instantiated with the flow flags read off the source) predicts whether the client record / the endpoint and schema
    tables stay as they were; the snapshots say what happened"""
    d = []
    roots = [ch["root"] for ch in obs["changes"]]
    if c["t"] == "batch":
        got = "changed" if any((r.startswith("cdb.") and r.endswith("token_usage_rules")) or r == "authz.grant_config" for r in roots) else "unchanged"
        if outs[0] != got:
            d.append(f"client record token_usage_rules / authz.grant_config: model={outs[0]} implementation={got}")
        settings = [r for r in roots if r.startswith("endpoint.token_revocation.") or r.startswith("endpoint.userinfo.config")]
    elif c["t"] == "tandem":
        settings = [r for r in roots if ".c_param" in r or r.startswith("op:endpoint.token_revocation.") or r.startswith("op:endpoint.userinfo.config")]
    else:
        settings = [r for r in roots if ".c_param" in r]
    got = "changed" if settings else "unchanged"
    if outs[-1] != got:
        d.append(f"endpoint / schema settings: model={outs[-1]} implementation={got} {settings[:2]}")
    return d


def oracle(c, obs):
    v = []
    for ch in obs["changes"]:
        root = ch["root"]
        kind = "schema" if (".c_param" in root or ".c_default" in root or ".c_allowed_values" in root) else ("module-constant" if root.startswith("idpyoidc.") else root.split(".")[0])
        v.append({"cls": "static-state-changed", "kind": kind, "root": root if kind != "cdb" else ".".join(root.split(".")[:1] + root.split(".")[2:]), "op": ch["op"],
                  "before": ch["before"], "after": ch["after"]})
    if not obs["probe_equal"]:
        v.append({"cls": "configuration-answer-depends-on-history", "diff": obs["probe_diff"]})
    if len(obs.get("hist_ri", [])) == 2 and obs["hist_ri"][0] != obs["hist_ri"][1]:
        v.append({"cls": "resource-request-outcome-depends-on-earlier-request", "fresh": obs["hist_ri"][0], "aged": obs["hist_ri"][1]})
    if len(obs["hist"]) == 2 and obs["hist"][0] != obs["hist"][1]:
        v.append({"cls": "revocation-outcome-depends-on-earlier-request", "fresh": obs["hist"][0], "aged": obs["hist"][1]})
    return v[:3]


def known_key(c, v, known):
    return common.known_key(c, v, known)


def classify(c, obs):
    return f"{c['t']}:{c.get('v', '-')}:{'changed' if obs['changes'] else 'unchanged'}"


def nontrivial(c, obs):
    return obs["nops"] >= 8


def evidence_extra():
    return {"requests": STATS["requests"], "static_roots": STATS["static_roots"], "shared_references_static_dynamic": STATS["aliases"]}
