"""Provider core histories: runs op sequences on a real in-process provider and renders them for the Lean model.

Shared by C02 (code redemption, interleavings), C03 (liveness/cascade), C05 (scope)."""
import copy
import common
import clock
from common import enc_str, enc_list, dec_list, dec_str
import opbase
from idpyoidc.message.oidc import AuthorizationRequest
from idpyoidc.server.session.grant import Grant
from idpyoidc.server.session.token import AuthorizationCode, AccessToken, RefreshToken, IDToken

clock.install()
T0 = 1_800_000_000

USAGE_A = {  # explicit lifetimes on every class
    "authorization_code": {"supports_minting": ["access_token", "refresh_token", "id_token"], "max_usage": 1, "expires_in": 300},
    "access_token": {"expires_in": 3600},
    "refresh_token": {"supports_minting": ["access_token", "refresh_token", "id_token"], "expires_in": 86400},
}
CLIENTS = ["client_1", "client_2", "client_3", "client_4"]
USERS = ["diana", "bob"]
ALLOWED = {
    "client_1": ["openid", "profile", "email", "address", "phone", "offline_access"],
    "client_2": ["openid", "email", "offline_access"],
    "client_3": None,     # no per-client list: the provider's default applies
    "client_4": [],       # an explicitly empty list: nothing is allowed
}
LOGOUT = {"client_1": "backchannel_logout_uri", "client_2": "frontchannel_logout_uri", "client_3": None, "client_4": None}
DEFAULT_ALLOWED = ["openid", "profile", "email", "address", "phone", "offline_access"]
SCOPES = ["openid", "profile", "email", "address", "phone", "offline_access", "foo", "openid"]


def make_server(oidc=True, jwt=False, user="diana", usage=None, keys=None, more_endpoints=None, pkce=False):
    from idpyoidc.server.authz import AuthzHandling
    rules = copy.deepcopy(USAGE_A)
    if usage == "no_code_expiry":
        del rules["authorization_code"]["expires_in"]
    if usage == "exchange":
        rules["access_token"]["supports_minting"] = ["access_token", "refresh_token"]
    gc = {"usage_rules": rules, "expires_in": 43200}
    if usage == "norefrule":
        # no rule for refresh tokens (the library's default layout): their lifetime is the token handler's, their minting rights the class defaults
        del rules["refresh_token"]
    if usage in ("nogrant", "norefrule"):
        del gc["expires_in"]          # grants without a lifetime of their own (expires_at 0 = never)
    extra = {"authz": {"class": AuthzHandling, "kwargs": {"grant_config": gc}}}
    if usage == "rmit":
        # the documented housekeeping option: revoked tokens are dropped from their grant
        extra["session_params"] = {"encrypter": {"kwargs": {"password": "3987654321abcdefghijklmnop...---", "salt": "abcdefghijklmnop", "iterations": 1}},
                                   "remove_inactive_token": True}
    if pkce:
        extra["add_on"] = {"pkce": {"function": "idpyoidc.server.oauth2.add_on.pkce.add_support", "kwargs": {"essential": False}}}
    s = opbase.make_op(jwt_tokens=jwt, extra=extra, user=user, keys=keys, more_endpoints=more_endpoints)
    if not oidc:
        from idpyoidc.server.oauth2.token import Token as OToken
        # swap the token endpoint for the OAuth2 flavour
        ep = OToken(upstream_get=s.unit_get, client_authn_method=opbase.CLIAUTH)
        old = s.endpoint["token"]
        ep.endpoint_path, ep.full_path = old.endpoint_path, old.full_path
        s.endpoint["token"] = ep
    ctx = s.context
    C1RULES = {"refresh_token": {"supports_minting": ["access_token"]}, "access_token": {"expires_in": 600}}
    for cid in CLIENTS:
        ctx.cdb[cid] = {
            "client_id": cid, "client_secret": "secret_of_" + cid + "_0123456789abcdef",
            "redirect_uris": [(f"https://{cid}.example.com/cb", None), (f"https://{cid}.example.com/cb2", None)],
            "client_salt": "salted",
            "token_endpoint_auth_method": "client_secret_post",
            "response_types_supported": ["code", "code id_token", "id_token", "token", "code token", "id_token token", "code id_token token"],
        }
        if ALLOWED[cid] is not None:
            ctx.cdb[cid]["allowed_scopes"] = list(ALLOWED[cid])
        if usage == "c1rules" and cid == "client_1":
            # rules of its own for two token classes, saying only part of what a rule can say
            ctx.cdb[cid]["token_usage_rules"] = copy.deepcopy(C1RULES)
        if LOGOUT[cid]:
            ctx.cdb[cid][LOGOUT[cid]] = f"https://{cid}.example.com/logout"
        ctx.keyjar.add_symmetric(cid, ctx.cdb[cid]["client_secret"])
    return s


CLS = {AuthorizationCode: "code", AccessToken: "access", RefreshToken: "refresh", IDToken: "idtoken"}


class Runner:
    """one long-lived provider; handles (ints) for grants and tokens in creation order, mirroring the model's counter"""

    def __init__(self, oidc=True, jwt=False, usage=None, keys=None, more_endpoints=None, pkce=False, deny=None):
        self.oidc, self.jwt, self.usage, self.keys, self.more_endpoints = oidc, jwt, usage, keys, more_endpoints
        self.s = make_server(oidc, jwt, usage=usage, keys=keys, more_endpoints=more_endpoints, pkce=pkce)
        # deny_unknown_scopes: "all" = the provider's preference, a client id = that client's own setting
        self.deny = deny
        if deny == "all":
            self.s.context.set_preference("deny_unknown_scopes", True)
        elif deny:
            self.s.context.cdb[deny]["deny_unknown_scopes"] = True
        self.auth_extra, self.token_extra = {}, {}     # further request parameters (PKCE) for the next authorize / tokenParse
        self.sm = self.s.context.session_manager
        self.h = {}          # real value / grant id -> handle
        self.val = {}        # handle -> token value
        self.gobj = {}       # handle -> (grant object, path)
        self.next = 0
        self.pending = []    # parsed token requests
        clock.CLOCK.t = T0

    def restored(self, mode="ctx"):
        """C13: export the state, discard this instance, build a fresh one from the same configuration, import.
        mode: "sm" = session manager only, "ctx" = the whole endpoint context, "ctx-json" = same through a JSON text."""
        import json
        t = clock.CLOCK.t
        store = self.sm.dump() if mode == "sm" else self.s.context.dump()
        if mode == "ctx-json":
            store = json.loads(json.dumps(store))
        B = Runner(self.oidc, self.jwt, usage=self.usage, keys=self.keys, more_endpoints=self.more_endpoints)
        clock.CLOCK.t = t
        if mode == "sm":
            # what lives outside the session manager is carried over by hand (it is not part of this export)
            B.sm.load(store, init_args={"upstream_get": B.s.context.unit_get})
        else:
            B.s.context.load(store, init_args={"upstream_get": B.s.unit_get, "handler": B.s.context.session_manager.token_handler})
            B.sm = B.s.context.session_manager
        B.h, B.val, B.next, B.pending = dict(self.h), dict(self.val), self.next, list(self.pending)
        gone = type("Gone", (), {"issued_token": [], "revoked": True, "scope": []})()
        for hnd, (g, path) in self.gobj.items():
            B.gobj[hnd] = (B.sm.db.db.get(";;".join(path), gone) if self.sm.db.db.get(";;".join(path)) is g else gone, path)
        return B

    # -- bookkeeping
    def _scan(self):
        for key, node in list(self.sm.db.db.items()):
            if isinstance(node, Grant):
                if node.id not in self.h:
                    self.h[node.id] = self.next
                    self.gobj[self.next] = (node, key.split(";;"))
                    self.next += 1
        for hg in sorted(self.gobj):
            g, _ = self.gobj[hg]
            for t in g.issued_token:
                if t.value not in self.h:
                    self.h[t.value] = self.next
                    self.val[self.next] = t.value
                    self.next += 1

    def set_user(self, user):
        self.s.context.authn_broker.db["anon"]["method"].user = user

    def projection(self):
        self._scan()
        toks, grants = [], []
        for hg in sorted(self.gobj):
            g, path = self.gobj[hg]
            if self.sm.db.db.get(";;".join(path)) is not g:
                continue
            grants.append([hg, 1 if g.revoked else 0, sorted(g.scope)])
            for t in g.issued_token:
                toks.append([self.h[t.value], CLS.get(type(t), "?"), hg, self.h.get(t.based_on, -1) if t.based_on else -1,
                             t.used, 1 if t.revoked else 0, (t.expires_at - T0) if t.expires_at else 0, sorted(t.scope)])
        return {"toks": sorted(toks), "grants": sorted(grants)}

    def tv(self, hnd):
        return self.val.get(hnd, "unknown-token-%d" % hnd)

    def secret(self, cid):
        return self.s.context.cdb[cid]["client_secret"]

    # -- ops; each returns a canonical outcome
    def op(self, o):
        k = o[0]
        try:
            r = getattr(self, "op_" + k)(*o[1:])
        except Exception as e:
            r = ["err", "exc:" + type(e).__name__]
        self._scan()
        return r

    def op_safe(self, o):
        """probe: like op() but never registers new objects (used for non-mutating endpoints)"""
        try:
            return getattr(self, "op_" + o[0])(*o[1:])
        except Exception as e:
            return ["err", "exc:" + type(e).__name__]

    def op_safe_raw(self, slot, s):
        """offer the raw string `s` in a slot; True = honoured"""
        cid = "client_1"
        try:
            if slot == "userinfo":
                ep = self.s.get_endpoint("userinfo")
                pr = ep.parse_request({}, http_info={"headers": {"authorization": "Bearer " + s}})
                if "error" in pr:
                    return False
                out = ep.process_request(pr)
                return "response_args" in out and "error" not in out
            if slot == "introspect":
                ep = self.s.get_endpoint("introspection")
                for cid in CLIENTS:
                    pr = ep.parse_request({"token": s, "client_id": cid, "client_secret": self.secret(cid)})
                    out = ep.process_request(pr)
                    if out["response_args"].get("active"):
                        return True
                return False
            if slot == "tokenCode":
                ep = self.s.get_endpoint("token")
                for cid in CLIENTS:
                    pr = ep.parse_request(dict(client_id=cid, client_secret=self.secret(cid), grant_type="authorization_code", code=s,
                                               redirect_uri=f"https://{cid}.example.com/cb"))
                    if "error" not in pr:
                        out = ep.process_request(pr)
                        if "response_args" in out:
                            return True
                return False
            if slot == "refreshGrant":
                ep = self.s.get_endpoint("token")
                for cid in CLIENTS:
                    pr = ep.parse_request(dict(client_id=cid, client_secret=self.secret(cid), grant_type="refresh_token", refresh_token=s))
                    if "error" not in pr:
                        out = ep.process_request(pr)
                        if "response_args" in out:
                            return True
                return False
            if slot == "bearerAuth":
                # the offered string as the CLIENT's credential (Authorization: Bearer) at the revocation endpoint; the token to revoke is unknown
                ep = self.s.get_endpoint("token_revocation")
                for body in ({"token": "no-such-token"}, {"token": "no-such-token", "client_id": "client_1"}, {"token": "no-such-token", "client_id": "client_2"}):
                    try:
                        pr = ep.parse_request(dict(body), http_info={"headers": {"authorization": "Bearer " + s}})
                    except Exception:
                        continue
                    # honoured: the request goes on in some client's name (authenticated, or simply under the client_id the body claims)
                    if "error" not in pr and bool(pr.get("client_id")):
                        return True
                return False
            if slot == "revoke":
                ep = self.s.get_endpoint("token_revocation")
                before = self.projection()
                for cid in CLIENTS:
                    try:
                        pr = ep.parse_request({"token": s, "client_id": cid, "client_secret": self.secret(cid)})
                        if "error" not in pr:
                            ep.process_request(pr)
                    except Exception:
                        pass
                return self.projection() != before
        except Exception:
            return False
        return False

    def resolve_raw(self, slot, s, caller="client_1"):
        """C04 binding: what the endpoint says the presented string belongs to: [sub, client_id] or None when refused"""
        try:
            if slot == "userinfo":
                ep = self.s.get_endpoint("userinfo")
                pr = ep.parse_request({}, http_info={"headers": {"authorization": "Bearer " + s}})
                if "error" in pr:
                    return None
                out = ep.process_request(pr)
                if "response_args" not in out or "error" in out:
                    return None
                return [out["response_args"].get("sub"), pr.get("client_id")]
            ep = self.s.get_endpoint("introspection")
            pr = ep.parse_request({"token": s, "client_id": caller, "client_secret": self.secret(caller)})
            out = ep.process_request(pr)
            ra = out["response_args"]
            if not ra.get("active"):
                return None
            return [ra.get("sub"), ra.get("client_id")]
        except Exception:
            return None

    def op_tick(self, n):
        clock.CLOCK.t += n
        return ["ok"]

    def op_authorize(self, user, client, scope, redirect, sso=None):
        """sso: the user agent presents the session cookie of the user's previous authorization at this client (single sign-on); every
        request has a state of its own, so no two requests are the same request"""
        self.set_user(user)
        ep = self.s.get_endpoint("authorization")
        self.nauth = getattr(self, "nauth", 0) + 1
        args = dict(client_id=client, scope=list(scope), state="st%d" % self.nauth, response_type="code", nonce="n0nce")
        if redirect is not None:
            args["redirect_uri"] = redirect
        if "offline_access" in scope:
            args["prompt"] = "consent"
        args.update(self.auth_extra)
        req = AuthorizationRequest(**args)
        cookies = getattr(self, "cookies", None)
        if cookies is None:
            cookies = self.cookies = {}
        hi = {"cookie": cookies[(user, client)]} if sso and (user, client) in cookies else None
        pr = ep.parse_request(req.to_dict(), http_info=hi)
        if "error" in pr:
            return ["err", pr["error"]]
        out = ep.process_request(pr, http_info=hi)
        if hi is not None and not (isinstance(out, dict) and out.get("response_args", {}).get("code")):
            # the cookie's session is over (logout, revocation, expiry): the provider asks the user to log in again — which the user does
            pr = ep.parse_request(req.to_dict())
            if "error" in pr:
                return ["err", pr["error"]]
            out = ep.process_request(pr)
        if isinstance(out, dict) and out.get("cookie"):
            cookies[(user, client)] = out["cookie"]
        ra = out.get("response_args", {})
        if "error" in out or "error" in ra or "code" not in ra:
            return ["err", str(out.get("error") or ra.get("error"))]
        self._scan()
        return ["code", self.h[ra["code"]]]

    def _cred(self, client, claim):
        """(body parameters, http_info) authenticating as `client`. Without `claim`: client_secret_post. With `claim`: the credential travels in
        the Authorization header (client_secret_basic) and the body's client_id names `claim` — whoever that is, the request is `client`'s"""
        if claim is None:
            return dict(client_id=client, client_secret=self.secret(client)), None
        import base64
        hdr = "Basic " + base64.b64encode(f"{client}:{self.secret(client)}".encode()).decode()
        return dict(client_id=claim), {"headers": {"authorization": hdr}}

    def op_tokenParse(self, client, code, redirect, claim=None):
        ep = self.s.get_endpoint("token")
        body, hi = self._cred(client, claim)
        req = dict(body, grant_type="authorization_code", code=self.tv(code))
        req.update(self.token_extra)
        if redirect is not None:
            req["redirect_uri"] = redirect
        pr = ep.parse_request(req, http_info=hi)
        if "error" in pr:
            return ["err", pr["error"]]
        self.pending.append(pr)
        return ["parsed"]

    def op_tokenProcess(self, idx):
        if idx >= len(self.pending):
            return ["err", "no_request"]
        pr = self.pending.pop(idx)
        ep = self.s.get_endpoint("token")
        out = ep.process_request(pr)
        return self._tokens(out)

    def _tokens(self, out):
        if "error" in out and "response_args" not in out:
            return ["err", out["error"]]
        ra = out["response_args"]
        self._scan()
        sc = ra.get("scope")
        if isinstance(sc, str):
            sc = sc.split(" ")
        return ["tokens"] + [self.h.get(ra.get(x), -1) if ra.get(x) else -1 for x in ("access_token", "refresh_token", "id_token")] + [sorted(sc or [])]

    def op_refresh(self, client, rt, scope, claim=None):
        ep = self.s.get_endpoint("token")
        body, hi = self._cred(client, claim)
        req = dict(body, grant_type="refresh_token", refresh_token=self.tv(rt))
        if scope is not None:
            req["scope"] = list(scope)
        pr = ep.parse_request(req, http_info=hi)
        if "error" in pr:
            return ["err", pr["error"]]
        return self._tokens(ep.process_request(pr))

    def op_exchange(self, client, subj, styp, rtyp, scope):
        """RFC 8693 at the token endpoint. styp / rtyp: "access" | "refresh" (rtyp None = not stated)"""
        ep = self.s.get_endpoint("token")
        U = "urn:ietf:params:oauth:token-type:%s_token"
        req = dict(client_id=client, client_secret=self.secret(client), grant_type="urn:ietf:params:oauth:grant-type:token-exchange",
                   subject_token=self.tv(subj), subject_token_type=U % styp)
        if rtyp is not None:
            req["requested_token_type"] = U % rtyp
        if scope is not None:
            req["scope"] = list(scope)
        pr = ep.parse_request(req)
        if "error" in pr:
            return ["err", pr["error"]]
        out = ep.process_request(pr)
        if "error" in out and "response_args" not in out:
            return ["err", out["error"]]
        ra = out["response_args"]
        self._scan()
        sc = ra.get("scope")
        if isinstance(sc, str):
            sc = sc.split(" ")
        return ["exchanged", self.h.get(ra.get("access_token"), -1), sorted(sc or [])]

    def op_userinfo(self, tok):
        ep = self.s.get_endpoint("userinfo")
        pr = ep.parse_request({}, http_info={"headers": {"authorization": "Bearer " + self.tv(tok)}})
        if "error" in pr:
            return ["err", pr["error"]]
        out = ep.process_request(pr)
        if "error" in out and "response_args" not in out:
            return ["err", out["error"]]
        return ["userinfo", out["response_args"].get("sub") is not None]

    def op_introspect(self, client, tok, claim=None):
        ep = self.s.get_endpoint("introspection")
        body, hi = self._cred(client, claim)
        pr = ep.parse_request(dict(body, token=self.tv(tok)), http_info=hi)
        if "error" in pr:
            return ["err", pr["error"]]
        out = ep.process_request(pr)
        ra = out["response_args"]
        sc = ra.get("scope", "")
        if isinstance(sc, list):
            sc = " ".join(sc)
        return ["introspect", bool(ra["active"]), sorted(sc.split(" ")) if sc else []]

    def op_revokeEp(self, client, tok, claim=None, hint=None):
        """hint: a token_type_hint (RFC 7009: a hint only — a wrong one must not keep the token alive)"""
        ep = self.s.get_endpoint("token_revocation")
        body, hi = self._cred(client, claim)
        if hint:
            body = dict(body, token_type_hint=hint)
        pr = ep.parse_request(dict(body, token=self.tv(tok)), http_info=hi)
        if "error" in pr:
            return ["err", pr["error"]]
        out = ep.process_request(pr)
        if "error" in out and "response_args" not in out:
            return ["err", out["error"]]
        return ["ok"]

    def _sid_of_tok(self, tok):
        for hg, (g, path) in self.gobj.items():
            for t in g.issued_token:
                if self.h[t.value] == tok:
                    return self.sm.encrypted_branch_id(*path), hg
        raise KeyError("no such token")

    def _sid_of_grant(self, hg):
        g, path = self.gobj[hg]
        return self.sm.encrypted_branch_id(*path)

    def op_revokeTok(self, tok, recursive):
        sid, _ = self._sid_of_tok(tok)
        self.sm.revoke_token(sid, self.tv(tok), recursive=bool(recursive))
        return ["ok"]

    def op_revokeGrant(self, hg):
        self.sm.revoke_grant(self._sid_of_grant(hg))
        return ["ok"]

    def _any_grant(self, user, client=None):
        for hg, (g, path) in sorted(self.gobj.items()):
            if path[0] == user and (client is None or path[1] == client) and ";;".join(path) in self.sm.db.db:
                return hg
        raise KeyError("no session")

    def op_revokeClient(self, user, client):
        # logout from one client: Session.logout_from_client -> clean_sessions -> revoke_client_session
        self.s.get_endpoint("session").logout_from_client(self._sid_of_grant(self._any_grant(user, client)))
        return ["ok"]

    def op_logoutAll(self, user):
        # logout from every client: Session.logout_all_clients, entered with the session id of one of the user's grants
        self.s.get_endpoint("session").logout_all_clients(self._sid_of_grant(self._any_grant(user)))
        return ["ok"]

    def op_revokeUser(self, user):
        self.sm.revoke_sub_tree(self._sid_of_grant(self._any_grant(user)), 0)
        return ["ok"]

    def op_remove(self, hg):
        g, path = self.gobj[hg]
        if ";;".join(path) not in self.sm.db.db:
            raise KeyError("removed")
        self.sm.remove_session(self._sid_of_grant(hg))
        return ["ok"]


def model_line(o):
    k = o[0]
    opt = lambda x: "none" if x is None else "some:" + (enc_str(x) if isinstance(x, str) else enc_list(x))
    if k == "tick":
        return f"prov\ttick\t{o[1]}"
    if k == "authorize":
        return f"prov\tauthorize\t{enc_str(o[1])}\t{enc_str(o[2])}\t{enc_list(o[3])}\t{opt(o[4])}"
    if k == "tokenParse":
        return f"prov\ttokenParse\t{enc_str(o[1])}\t{o[2]}\t{opt(o[3])}"
    if k == "tokenProcess":
        return f"prov\ttokenProcess\t{o[1]}"
    if k == "refresh":
        return f"prov\trefresh\t{enc_str(o[1])}\t{o[2]}\t{opt(o[3])}"
    if k == "exchange":
        return f"prov\texchange\t{enc_str(o[1])}\t{o[2]}\t{o[3]}\t{o[4] or 'none'}\t{opt(o[5])}"
    if k == "userinfo":
        return f"prov\tuserinfo\t{o[1]}"
    if k in ("introspect", "revokeEp"):
        return f"prov\t{k}\t{enc_str(o[1])}\t{o[2]}"
    if k == "revokeTok":
        return f"prov\trevokeTok\t{o[1]}\t{1 if o[2] else 0}"
    if k in ("revokeGrant", "remove"):
        return f"prov\t{k}\t{o[1]}"
    if k == "revokeClient":
        return f"prov\trevokeClient\t{enc_str(o[1])}\t{enc_str(o[2])}"
    if k in ("revokeUser", "logoutAll"):
        return f"prov\t{k}\t{enc_str(o[1])}"
    raise ValueError(k)


def cfg_line(oidc, jwt=False, usage=None, deny=None):
    # prov reset <oidc> <allowed: client;scopes...>  (rules are fixed to USAGE_A in the driver, generated table checked separately)
    al = []
    for c in CLIENTS:
        al.append(c + "=" + " ".join(ALLOWED[c] if ALLOWED[c] is not None else DEFAULT_ALLOWED))
    return "prov\treset\t" + ("1" if oidc else "0") + "\t" + ("1" if jwt else "0") + "\t" + enc_list(al) + ("\tx" if usage == "exchange" else "\tc1" if usage == "c1rules" else "\tng" if usage == "nogrant" else "\tnr" if usage == "norefrule" else "\t-") + "\t" + (deny or "-")


def parse_model(out):
    """model line -> (outcome, projection)"""
    f = out.split("\t")
    # outcome | toks | grants
    oc = f[0].split(" ")
    if oc[0] == "err":
        outcome = ["err"]
    elif oc[0] == "code":
        outcome = ["code", int(oc[1])]
    elif oc[0] == "tokens":
        outcome = ["tokens", int(oc[1]), int(oc[2]), int(oc[3]), sorted(dec_list(oc[4] if len(oc) > 4 else ""))]
    elif oc[0] == "exchanged":
        outcome = ["exchanged", int(oc[1]), sorted(dec_list(oc[2] if len(oc) > 2 else ""))]
    elif oc[0] == "userinfo":
        outcome = ["userinfo", True]
    elif oc[0] == "introspect":
        outcome = ["introspect", True, sorted(dec_list(oc[2] if len(oc) > 2 else ""))] if oc[1] == "1" else ["err"]
    else:
        outcome = [oc[0]]
    toks = []
    for e in (f[1].split(" ") if len(f) > 1 and f[1] else []):
        p = e.split("|")
        toks.append([int(p[0]), p[1], int(p[2]), int(p[3]), int(p[4]), int(p[5]), int(p[6]), sorted(dec_list(p[7]))])
    grants = []
    for e in (f[2].split(" ") if len(f) > 2 and f[2] else []):
        p = e.split("|")
        grants.append([int(p[0]), int(p[1]), sorted(dec_list(p[2]))])
    return outcome, {"toks": sorted(toks), "grants": sorted(grants)}


def canon_outcome(r):
    if r[0] == "err" or (r[0] == "introspect" and not r[1]):
        return ["err"]        # refused: error message, exception, or active=false
    return r


def run_history(ops, oidc=True, jwt=False, usage=None):
    R = Runner(oidc, jwt, usage=usage)
    steps = []
    for o in ops:
        r = R.op(o)
        steps.append({"out": canon_outcome(r), "raw": r, "proj": R.projection()})
    return steps


def compare_history(ops, steps, outs):
    """outs[0] answers the reset line"""
    for i, st in enumerate(steps):
        mo, mp = parse_model(outs[i + 1])
        if mo != st["out"] and ops[i][0] != "revokeEp":   # the revocation endpoint's answer is not compared, only its effect
            return [f"step {i} {ops[i]}: outcome model={mo} impl={st['raw']}"]
        # T0-relative expiry in impl projection; model uses now starting at 0
        if mp != st["proj"]:
            dt = [x for x in mp["toks"] if x not in st["proj"]["toks"]], [x for x in st["proj"]["toks"] if x not in mp["toks"]]
            dg = [x for x in mp["grants"] if x not in st["proj"]["grants"]], [x for x in st["proj"]["grants"] if x not in mp["grants"]]
            return [f"step {i} {ops[i]}: state differs model-only toks={dt[0]} impl-only toks={dt[1]} model-only grants={dg[0]} impl-only grants={dg[1]}"]
    return []


def gen_history(rng, nops, focus="mixed"):
    """structured, mostly-valid histories; handles are predicted with the same counter discipline as the model"""
    ops = []
    # we predict handles by simulating counters loosely: keep lists of *candidate* handles seen so far via a shadow count
    shadow = {"next": 0, "codes": [], "access": [], "refresh": [], "grants": [], "pending": 0, "gclient": {}, "tokclient": {}}

    def pick(l, default=0):
        return rng.choice(l) if l else default

    for _ in range(nops):
        r = rng.random()
        if r < 0.22 or not shadow["grants"]:
            u, c = rng.choice(USERS), rng.choice(CLIENTS)
            sc = rng.sample(SCOPES, rng.randint(1, 5))
            if rng.random() < 0.7 and "openid" not in sc:
                sc.append("openid")
            if rng.random() < 0.5 and "offline_access" not in sc:
                sc.append("offline_access")
            red = f"https://{c}.example.com/cb"
            ops.append(["authorize", u, c, sc, red])
            g = shadow["next"]; shadow["grants"].append(g); shadow["gclient"][g] = (u, c)
            shadow["codes"].append(g + 1); shadow["tokclient"][g + 1] = c
            shadow["next"] += 2
        elif r < 0.40 and shadow["codes"]:
            code = pick(shadow["codes"])
            c = shadow["tokclient"].get(code, "client_1")
            if rng.random() < 0.12:
                c = rng.choice(CLIENTS)
            red = f"https://{shadow['tokclient'].get(code, 'client_1')}.example.com/cb"
            if rng.random() < 0.1:
                red = rng.choice([None, red + "x", "https://evil.example/cb"])
            ops.append(["tokenParse", c, code, red])
            shadow["pending"] += 1
            # optimistic: process right away most of the time
            if rng.random() < 0.75:
                ops.append(["tokenProcess", shadow["pending"] - 1 if rng.random() < 0.9 else 0])
                shadow["pending"] = max(0, shadow["pending"] - 1)
                n = shadow["next"]
                # up to three tokens may appear; register candidates (wrong guesses are harmless: unknown handles are refused)
                shadow["access"].append(n); shadow["refresh"].append(n + 1); shadow["access"].append(n + 1)
                for x in (n, n + 1, n + 2):
                    shadow["tokclient"][x] = c
                shadow["next"] += 3 if rng.random() < 0.6 else 2
        elif r < 0.45 and shadow["pending"]:
            ops.append(["tokenProcess", rng.randrange(shadow["pending"])])
            shadow["pending"] -= 1
        elif r < 0.57 and shadow["refresh"]:
            rt = pick(shadow["refresh"])
            c = shadow["tokclient"].get(rt, "client_1") if rng.random() < 0.9 else rng.choice(CLIENTS)
            sc = None if rng.random() < 0.5 else rng.sample(SCOPES, rng.randint(1, 3))
            ops.append(["refresh", c, rt, sc])
            n = shadow["next"]
            shadow["access"].append(n); shadow["refresh"].append(n + 1)
            shadow["tokclient"][n] = c; shadow["tokclient"][n + 1] = c
            shadow["next"] += 2
        elif r < 0.67:
            ops.append(["userinfo", pick(shadow["access"] + shadow["refresh"][:1] + shadow["codes"][:1])])
        elif r < 0.75:
            t = pick(shadow["access"] + shadow["refresh"] + shadow["codes"])
            ops.append(["introspect", shadow["tokclient"].get(t, "client_1"), t])
        elif r < 0.80:
            t = pick(shadow["access"] + shadow["refresh"] + shadow["codes"])
            ops.append(["revokeEp", shadow["tokclient"].get(t, "client_1") if rng.random() < 0.85 else rng.choice(CLIENTS), t])
        elif r < 0.85:
            ops.append(["revokeTok", pick(shadow["access"] + shadow["refresh"] + shadow["codes"]), rng.random() < 0.6])
        elif r < 0.89:
            ops.append(["revokeGrant", pick(shadow["grants"])])
        elif r < 0.92:
            u, c = shadow["gclient"][pick(shadow["grants"])]
            ops.append(["revokeClient", u, c])
        elif r < 0.935:
            ops.append(["revokeUser", rng.choice(USERS)])
        elif r < 0.955:
            ops.append(["remove", pick(shadow["grants"])])
        else:
            ops.append(["tick", rng.choice([1, 60, 299, 300, 301, 3600, 3601, 40000, 86401])])
    return ops


def gen_adaptive(rng, nops, oidc=True, jwt=False, weights=None, runner=None, on_step=None, usage=None):
    """generate a history against the live provider so that handles are real; returns (ops, steps)"""
    R = runner if runner is not None else Runner(oidc, jwt, usage=usage)
    ops, steps = [], []
    W = dict(authorize=20, redeem=16, parse=4, process=4, refresh=12, userinfo=9, introspect=8, revokeEp=5, revokeTok=5,
             revokeGrant=4, revokeClient=3, revokeUser=1.5, logoutAll=2, remove=2, tick=5)
    if R.usage == "exchange":
        W["exchange"] = 16
    if weights:
        W.update(weights)
    kinds, ws = list(W), list(W.values())
    tokclient = {}
    coderedir = {}

    def by_cls(cls):
        out = []
        for hg, (g, path) in R.gobj.items():
            for t in g.issued_token:
                if CLS.get(type(t)) == cls:
                    out.append(R.h[t.value]); tokclient[R.h[t.value]] = path[1]
        return out

    def do(o):
        r = R.op(o)
        ops.append(o)
        steps.append({"out": canon_outcome(r), "raw": r, "proj": R.projection()})
        if on_step:
            on_step(len(ops) - 1, o, r, R)
        return r

    while len(ops) < nops:
        k = rng.choices(kinds, ws)[0]
        codes, acc, ref, idt = by_cls("code"), by_cls("access"), by_cls("refresh"), by_cls("idtoken")
        anytok = codes + acc + ref + idt
        grants = list(R.gobj)
        if k == "authorize" or not grants:
            u, c = rng.choice(USERS), rng.choice(CLIENTS)
            sc = rng.sample(SCOPES, rng.randint(1, 5))
            if "openid" not in sc:          # the OIDC authorization endpoint refuses requests without it
                sc.insert(rng.randrange(len(sc) + 1), "openid")
            if rng.random() < 0.5 and "offline_access" not in sc:
                sc.append("offline_access")
            red_ = f"https://{c}.example.com/cb" if rng.random() < 0.7 else f"https://{c}.example.com/cb2"
            if rng.random() < 0.3 and getattr(R, "last_auth", {}).get((u, c)):
                # the user comes back with the provider's session cookie, asking for the same thing — perhaps at the client's other redirect_uri
                psc = R.last_auth[(u, c)]
                r_ = do(["authorize", u, c, psc if rng.random() < 0.8 else sc, red_, "sso"])
            else:
                r_ = do(["authorize", u, c, sc, red_])
            if r_[0] == "code":
                coderedir[r_[1]] = red_
            if not hasattr(R, "last_auth"):
                R.last_auth = {}
            R.last_auth[(u, c)] = ops[-1][3]
        elif k in ("redeem", "parse") and codes:
            code = rng.choice(codes[-4:] if rng.random() < 0.7 else codes)
            owner = tokclient[code]
            c = owner if rng.random() < 0.88 else rng.choice(CLIENTS)
            red = coderedir.get(code, f"https://{owner}.example.com/cb")
            if rng.random() < 0.12:
                red = rng.choice([None, red + "x", "https://evil.example/cb", f"https://{owner}.example.com/cb", f"https://{owner}.example.com/cb2"])
            o = ["tokenParse", c, code, red]
            if c != owner and rng.random() < 0.6:
                o.append(owner)            # authenticated (header) as c, the body names the code's owner
            elif rng.random() < 0.06:
                o.append(rng.choice(CLIENTS))
            r = do(o)
            if k == "redeem" and r[0] == "parsed":
                do(["tokenProcess", len(R.pending) - 1])
        elif k == "process" and R.pending:
            do(["tokenProcess", rng.randrange(len(R.pending))])
        elif k == "refresh" and ref:
            rt = rng.choice(ref)
            c = tokclient[rt] if rng.random() < 0.9 else rng.choice(CLIENTS)
            sc = None if rng.random() < 0.5 else rng.sample(SCOPES, rng.randint(1, 3))
            do(["refresh", c, rt, sc] + ([tokclient[rt]] if c != tokclient[rt] and rng.random() < 0.6 else []))
        elif k == "exchange" and anytok:
            r0 = rng.random()
            subj = rng.choice(acc + ref) if (acc + ref) and r0 < 0.9 else rng.choice(anytok)
            true_typ = "access" if subj in acc else "refresh"
            styp = true_typ if rng.random() < 0.9 else rng.choice(["access", "refresh"])
            rtyp = rng.choice([None, "access", "access", "refresh"])
            c = tokclient[subj] if rng.random() < 0.55 else rng.choice(CLIENTS)
            sc = None if rng.random() < 0.4 else rng.sample(SCOPES, rng.randint(1, 4))
            do(["exchange", c, subj, styp, rtyp, sc])
        elif k == "userinfo" and anytok:
            do(["userinfo", rng.choice(acc) if acc and rng.random() < 0.8 else rng.choice(anytok)])
        elif k == "introspect" and anytok:
            t = rng.choice(anytok)
            do(["introspect", tokclient[t], t])
        elif k == "revokeEp" and anytok:
            t = rng.choice(anytok)
            c = tokclient[t] if rng.random() < 0.85 else rng.choice(CLIENTS)
            claim = tokclient[t] if c != tokclient[t] and rng.random() < 0.6 else None
            hint = rng.choice([None, None, "access_token", "refresh_token", "authorization_code", "bogus"])
            do(["revokeEp", c, t] + ([claim, hint] if hint else [claim] if claim else []))
        elif k == "revokeTok" and anytok:
            do(["revokeTok", rng.choice(anytok), rng.random() < 0.6])
        elif k == "revokeGrant":
            do(["revokeGrant", rng.choice(grants)])
        elif k == "revokeClient":
            g, path = R.gobj[rng.choice(grants)]
            do(["revokeClient", path[0], path[1]])
        elif k == "revokeUser":
            do(["revokeUser", rng.choice(USERS)])
        elif k == "logoutAll":
            do(["logoutAll", rng.choice(USERS)])
        elif k == "remove":
            do(["remove", rng.choice(grants)])
        elif k == "tick":
            do(["tick", rng.choice([1, 60, 299, 300, 301, 3600, 3601, 40000, 86401])])
    return ops, steps
