"""C16 — request objects and pushed requests are authenticated before they take effect."""
import json
import common
import clock
from common import enc_str, dec_str
import opbase
from cryptojwt.jws.jws import JWS
from cryptojwt.key_jar import build_keyjar, KeyJar
from idpyoidc.message.oidc import AuthorizationRequest

clock.install()
T0 = 1_800_000_000
RULE = ("cases: (jar) request objects by value derived from a genuine one: signed with the client's own RS256/ES256 key, HS256 under the client "
        "secret, unsigned (alg=none), a foreign key, another registered client's key; inner client_id absent / equal / another client; "
        "conflicting redirect_uri/scope/state inside vs outside; for a client registered for RS256, one registered for ES256, one with no "
        "registered algorithm; (par) histories of authenticated pushes, redemptions by the pushing and by another client, replays, unknown "
        "URNs and clock advances past the announced lifetime. Outcome = refused / which parameter set takes effect / as which client the flow "
        "proceeds; compared with the Lean model; oracle from the harness's knowledge of who signed what. "
        "non-trivial: object not of the plain own-key kind, or a PAR history with a replay/other-client redemption/tick")
MODELLED = ("modelled: AuthorizationRequest.verify merge (inner replaces outer), the by-value algorithm/client policy in Authorization._do_request_uri, "
            "PushedAuthorization.process_request + one-time redemption. NOT modelled: JWS verification (field `verifies`), JWE, the request_uri fetch "
            "transport (same policy code path as before the fix)")
ASSUMPTIONS = ["from_jwt verifies signatures under the keys the key jar holds for the object's issuer / the identified client (idealised; observed)"]
RED = "https://{}.example.com/cb"
_env = None


class Env:
    def __init__(self, flavour="oidc"):
        from idpyoidc.server.oauth2.pushed_authorization import PushedAuthorization
        more = {"pushed_authorization": {"path": "pushed_authorization", "class": PushedAuthorization,
                                         "kwargs": {"client_authn_method": ["client_secret_post"], "ttl": 60}}}
        if flavour == "oauth2":
            # the plain OAuth2 authorization endpoint (the OIDC one runs the request-object step of its parent a second time)
            from idpyoidc.server.oauth2.authorization import Authorization as OAuth2Authorization
            more["authorization"] = {"path": "authorization", "class": OAuth2Authorization, "kwargs": {}}
        self.s = opbase.make_op(more_endpoints=more, extra={"keys": {"uri_path": "jwks.json", "key_defs": opbase.KEYDEFS + [{"type": "RSA", "use": ["enc"]}]}})
        ctx = self.s.context
        # (the second live instance of the PAR histories is the SAME deployment: same clients, same client keys)
        self.kj = _env["oidc"].kj if (flavour == "oidc-b" and _env and "oidc" in _env) else {"c_rs": build_keyjar([{"type": "RSA", "use": ["sig"]}, {"type": "EC", "crv": "P-256", "use": ["sig"]}]),
                   "c_es": build_keyjar([{"type": "EC", "crv": "P-256", "use": ["sig"]}, {"type": "RSA", "use": ["sig"]}]),
                   "c_any": build_keyjar([{"type": "EC", "crv": "P-256", "use": ["sig"]}]),
                   "foreign": build_keyjar([{"type": "EC", "crv": "P-256", "use": ["sig"]}, {"type": "RSA", "use": ["sig"]}])}
        self.reg = {"c_rs": "RS256", "c_es": "ES256", "c_any": None}
        for cid in self.reg:
            rec = dict(ctx.cdb["client_1"], client_id=cid, client_secret="secret_of_%s_0123456789abcdef0123" % cid, redirect_uris=[(RED.format(cid), None)])
            if self.reg[cid]:
                rec["request_object_signing_alg"] = self.reg[cid]
            ctx.cdb[cid] = rec
            ctx.keyjar.add_symmetric(cid, rec["client_secret"])
            ctx.keyjar.import_jwks(self.kj[cid].export_jwks(), cid)
        self.prov_algs = ctx.provider_info.get("request_object_signing_alg_values_supported") or []


def env(flavour="oidc"):
    global _env
    if _env is None:
        _env = {}
    if flavour not in _env:
        _env[flavour] = Env(flavour)
    return _env[flavour]


# enc_plain / enc_own_rs: the object encrypted to the provider's public key — without a signature inside (anybody can make one: it is an
# UNSIGNED object) or around a JWS of the client's own key; the encryption layer changes nothing about the signature policy
SIGNERS = ["own_rs", "own_es", "own_hs", "none", "foreign", "other_client", "enc_plain", "enc_own_rs"]


def cases(rng, tier):
    n = {"quick": 1, "thorough": 10, "search": 6}[tier]
    out = []
    for cid in ("c_rs", "c_es", "c_any"):
        for signer in SIGNERS:
            for inner_cid in ("absent", "same", "other"):
                for _ in range(n):
                    out.append({"t": "jar", "fl": rng.choice(["oidc", "oidc", "oauth2"]), "client": cid, "signer": signer, "inner_cid": inner_cid,
                                "conflict": rng.choice(["redirect_uri", "scope", "state", None])})
                    # claims that steer key selection / the checks made before verification: issuer, expiry, whose redirect_uri
                    out.append({"t": "jar", "client": cid, "signer": signer, "inner_cid": inner_cid, "conflict": None,
                                "iss": rng.choice(["own", "other", "absent"]), "exp": rng.choice([None, "expired", "future"]),
                                "inner_ruri": rng.choice(["own", "other"]) if inner_cid == "other" else "own"})
    for cid in ("c_rs", "c_es", "c_any"):
        for signer in ("own_rs", "own_es", "other_client"):
            for iss in ("own", "other", "absent"):
                for exp in (None, "expired"):
                    for inner_cid in ("same", "other"):
                        out.append({"t": "jar", "client": cid, "signer": signer, "inner_cid": inner_cid, "conflict": None, "iss": iss, "exp": exp,
                                    "inner_ruri": "other" if inner_cid == "other" else "own"})
    # the same request objects passed BY REFERENCE: the provider fetches them from the request_uri (in-memory transport)
    for cid in ("c_rs", "c_es", "c_any"):
        for signer in SIGNERS:
            for inner_cid in ("absent", "same", "other"):
                for _ in range(n):
                    out.append({"t": "jar", "via": "reference", "fl": rng.choice(["oidc", "oauth2"]), "client": cid, "signer": signer, "inner_cid": inner_cid, "conflict": None,
                                "iss": rng.choice(["own", "own", "other", "absent"]), "exp": rng.choice([None, None, "expired", "future"]),
                                "inner_ruri": rng.choice(["own", "other"]) if inner_cid == "other" else "own"})
    # the same request objects travelling through the pushed-authorization endpoint (pushed, then redeemed by request_uri)
    for cid in ("c_rs", "c_es", "c_any"):
        for signer in SIGNERS:
            for inner_cid in ("absent", "same", "other"):
                out.append({"t": "jarpar", "fl": rng.choice(["oidc", "oauth2"]), "client": cid, "signer": signer, "inner_cid": inner_cid, "conflict": None,
                            "iss": rng.choice(["own", "own", "other", "absent"]), "exp": rng.choice([None, None, "expired", "future"]),
                            "inner_ruri": rng.choice(["own", "other"]) if inner_cid == "other" else "own"})
    for _ in range(40 * n):
        ops = []
        npush = 0
        for _ in range(rng.randint(3, 10)):
            r = rng.random()
            if r < 0.35 or npush == 0:
                ops.append(["push", rng.choice(["c_rs", "c_es"])]); npush += 1
            elif r < 0.8:
                ops.append(["redeem", rng.choice(["c_rs", "c_es", "same", "same", "same"]), rng.randrange(npush) if rng.random() < 0.9 else 99])
                if rng.random() < 0.3:
                    ops.append(list(ops[-1]))          # immediate replay
            elif r < 0.9:
                ops.append(["tick", rng.choice([1, 59, 61, 4000, 100000])])
            else:
                # two live provider instances sharing state by export / import: the work moves to the other one
                ops.append(["switch"])
        out.append({"t": "par", "ops": ops})
    return out


def corpus():
    # several outstanding pushed requests: redeem an older one, replay it, then the newer one; by the owner and by another client; after the lifetime
    return [
        # pushed at one instance, redeemed at the other, replayed at the first (state exported / imported in between, each time into a LIVE instance)
        {"t": "par", "ops": [["push", "c_rs"], ["switch"], ["redeem", "same", 0], ["switch"], ["redeem", "same", 0], ["switch"], ["redeem", "same", 0]]},
        {"t": "par", "ops": [["push", "c_rs"], ["push", "c_es"], ["switch"], ["redeem", "same", 1], ["redeem", "same", 0], ["switch"], ["redeem", "same", 0], ["redeem", "same", 1], ["push", "c_es"], ["switch"], ["redeem", "same", 2], ["switch"], ["redeem", "same", 2]]},
        {"t": "par", "ops": [["push", "c_rs"], ["push", "c_rs"], ["redeem", "same", 0], ["redeem", "same", 0], ["redeem", "same", 1], ["redeem", "same", 1]]},
        {"t": "par", "ops": [["push", "c_rs"], ["push", "c_es"], ["push", "c_rs"], ["redeem", "same", 1], ["redeem", "same", 1], ["redeem", "same", 0], ["redeem", "same", 2], ["redeem", "same", 0]]},
        {"t": "par", "ops": [["push", "c_rs"], ["push", "c_es"], ["redeem", "c_es", 0], ["redeem", "c_rs", 0], ["redeem", "c_es", 1]]},
        {"t": "par", "ops": [["push", "c_rs"], ["tick", 59], ["push", "c_rs"], ["tick", 2], ["redeem", "same", 0], ["redeem", "same", 1]]},
    ]


def _object(E, c):
    cid = c["client"]
    inner = {"response_type": "code", "scope": "openid email", "state": "inner-state", "nonce": "n", "redirect_uri": RED.format(cid)}
    other = "c_es" if cid != "c_es" else "c_rs"
    if c["inner_cid"] == "same":
        inner["client_id"] = cid
    elif c["inner_cid"] == "other":
        inner["client_id"] = other
    if c["conflict"] == "state":
        inner["state"] = "inner-different"
    signer = c["signer"]
    alg, keys, iss, verifies = "none", [], cid, True
    if signer in ("own_rs", "enc_own_rs"):
        alg, keys = "RS256", E.kj[cid].get_signing_key("RSA", "")
        if not keys:
            alg, keys = "ES256", E.kj[cid].get_signing_key("EC", "")
    elif signer == "own_es":
        alg, keys = "ES256", E.kj[cid].get_signing_key("EC", "")
    elif signer == "own_hs":
        kj = KeyJar(); kj.add_symmetric("", E.s.context.cdb[cid]["client_secret"])
        alg, keys = "HS256", kj.get_signing_key("oct", "")
    elif signer == "foreign":
        alg, keys, verifies = "ES256", E.kj["foreign"].get_signing_key("EC", ""), False
    elif signer == "other_client":
        alg, keys, verifies = "ES256", E.kj[other].get_signing_key("EC", ""), False
    inner["iss"] = iss
    if c.get("iss") == "other":
        inner["iss"] = other
    elif c.get("iss") == "absent":
        del inner["iss"]
    if c.get("exp"):
        inner["exp"] = T0 - 1000 if c["exp"] == "expired" else T0 + 1000
    if c.get("inner_ruri") == "other":
        inner["redirect_uri"] = RED.format(other)
    inner["aud"] = E.s.context.issuer
    if alg == "none":
        tok = JWS(json.dumps(inner), alg="none").sign_compact([])
    else:
        tok = JWS(json.dumps(inner), alg=alg).sign_compact(keys)
    if signer.startswith("enc_"):
        from cryptojwt.jwe.jwe import JWE
        pub = [k for k in E.s.context.keyjar.get_issuer_keys("") if k.kty == "RSA" and k.use == "enc"]
        if signer == "enc_plain":
            tok = JWE(json.dumps(inner), alg="RSA-OAEP", enc="A128CBC-HS256").encrypt(pub)
        else:
            tok = JWE(tok, alg="RSA-OAEP", enc="A128CBC-HS256", cty="JWT").encrypt(pub)
    return tok, alg, verifies, inner


class _Fetched:
    def __init__(self, text):
        self.status_code, self.status, self.text, self.headers = 200, 200, text, {"content-type": "application/jwt"}


def impl(c):
    E = env(c.get("fl", "oidc"))
    az = E.s.get_endpoint("authorization")
    if c["t"] == "jar":
        tok, alg, verifies, inner = _object(E, c)
        cid = c["client"]
        outer = dict(client_id=cid, redirect_uri=RED.format(cid), scope=["openid"], state="outer-state", response_type="code", nonce="n", request=tok)
        if c.get("via") == "reference":
            del outer["request"]
            uri = outer["request_uri"] = "https://%s.example.com/request_objects/ro.jwt" % cid.replace("_", "-")
            E.s.context.httpc = lambda method, url, **kw: _Fetched(tok if url == uri else "")
        try:
            pr = az.parse_request(AuthorizationRequest(**outer).to_dict())
        except Exception as e:
            return {"r": "refused", "how": type(e).__name__, "alg": alg, "verifies": verifies}
        if "error" in pr:
            return {"r": "refused", "how": "error", "alg": alg, "verifies": verifies}
        return {"r": "inner" if pr.get("state", "").startswith("inner") else "outer", "as": pr.get("client_id"), "alg": alg, "verifies": verifies}
    if c["t"] == "jarpar":
        tok, alg, verifies, inner = _object(E, c)
        cid = c["client"]
        par = E.s.get_endpoint("pushed_authorization")
        E.s.context.par_db.clear()
        clock.CLOCK.t = T0
        o = {"alg": alg, "verifies": verifies}
        try:
            # outside the object only what must be there, with the values the object has: nothing for the conflict test to trip over
            pr = par.parse_request(dict(client_id=cid, client_secret=E.s.context.cdb[cid]["client_secret"], redirect_uri=inner["redirect_uri"],
                                        scope=inner["scope"], response_type="code", nonce="n", request=tok))
            if "error" in pr:
                return dict(o, r="refused", how="push-error")
            urn = par.process_request(pr)["http_response"]["request_uri"]
        except Exception as e:
            return dict(o, r="refused", how="push:" + type(e).__name__)
        try:
            pr = az.parse_request(AuthorizationRequest(client_id=cid, request_uri=urn, response_type="code", scope=inner["scope"].split(" "),
                                                       redirect_uri=inner["redirect_uri"], nonce="n").to_dict())
        except Exception as e:
            return dict(o, r="refused", how="redeem:" + type(e).__name__)
        if "error" in pr:
            return dict(o, r="refused", how="redeem-error")
        return dict(o, r="inner" if str(pr.get("state", "")).startswith("inner") else "outer", **{"as": pr.get("client_id")})
    # PAR history
    workers = [env("oidc").s, env("oidc-b").s] if any(op[0] == "switch" for op in c["ops"]) else [E.s]
    cur = 0
    for w in workers:
        w.context.par_db.clear()
    par = workers[cur].get_endpoint("pushed_authorization")
    az = workers[cur].get_endpoint("authorization")
    clock.CLOCK.t = T0
    urns, steps, pushed_at, pushed_by = [], [], {}, {}
    for op in c["ops"]:
        if op[0] == "push":
            cid = op[1]
            req = dict(client_id=cid, client_secret=E.s.context.cdb[cid]["client_secret"], redirect_uri=RED.format(cid), scope="openid",
                       state="pushed-by-" + cid, response_type="code", nonce="n")
            try:
                pr = par.parse_request(req)
                out = par.process_request(pr)
                urn = out["http_response"]["request_uri"]
                urns.append(urn); pushed_at[len(urns) - 1] = clock.CLOCK.t; pushed_by[len(urns) - 1] = cid
                steps.append(["urn", len(urns) - 1, out["http_response"]["expires_in"]])
            except Exception as e:
                steps.append(["refused", type(e).__name__])
        elif op[0] == "redeem":
            idx = op[2]
            urn = urns[idx] if idx < len(urns) else "urn:uuid:00000000-0000-0000-0000-000000000000"
            cid = op[1] if op[1] != "same" else pushed_by.get(idx, "c_rs")
            req = dict(client_id=cid, request_uri=urn, response_type="code", scope=["openid"], redirect_uri=RED.format(cid), nonce="n")
            try:
                pr = az.parse_request(AuthorizationRequest(**req).to_dict())
                if "error" in pr:
                    steps.append(["refused", "error"])
                else:
                    steps.append(["proceeds", pr.get("client_id"), pr.get("state"), clock.CLOCK.t - pushed_at.get(idx, clock.CLOCK.t), cid])
            except Exception as e:
                steps.append(["refused", type(e).__name__])
        elif op[0] == "switch":
            store = workers[cur].context.dump()
            cur = 1 - cur
            workers[cur].context.load(store)
            par = workers[cur].get_endpoint("pushed_authorization")
            az = workers[cur].get_endpoint("authorization")
            steps.append(["ok"])
        else:
            clock.CLOCK.t += op[1]
            steps.append(["ok"])
    return {"steps": steps}


def model_lines(c, obs):
    E = env(c.get("fl", "oidc"))
    if c["t"] in ("jar", "jarpar"):
        cid = c["client"]
        other = "c_es" if cid != "c_es" else "c_rs"
        inner = {"absent": "-", "same": enc_str(cid), "other": enc_str(other)}[c["inner_cid"]]
        iss = {"own": enc_str(cid), "other": enc_str(other), "absent": "-"}[c.get("iss", "own")]
        ro = f"{'1' if obs['verifies'] else '0'}:{obs['alg']}:{inner}:{iss}"
        return ["\t".join(["jar", "byref" if c.get("via") == "reference" else "byvalue", E.reg[cid] or "-", ",".join(E.prov_algs), enc_str(cid), ro])]
    lines = ["jar\tpar\treset"]
    npush = 0
    by = []
    for op, st in zip(c["ops"], obs["steps"]):
        if op[0] == "push":
            lines.append("jar\tpar\tpush\t" + enc_str(op[1]) + "\t60"); npush += 1
            if st[0] == "urn":
                by.append(op[1])
        elif op[0] == "redeem":
            cid = op[1] if op[1] != "same" else (by[op[2]] if op[2] < len(by) else "c_rs")
            lines.append(f"jar\tpar\tredeem\t{enc_str(cid)}\t{op[2]}")
        elif op[0] == "switch":
            lines.append("jar\tpar\ttick\t0")          # one logical provider: nothing happens to the state
        else:
            lines.append(f"jar\tpar\ttick\t{op[1]}")
    return lines


def compare(c, obs, outs):
    if c["t"] == "jar":
        if c.get("via") == "reference" and c["inner_cid"] == "other" and c.get("inner_ruri", "own") == "own" and outs[0] == "inner" and obs["r"] == "refused":
            # (F-C16-h) the object took effect AS the other client — whose registered redirect URIs the (own) redirect_uri then fails to match: the
            # refusal comes from the redirect-URI check of the OTHER client (C06), after the request-object stage the model describes
            return []
        if c.get("via") == "reference" and c["signer"].startswith("enc_") and obs["r"] == "refused":
            # an ENCRYPTED object fetched by reference is refused whatever is inside (the by-reference branch checks the encryption
            # algorithms against the signature header and raises): over-refusal, not a matter of this property's soundness clauses
            return []
        return [] if outs[0] == obs["r"] else [f"by {c.get('via', 'value')}: model={outs[0]} impl={obs}"]
    if c["t"] == "jarpar":
        return [] if outs[0] == obs["r"] else [f"request object through PAR: the by-value policy says {outs[0]}, impl={obs}"]
    d = []
    for i, (op, st, o) in enumerate(zip(c["ops"], obs["steps"], outs[1:])):
        f = o.split("\t")
        if op[0] == "push":
            if st[0] != "urn" or f[0] != f"urn {st[1]}":
                d.append(f"step {i}: push model={o} impl={st}"); break
        elif op[0] == "redeem":
            if f[0] == "refused":
                if st[0] != "refused":
                    d.append(f"step {i}: redeem model=refused impl={st}"); break
            else:
                if st[0] != "proceeds" or dec_str(f[1]) != st[1]:
                    d.append(f"step {i}: redeem model={o} impl={st}"); break
    return d


def oracle(c, obs):
    E = env(c.get("fl", "oidc"))
    v = []
    if c["t"] in ("jar", "jarpar"):
        if obs["r"] == "inner":
            cid = c["client"]
            reg = E.reg[cid]
            ok_alg = (obs["alg"] == reg) if reg else (obs["alg"] in E.prov_algs)
            if not obs["verifies"]:
                v.append({"cls": "object-with-wrong-key-took-effect", "signer": c["signer"]})
            if not ok_alg:
                v.append({"cls": "non-permitted-alg-took-effect", "alg": obs["alg"], "registered": reg})
            if c["inner_cid"] == "other":
                v.append({"cls": "object-naming-other-client-took-effect", "via": c.get("via", "value") if c["t"] == "jar" else "pushed"})
        if obs["r"] == "outer":
            v.append({"cls": "object-ignored"})
        return v
    redeemed = set()
    for op, st in zip(c["ops"], obs["steps"]):
        if op[0] == "redeem" and st[0] == "proceeds":
            if op[2] in redeemed:
                v.append({"cls": "par-redeemed-twice"})
            redeemed.add(op[2])
            if st[3] > 60:
                v.append({"cls": "par-redeemed-after-lifetime", "age": st[3]})
            if st[4] != st[1]:
                v.append({"cls": "par-redeemed-by-other-client"})
    return v[:1] if v else v


def known_key(c, v, known):
    return common.known_key(c, v, known)


def classify(c, obs):
    if c["t"] in ("jar", "jarpar"):
        return f"{c['t']}:{c.get('via', 'value')}:{c.get('fl', 'oidc')}:{obs['r']}"
    return "par:" + ",".join(sorted({s[0] for s in obs["steps"]}))


def nontrivial(c, obs):
    if c["t"] in ("jar", "jarpar"):
        return c["signer"] not in ("own_rs", "own_es") or c["inner_cid"] != "absent"
    return any(o[0] in ("redeem", "tick") for o in c["ops"])
