"""C06 — responses go only to registered URIs and carry exactly what was issued."""
import html
import html.parser
import re
from urllib.parse import parse_qs, parse_qsl, unquote, urlparse, urlsplit, urlunsplit
import common
from common import enc_str, enc_list, dec_str
import opbase
import c10
from idpyoidc.message.oidc import AuthorizationRequest
from idpyoidc.message.oauth2 import AuthorizationRequest as OAuth2AuthorizationRequest

RULE = ("cases: (uri) redirect_uri strings derived from the registered ones by component-wise mutation (scheme case, userinfo, host prefix/suffix, "
        "port, path segments, dot segments, percent-encoded delimiters and controls, extra/duplicate/reordered/blank query parameters, fragments, "
        "params, leading/trailing whitespace) for a web and a native client on the OIDC authorization endpoint, through parse_request; (resp) "
        "full authorization responses in query, fragment and form_post mode with hostile state values (HTML and URL metacharacters, non-ASCII): "
        "the produced URL/HTML is compared with the Lean delivery/escape model and parsed back with urllib / html.parser. "
        "non-trivial: mutated URI or state containing a metacharacter")
MODELLED = ("modelled: verify_uri decision logic and matching (on the components urllib yields), Message.request delivery, form_post rendering "
            "(inputs/escape). At the interface, not modelled: urllib.parse.unquote/urlparse/parse_qs themselves, html.parser; end-session endpoint glue")
ASSUMPTIONS = ["the agreement of urllib's split with RFC 3986 Appendix B on clean strings is checked by the oracle on every case, not proved",
               "HTML tokenisation by a browser agrees with html.parser on the generated pages"]

_srv = None
WEB, NATIVE = "client_1", "native_app"
DYN_URIS = ["https://dyn.example.com/cb?tenant=blue", "https://dyn.example.com/cb2", "https://dyn.example.com/OIDC/CallBack?Tenant=Blue"]
DYN_PL = "https://dyn.example.com/Logout/Done?tenant=blue"


def _own_split(u):
    """(base, query) of a URI the client REGISTERED — by the harness's own reading, not the library's helper"""
    b, _, q = u.partition("?")
    return (b, parse_qs(q, keep_blank_values=True) if q else None)
DYNN_URIS = ["http://localhost:8080/cb", "http://127.0.0.1:8080/cb", "com.example.dyn:/cb"]     # a NATIVE application registering itself
DYNN = None
DYN = None       # client_id of the dynamically registered client (set by server())
REG = {
    WEB: [("https://rp.example.com/cb", None), ("https://rp.example.com/cb2", {"foo": ["bar"]}), ("https://rp.example.com:8443/deep/path;p=1", None)],
    NATIVE: [("http://127.0.0.1:8000/cb", None), ("http://[::1]/cb6", None), ("com.example.app:/oauth", None), ("https://app.example.com/cb", None)],
}


PLREG = [("https://rp.example.com/logout_cb", None), ("https://rp.example.com/logout2", {"foo": ["bar"]})]
PLREGS = {None: PLREG}
_lo = None
_lo_dyn = None
DYN_SECRET = None


def logout_world(client=None):
    """one login of the web client: the session cookie and the ID token an RP-initiated logout refers to"""
    global _lo, _lo_dyn
    if client == "dyn":
        if _lo_dyn is None:
            s = server()
            ep = s.get_endpoint("authorization")
            req = AuthorizationRequest(client_id=DYN, redirect_uri=DYN_URIS[1], scope=["openid"], state="st", response_type="code", nonce="nonce")
            out = ep.process_request(ep.parse_request(req.to_dict()))
            tep = s.get_endpoint("token")
            pr = tep.parse_request(dict(client_id=DYN, client_secret=DYN_SECRET, redirect_uri=DYN_URIS[1], grant_type="authorization_code",
                                        code=out["response_args"]["code"]))
            tok = tep.process_request(pr)
            _lo_dyn = {"cookie": [c for c in out["cookie"] if c["name"] == s.context.cookie_handler.name["session"]], "id_token": tok["response_args"]["id_token"]}
        return _lo_dyn
    if _lo is None:
        s = server()
        out = opbase.authz(s, WEB, scope=("openid",), state="st")
        # opbase.authz sends https://client_1.example.com/cb; this client registered other URIs
        ep = s.get_endpoint("authorization")
        req = AuthorizationRequest(client_id=WEB, redirect_uri=REG[WEB][0][0], scope=["openid"], state="st", response_type="code", nonce="nonce")
        out = ep.process_request(ep.parse_request(req.to_dict()))
        tep = s.get_endpoint("token")
        pr = tep.parse_request(dict(client_id=WEB, client_secret=s.context.cdb[WEB]["client_secret"], redirect_uri=REG[WEB][0][0],
                                    grant_type="authorization_code", code=out["response_args"]["code"]))
        tok = tep.process_request(pr)
        _lo = {"cookie": [c for c in out["cookie"] if c["name"] == s.context.cookie_handler.name["session"]], "id_token": tok["response_args"]["id_token"]}
    return _lo


def server():
    global _srv
    if _srv is None:
        from idpyoidc.server.oidc.read_registration import RegistrationRead
        _srv = opbase.make_op(more_endpoints={"registration_read": {"path": "registration_read", "class": RegistrationRead,
                                                                     "kwargs": {"client_authn_method": ["bearer_header"]}}})
        ctx = _srv.context
        ctx.cdb[WEB]["post_logout_redirect_uri"] = PLREG
        ctx.cdb[WEB]["redirect_uris"] = REG[WEB]
        ctx.cdb[NATIVE] = dict(ctx.cdb[WEB], client_id=NATIVE, redirect_uris=REG[NATIVE], application_type="native")
        ctx.keyjar.add_symmetric(NATIVE, ctx.cdb[NATIVE]["client_secret"])
        # a client that registers itself (URIs with a query part), and reads its registration back before anything else happens
        global DYN, DYN_SECRET
        from idpyoidc.util import split_uri
        from idpyoidc.server.oidc.read_registration import RegistrationRead
        reg = _srv.get_endpoint("registration")
        out = reg.process_request(reg.parse_request({"redirect_uris": DYN_URIS, "post_logout_redirect_uri": DYN_PL, "response_types": ["code"]}))
        DYN = out["response_args"]["client_id"]
        DYN_SECRET = out["response_args"]["client_secret"]
        PLREGS["dyn"] = [_own_split(DYN_PL)]
        REG["dyn"] = [_own_split(u) for u in DYN_URIS]
        global DYNN
        outn = reg.process_request(reg.parse_request({"redirect_uris": DYNN_URIS, "application_type": "native", "response_types": ["code"]}))
        DYNN = outn["response_args"]["client_id"]
        REG["dynn"] = [(u, None) for u in DYNN_URIS]      # what the client REGISTERED is what it sent
        rat = out["response_args"].get("registration_access_token")
        rd = _srv.get_endpoint("registration_read")
        if rd is not None and rat:
            try:
                rd.process_request(rd.parse_request(f"client_id={DYN}", http_info={"headers": {"authorization": "Bearer " + rat}}))
            except Exception:
                pass
    return _srv


def base_uri(entry):
    b, q = entry
    if q:
        return b + "?" + "&".join(f"{k}={v}" for k, vs in q.items() for v in vs)
    return b


MUTS = ["same", "scheme_case", "userinfo", "host_suffix", "host_prefix", "port_add", "port_change", "path_extra", "dotseg", "pct_slash", "pct_tab_path",
        "pct_tab_host", "lead_space", "trail_space", "raw_tab", "extra_q", "blank_q", "dup_q", "reorder_q", "fragment", "pct_fragment", "params",
        "empty_q", "trailing_slash", "pct_letter", "upper_host", "no_scheme", "backslash", "at_trick", "pct_q", "crlf", "double_slash", "port_zero", "bad_port", "empty", "drop_q", "other_q", "port_drop", "lower_all", "upper_path", "swapcase_path"]


def mutate(rng, uri, kind):
    try:
        p = urlsplit(uri)
    except ValueError:
        return uri + "~" + kind
    host = p.netloc
    if kind == "same":
        return uri
    if kind == "scheme_case":
        return uri[:1].upper() + uri[1:]
    if kind == "userinfo":
        return uri.replace("://", "://user@", 1)
    if kind == "host_suffix":
        return uri.replace(host, host + ".evil.com", 1) if host else uri + ".evil"
    if kind == "host_prefix":
        return uri.replace(host, "evil." + host, 1) if host else "evil" + uri
    if kind == "port_add":
        return uri.replace(host, host + ":1234", 1) if host and ":" not in host.rsplit("]", 1)[-1] else uri
    if kind == "port_drop":
        return re.sub(r":\d+(/|$)", lambda m: m.group(1), uri, 1)
    if kind == "port_change":
        return re.sub(r":(\d+)(/|$)", lambda m: ":%d%s" % (int(m.group(1)) + 1, m.group(2)), uri, 1)
    if kind == "path_extra":
        return uri.replace(p.path, p.path + "/x", 1) if p.path else uri + "/x"
    if kind == "dotseg":
        return uri.replace(p.path, "/a/.." + p.path, 1) if p.path else uri
    if kind == "pct_slash":
        return uri.replace(p.path, p.path.replace("/", "%2F", 1), 1) if p.path else uri
    if kind == "pct_tab_path":
        return uri.replace(p.path, p.path[:2] + "%09" + p.path[2:], 1) if p.path else uri
    if kind == "pct_tab_host":
        return uri.replace(host, host[:2] + "%09" + host[2:], 1) if host else uri
    if kind == "lead_space":
        return rng.choice(["%20", " ", "%00", "%0A"]) + uri
    if kind == "trail_space":
        return uri + rng.choice(["%20", " ", "%0A"])
    if kind == "raw_tab":
        return uri[:9] + "\t" + uri[9:]
    if kind == "extra_q":
        return uri + ("&" if "?" in uri else "?") + "x=1"
    if kind == "blank_q":
        return uri + ("&" if "?" in uri else "?") + rng.choice(["x=", "x", "="])
    if kind == "dup_q":
        return uri + "&foo=bar" if "?" in uri else uri + "?foo=bar"
    if kind == "reorder_q":
        return uri + "&a=1" if "?" in uri else uri + "?b=2&a=1"
    if kind == "fragment":
        return uri + "#frag"
    if kind == "pct_fragment":
        return uri + "%23frag"
    if kind == "params":
        return uri + ";x=1"
    if kind == "empty_q":
        return uri + ("&" if "?" in uri else "?")
    if kind == "trailing_slash":
        return uri + "/"
    if kind == "pct_letter":
        return uri.replace("cb", "%63b", 1)
    if kind == "lower_all":
        return uri.lower()
    if kind == "upper_path":
        return urlunsplit(p._replace(path=p.path.upper()))
    if kind == "swapcase_path":
        return urlunsplit(p._replace(path=p.path.swapcase()))
    if kind == "upper_host":
        return uri.replace(host, host.upper(), 1) if host else uri
    if kind == "no_scheme":
        return uri.split(":", 1)[1] if ":" in uri else uri
    if kind == "backslash":
        return uri.replace(host, "evil.com\\" + host, 1) if host else uri
    if kind == "at_trick":
        return uri.replace(host, host + "@evil.com", 1) if host else uri
    if kind == "pct_q":
        return uri + "%3Fx=1"
    if kind == "crlf":
        return uri + "%0d%0aSet-Cookie:x=1"
    if kind == "double_slash":
        return uri.replace(p.path, "/" + p.path, 1) if p.path else uri
    if kind == "port_zero":
        return uri.replace(host, host + ":0", 1) if host and ":" not in host.rsplit("]", 1)[-1] else uri
    if kind == "bad_port":
        return uri.replace(host, host + ":80a", 1) if host else uri
    if kind == "empty":
        return ""
    if kind == "drop_q":
        return uri.split("?")[0]
    if kind == "other_q":
        return uri.split("?")[0] + "?tenant=red" if "?" in uri else uri + "?tenant=red"
    return uri


STATES = ["x\" autofocus onfocus=\"alert(1)", "\"", "a'b", "q\"q'q", "st", "\"><script>alert(1)</script>", "a&b=c", "x#y", "a b+c", "é中", "'onload='x", "%26", "</form>", "&amp;", "a=b&redirect_uri=https://evil", "\n", "<!--"]


def cases(rng, tier):
    n = {"quick": 1, "thorough": 10, "search": 6}[tier]
    out = []
    server()
    for cid in (WEB, NATIVE, "dyn", "dynn"):
        for entry in REG[cid]:
            for kind in MUTS:
                for _ in range(n):
                    out.append({"t": "uri", "client": cid, "uri": mutate(rng, base_uri(entry), kind), "kind": kind})
    # combined mutations
    for _ in range(150 * n):
        cid = rng.choice([WEB, NATIVE, "dyn", "dynn"])
        u = base_uri(rng.choice(REG[cid]))
        for k in rng.sample(MUTS, 2):
            u = mutate(rng, u, k)
        out.append({"t": "uri", "client": cid, "uri": u, "kind": "combo"})
    # RP-initiated logout: post_logout_redirect_uri mutated like a redirect_uri, hostile state
    for entry in PLREG:
        for kind in MUTS:
            out.append({"t": "logout", "uri": mutate(rng, base_uri(entry), kind), "kind": kind, "state": rng.choice(STATES + [None])})
        for st in STATES:
            out.append({"t": "logout", "uri": base_uri(entry), "kind": "same", "state": st})
    for kind in MUTS:
        out.append({"t": "logout", "client": "dyn", "uri": mutate(rng, DYN_PL, kind), "kind": kind, "state": rng.choice(STATES + [None])})
    for _ in range(20 * n):
        u = base_uri(rng.choice(PLREG))
        for k in rng.sample(MUTS, 2):
            u = mutate(rng, u, k)
        out.append({"t": "logout", "uri": u, "kind": "combo", "state": rng.choice(STATES) if rng.random() < 0.7 else common.rnd_text(rng, 10)})
    # the redirect_uri that is IN EFFECT: a registered one in the clear, the mutated one inside a signed request object (by value /
    # by reference); an interactive provider, no session cookie; with prompt=none the only possible answer is an error — sent where?
    for fl in ("oidc", "oauth2"):
        for kind in (MUTS if tier != "quick" else rng.sample(MUTS, 6) + ["same"]):
            base = base_uri(rng.choice(REG[WEB]))
            u = base if kind == "same" else mutate(rng, base, kind)
            out.append({"t": "jar_uri", "fl": fl, "via": rng.choice(["request", "request_uri"]), "uri": u, "kind": kind, "prompt_none": rng.random() < 0.7,
                        "mode": rng.choice([None, None, "form_post", "fragment"])})
        out.append({"t": "jar_uri", "fl": fl, "via": "request_uri", "uri": "https://attacker.example.org/landing", "kind": "other-host", "prompt_none": True, "mode": None})
        out.append({"t": "jar_uri", "fl": fl, "via": "request", "uri": "https://attacker.example.org/landing", "kind": "other-host", "prompt_none": True, "mode": "form_post"})
    # no redirect_uri in the request at all (OAuth2: optional): the ONE registered URI is used — with its query — and only then
    for cid in NOURI:
        for st in rng.sample(STATES, 2) + ["plain"]:
            out.append({"t": "nouri", "client": cid, "state": st, "mode": rng.choice([None, None, "fragment", "form_post"])})
    for _ in range(60 * n):
        out.append({"t": "resp", "mode": rng.choice(["query", "fragment", "form_post", None]), "rt": rng.choice(["code", "code id_token", "id_token"]),
                    "state": rng.choice(STATES) if rng.random() < 0.8 else common.rnd_text(rng, 12), "reg": rng.randrange(2),
                    "variant": rng.choice([None, None, "empty_q", "scheme_case"])})
    return out


def _parsed_view(uri):
    """components exactly as verify_uri obtains them from urllib"""
    dec = unquote(uri)
    clean = not (dec[:1] <= " " or any(c in dec for c in "\t\r\n"))
    try:
        o = urlparse(dec)
        host = o.hostname
    except ValueError:
        return None
    try:
        port = o.port
        port_ok = True
    except ValueError:
        port, port_ok = None, False
    q = parse_qs(o.query, keep_blank_values=True)
    return {"clean": clean, "scheme": o.scheme, "netloc": o.netloc, "path": o.path, "params": o.params, "fragment": o.fragment,
            "host": host, "port_ok": port_ok, "has_port": bool(port), "query": q}


def _enc_parsed(v, q=None):
    l = ["1" if v["clean"] else "0", v["scheme"], v["netloc"], v["path"], v["params"], v["fragment"], "1" if v["host"] else "0",
         v["host"] or "", "1" if v["port_ok"] else "0", "1" if v["has_port"] else "0"]
    q = v["query"] if q is None else q
    ql = ["\x1f".join([k] + vs) for k, vs in sorted(q.items())]
    return enc_list(l), enc_list(ql)


def _logout(c):
    import json as _json
    import base64 as _b64
    from idpyoidc.message.oidc.session import EndSessionRequest
    s = server()
    w = logout_world(c.get("client"))
    ep = s.get_endpoint("session")
    args = {"id_token_hint": w["id_token"], "post_logout_redirect_uri": c["uri"]}
    if c["state"] is not None:
        args["state"] = c["state"]
    try:
        req = EndSessionRequest(**args)
        req.verify(keyjar=s.context.keyjar, sigalg="")
        out = ep.process_request(req, http_info={"cookie": w["cookie"]})
    except Exception as e:
        return {"r": "exc", "e": type(e).__name__}
    loc = out.get("redirect_location") if isinstance(out, dict) else None
    if not loc:
        return {"r": "error", "e": str(out)[:60]}
    sjwt = parse_qs(urlsplit(loc).query)["sjwt"][0]
    p = sjwt.split(".")[1]
    payload = _json.loads(_b64.urlsafe_b64decode(p + "=" * (-len(p) % 4)))
    return {"r": "ok", "uri": c["uri"], "target": payload["redirect_uri"], "first_hop": loc.split("?")[0], "payload_state": payload.get("state")}


NOURI = {"one": [("https://one.example.com/cb", {"a": ["b"]})], "oneplain": [("https://oneplain.example.com/cb", None)],
         "two": [("https://two.example.com/cb", None), ("https://two.example.com/cb2", None)], "none": [], "ghost": None}
_nsrv = None


def nouri_server():
    global _nsrv
    if _nsrv is None:
        from idpyoidc.server.oauth2.authorization import Authorization as OAuth2Authorization
        _nsrv = opbase.make_op(more_endpoints={"authorization": {"path": "authorization", "class": OAuth2Authorization, "kwargs": {}}})
        ctx = _nsrv.context
        for cid, reg in NOURI.items():
            if reg is not None:
                ctx.cdb[cid] = dict(ctx.cdb[WEB], client_id=cid, redirect_uris=list(reg))
    return _nsrv


def _nouri(c):
    ep = nouri_server().get_endpoint("authorization")
    req = {"client_id": c["client"], "response_type": "code", "scope": "openid", "state": c["state"]}
    if c.get("mode"):
        req["response_mode"] = c["mode"]
    try:
        pr = ep.parse_request(req)
    except Exception as e:
        return {"r": "direct", "how": "parse:" + type(e).__name__}
    if "error" in pr:
        return {"r": "direct", "how": "parse-error", "redirected": "redirect_location" in pr or "return_uri" in pr}
    try:
        out = ep.process_request(pr)
        issued = out.get("response_args")
        issued = issued.to_dict() if hasattr(issued, "to_dict") else None
        resp = ep.do_response(request=pr, **out)
    except Exception as e:
        return {"r": "direct", "how": "process:" + type(e).__name__}
    body = resp["response"]
    if "<html" in body.lower():
        fp = _FormParser(); fp.feed(body)
        return {"r": "sent", "kind": "form_post", "target": fp.action, "got": dict(fp.inputs), "issued": issued, "tags": sorted(set(fp.tags))}
    return {"r": "sent", "kind": "url", "target": body, "issued": issued}


_jsrv = {}


def jar_server(fl):
    """an INTERACTIVE provider (nobody is logged in without a session cookie), OIDC or plain OAuth2 authorization endpoint"""
    if fl not in _jsrv:
        from idpyoidc.server.user_authn.user import UserAuthnMethod

        class LoginPage(UserAuthnMethod):
            def __call__(self, **kwargs):
                return "<html><body>login page</body></html>"

        more = None
        if fl == "oauth2":
            from idpyoidc.server.oauth2.authorization import Authorization as OAuth2Authorization
            more = {"authorization": {"path": "authorization", "class": OAuth2Authorization, "kwargs": {}}}
        sv = opbase.make_op(more_endpoints=more, extra={"authentication": {"user": {
            "acr": "urn:oasis:names:tc:SAML:2.0:ac:classes:InternetProtocolPassword", "class": LoginPage, "kwargs": {}}}})
        sv.context.cdb[WEB]["redirect_uris"] = REG[WEB]
        _jsrv[fl] = sv
    return _jsrv[fl]


class _Fetched:
    def __init__(self, text):
        self.status_code, self.status, self.text, self.headers = 200, 200, text, {"content-type": "application/jwt"}


def _jar_uri(c):
    from cryptojwt.jwt import JWT
    from cryptojwt.key_jar import KeyJar
    sv = jar_server(c["fl"])
    ep = sv.get_endpoint("authorization")
    kj = KeyJar()
    kj.add_symmetric(WEB, sv.context.cdb[WEB]["client_secret"])
    inner = dict(client_id=WEB, response_type="code", scope="openid", state="STATE", nonce="n", redirect_uri=c["uri"])
    if c["prompt_none"]:
        inner["prompt"] = "none"
    if c.get("mode"):
        inner["response_mode"] = c["mode"]
    ro = JWT(key_jar=kj, iss=WEB, sign_alg="HS256", lifetime=300).pack(inner, aud=sv.context.issuer)
    outer = dict(client_id=WEB, response_type="code", scope=["openid"], redirect_uri=base_uri(REG[WEB][0]), state="STATE", nonce="n")
    if c["via"] == "request":
        outer["request"] = ro
    else:
        uri = outer["request_uri"] = "https://rp.example.com/request_objects/ro.jwt"
        sv.context.httpc = lambda method, url, **kw: _Fetched(ro if url == uri else "")
    try:
        pr = ep.parse_request(AuthorizationRequest(**outer).to_dict(), http_info={})
    except Exception as e:
        return {"r": "direct", "how": "parse:" + type(e).__name__}
    if "error" in pr:
        return {"r": "direct", "how": "parse-error", "redirected": "redirect_location" in pr or "return_uri" in pr}
    eff = pr.get("redirect_uri")
    try:
        out = ep.process_request(pr, http_info={})
    except Exception as e:
        return {"r": "direct", "how": "process:" + type(e).__name__, "effective": eff}
    target = None
    from idpyoidc.message.oauth2 import ResponseMessage
    if isinstance(out, ResponseMessage) and "error" in out:
        return {"r": "direct", "how": "process-error", "effective": eff}
    if isinstance(out, dict) and not ("function" in out or ("http_response" in out and "error" not in out)):
        # what the web framework does with the endpoint's answer (the login_required error travels here too, as error + return_uri)
        try:
            resp = ep.do_response(request=pr, **out)
            if resp.get("response_placement") != "body":
                body = resp["response"]
                if "<html" in body.lower():
                    fp = _FormParser(); fp.feed(body); target = fp.action
                else:
                    target = body
        except Exception as e:
            return {"r": "direct", "how": "respond:" + type(e).__name__, "effective": eff}
    if target is not None and not urlsplit(target).scheme:
        target = None          # no URI in front of the parameters (an error rendered for the fragment without its return_uri): nothing is sent anywhere
    how = "error" if isinstance(out, dict) and out.get("error") else ("login-page" if isinstance(out, dict) and "function" in out else "other")
    return {"r": "sent" if target else "direct", "target": target, "how": how, "effective": eff}


def impl(c):
    if c["t"] == "jar_uri":
        return _jar_uri(c)
    if c["t"] == "nouri":
        return _nouri(c)
    s = server()
    ep = s.get_endpoint("authorization")
    if c["t"] == "logout":
        return _logout(c)
    if c["t"] == "uri":
        req = AuthorizationRequest(client_id={"dyn": DYN, "dynn": DYNN}.get(c["client"], c["client"]), redirect_uri=c["uri"], scope=["openid"], state="st", response_type="code", nonce="n")
        try:
            pr = ep.parse_request(req.to_dict())
        except Exception as e:
            return {"r": "exc", "e": type(e).__name__}
        if "error" in pr:
            return {"r": "error", "e": pr["error"], "redirected": "redirect_location" in pr or "return_uri" in pr}
        return {"r": "ok", "uri": pr["redirect_uri"]}
    # response delivery
    uri = base_uri(REG[WEB][c["reg"]])
    if c.get("variant"):
        uri = mutate(None, uri, c["variant"])       # a differently spelled but matching redirect_uri: the response must go exactly there
    args = dict(client_id=WEB, redirect_uri=uri, scope=["openid"], state=c["state"], response_type=c["rt"].split(" "), nonce="n0")
    if c["mode"]:
        args["response_mode"] = c["mode"]
    try:
        pr = ep.parse_request(AuthorizationRequest(**args).to_dict())
        if "error" in pr:
            return {"r": "error", "e": pr["error"]}
        out = ep.process_request(pr)
        if "response_args" in out and "error" in out.get("response_args", {}) or ("error" in out and "response_args" not in out and "response_msg" not in out):
            return {"r": "error", "e": "process"}
        issued = out.get("response_args")
        issued = issued.to_dict() if hasattr(issued, "to_dict") else None
        resp = ep.do_response(**out, request=pr)
    except Exception as e:
        return {"r": "exc", "e": type(e).__name__}
    body = resp["response"]
    o = {"r": "ok", "uri": uri, "body": body, "issued": issued}
    if "<html" in body.lower():
        o["kind"] = "form_post"
        if issued is None:      # form_post pages are rendered from the args before do_response: recover them from the page for the oracle
            o["issued"] = None
    else:
        o["kind"] = "fragment" if "#" in body[len(uri):] else "query"
    return o


def _verify_line(uri, native, reg):
    v = _parsed_view(uri)
    if v is None:
        return None
    args = ["redir", "verify", "1" if native else "0", "1"] + list(_enc_parsed(v))
    for b, q in reg:
        o = urlparse(b)._replace(query=None)
        rv = {"clean": True, "scheme": o.scheme, "netloc": o.netloc, "path": o.path, "params": o.params, "fragment": o.fragment,
              "host": o.hostname, "port_ok": True, "has_port": bool(o.port), "query": q or {}}
        args += list(_enc_parsed(rv))
    return "\t".join(args)


def model_lines(c, obs):
    if c["t"] == "nouri":
        # the delivery model on the registered URI put together from its stored (base, query) pair
        reg = NOURI[c["client"]]
        if obs["r"] != "sent" or obs.get("kind") != "url" or obs["issued"] is None or not reg or len(reg) != 1:
            return []
        b, q = reg[0]
        uri = b + ("?" + "&".join(f"{k}={x}" for k, xs in q.items() for x in xs) if q else "")
        flat = []
        for k, v in obs["issued"].items():
            if isinstance(v, list):
                v = " ".join(v)
            flat += [str(k).encode().decode("latin-1"), str(v).encode().decode("latin-1")]
        return ["\t".join(["redir", "deliver", "fragment" if c.get("mode") == "fragment" else "query", enc_str(uri), enc_list(flat)])]
    s = server()
    if c["t"] == "jar_uri":
        # the model is asked about the redirect_uri that is in effect: the one inside the object
        if c["uri"] == "":
            return []
        l = _verify_line(c["uri"], False, REG[WEB])
        return [l] if l else []
    if c["t"] == "logout":
        if c["uri"] == "":
            return []
        l = _verify_line(c["uri"], False, PLREGS[c.get("client")])
        if l is None:
            return []
        lines = [l]
        if obs["r"] == "ok":
            ps = [] if not c["state"] else ["state", c["state"].encode().decode("latin-1")]      # a blank state is no parameter
            lines.append("\t".join(["redir", "deliver", "query", enc_str(c["uri"]), enc_list(ps)]))
        return lines
    if c["t"] == "uri":
        if c["uri"] == "":
            return []          # a blank value is not stored in the request at all: the "missing redirect_uri" path, not verify_uri
        v = _parsed_view(c["uri"])
        if v is None:
            return []
        native = c["client"] in (NATIVE, "dynn")
        args = ["redir", "verify", "1" if native else "0", "1"] + list(_enc_parsed(v))
        for b, q in REG[c["client"]]:
            o = urlparse(b)._replace(query=None)
            rv = {"clean": True, "scheme": o.scheme, "netloc": o.netloc, "path": o.path, "params": o.params, "fragment": o.fragment,
                  "host": o.hostname, "port_ok": True, "has_port": bool(o.port), "query": q or {}}
            args += list(_enc_parsed(rv))
        return ["\t".join(args)]
    if obs["r"] != "ok" or obs["issued"] is None:
        return []
    lines = []
    if obs["kind"] in ("query", "fragment"):
        flat = []
        for k, v in obs["issued"].items():
            if isinstance(v, list):
                v = " ".join(v)
            flat += [str(k).encode().decode("latin-1"), str(v).encode().decode("latin-1")]
        lines.append("\t".join(["redir", "deliver", obs["kind"], enc_str(obs["uri"]), enc_list(flat)]))
    else:
        lines.append("redir\tescape\t" + enc_str(c["state"]))
    return lines


def compare(c, obs, outs):
    if c["t"] == "nouri":
        if not outs:
            return []
        m = dec_str(outs[0])
        return [] if m == obs["target"] else [f"no redirect_uri in the request, client {c['client']}: model delivers to {m!r}, implementation to {obs['target']!r}"]
    if c["t"] == "jar_uri":
        if not outs:
            return [] if (obs["r"] == "direct" or c["uri"] == "") else [f"the decoded inner value is not parseable but something was sent: {obs}"]
        # the matcher refuses the effective URI -> nothing is sent anywhere; it accepts -> with prompt=none the error goes to that URI
        # one direction only: what the matcher refuses is never a target (an accepted URI may still end in a directly returned error
        # for reasons of its own — prompt=none beside a response_mode, an error message without its required members)
        if outs[0] != "ok" and obs["r"] == "sent":
            return [f"request object redirect_uri ({c['via']}, {c['fl']}): model={outs[0]} but the user agent is sent to {obs['target']!r}"]
        return []
    if c["t"] == "logout":
        if not outs:
            if c["uri"] == "":      # no post_logout_redirect_uri at all: the provider's own page, no state
                return [] if obs["r"] == "ok" and obs["target"] == "https://example.com/post_logout" else [f"blank post_logout_redirect_uri: {obs}"]
            return [] if obs["r"] != "ok" else [f"the decoded value is not parseable but the endpoint answered {obs}"]
        want = {"ok": "ok", "uriError": "exc", "redirectError": "exc"}[outs[0]]
        if want != obs["r"]:
            return [f"verdict: model={outs[0]} impl={obs}"]
        if obs["r"] == "ok" and len(outs) > 1 and dec_str(outs[1]) != obs["target"]:
            return [f"post-logout target: model={dec_str(outs[1])!r} impl={obs['target']!r}"]
        return []
    if c["t"] == "uri":
        if not outs and c["uri"] == "":
            return []
        if not outs:
            return [] if obs["r"] == "exc" else [f"urllib raised on the decoded value but the endpoint answered {obs['r']}"]
        want = {"ok": "ok", "uriError": "exc", "redirectError": "error"}[outs[0]]
        return [] if want == obs["r"] else [f"verdict: model={outs[0]} impl={obs}"]
    if not outs:
        return []
    m = dec_str(outs[0])
    if obs["kind"] in ("query", "fragment"):
        return [] if m == obs["body"] else [f"delivered string: model={m!r} impl={obs['body']!r}"]
    # escaped state must occur as the value of the state field
    want = 'name="state" value="%s"' % m
    return [] if want in obs["body"] else [f"form field: model expects {want!r} in page"]


RFC = re.compile(r"^(([^:/?#]+):)?(//([^/?#]*))?([^?#]*)(\?([^#]*))?(#(.*))?")


def rfc_parts(u):
    m = RFC.match(u)
    return {"scheme": (m.group(2) or "").lower(), "authority": m.group(4), "path": m.group(5), "query": m.group(7), "fragment": m.group(9)}


class _FormParser(html.parser.HTMLParser):
    def __init__(self):
        super().__init__()
        self.tags, self.inputs, self.action = [], {}, None

    def handle_starttag(self, tag, attrs):
        self.tags.append(tag)
        a = dict(attrs)
        if tag == "form":
            self.action = a.get("action")
        if tag == "input":
            self.inputs[a.get("name")] = a.get("value")
            extra = set(a) - {"type", "name", "value"}
            if extra:
                self.tags.append("input+" + ",".join(sorted(extra)))


def _registered(dec, reg, native=False):
    got = rfc_parts(dec)
    for b, q in reg:
        r = rfc_parts(b)
        if got["scheme"] == r["scheme"] and got["authority"] == r["authority"] and got["path"] == r["path"] and got["fragment"] is None \
                and parse_qs(got["query"] or "", keep_blank_values=True) == (q or {}):
            return (b, q)
    return None


def oracle(c, obs):
    v = []
    if c["t"] == "logout":
        if obs["r"] != "ok" or c["uri"] == "":       # a blank value is no post_logout_redirect_uri at all: the provider's own page
            return v
        if obs["first_hop"] != "https://example.com/verify_logout":
            v.append({"cls": "logout-first-hop-not-the-provider"})
        reg = _registered(unquote(c["uri"]), PLREGS[c.get("client")])
        if reg is None:
            v.append({"cls": "accepted-unregistered", "kind": c["kind"], "uri": c["uri"], "which": "post_logout_redirect_uri"})
            return v
        # where the user agent ends up: the URI the client sent plus exactly the state it sent, nothing else
        t = rfc_parts(obs["target"])
        sent = rfc_parts(c["uri"])
        # (a blank state is no parameter at all: the message layer does not carry it)
        want_q = parse_qsl(sent["query"] or "", keep_blank_values=True) + ([("state", c["state"])] if c["state"] else [])
        got_q = parse_qsl(t["query"] or "", keep_blank_values=True)
        if (t["scheme"], t["authority"], t["path"]) != (sent["scheme"], sent["authority"], sent["path"]) or t["fragment"] is not None or got_q != want_q:
            v.append({"cls": "post-logout-target-altered", "has_query": bool(reg[1]), "want": want_q, "got": got_q, "fragment": t["fragment"]})
        return v
    if c["t"] == "nouri":
        reg = NOURI[c["client"]]
        if obs.get("redirected"):
            v.append({"cls": "mismatch-redirects"})
        if obs["r"] == "sent":
            if not reg or len(reg) != 1:
                v.append({"cls": "accepted-unregistered", "kind": "no-redirect-uri", "uri": obs["target"], "which": "request without redirect_uri", "registered": len(reg or [])})
                return v
            b, q = reg[0]
            t = obs["target"]
            got = rfc_parts(t.split("#")[0])
            r = rfc_parts(b)
            want_q = [(k, x) for k, xs in (q or {}).items() for x in xs]
            gq = parse_qsl(got["query"] or "", keep_blank_values=True)
            if (got["scheme"], got["authority"], got["path"]) != (r["scheme"], r["authority"], r["path"]) or gq[: len(want_q)] != want_q:
                v.append({"cls": "accepted-unregistered", "kind": "no-redirect-uri", "uri": t, "which": "request without redirect_uri", "registered": 1})
            if obs["kind"] == "url":
                pairs = parse_qsl(urlsplit(t).fragment, keep_blank_values=True) if c.get("mode") == "fragment" else gq[len(want_q):]
                delivered = dict(pairs)
            else:
                delivered = {k: x for k, x in obs["got"].items()}
                if obs["tags"] != ["body", "form", "head", "html", "input", "title"]:
                    v.append({"cls": "markup-injected", "tags": obs["tags"]})
            issued = {k: (" ".join(x) if isinstance(x, list) else str(x)) for k, x in (obs["issued"] or {}).items()}
            if obs["issued"] is not None and delivered != issued:
                v.append({"cls": "delivered-params-differ", "got": delivered, "issued": issued})
            if delivered.get("state") != c["state"]:
                v.append({"cls": "state-differs"})
        elif reg and len(reg) == 1 and str(obs.get("how", "")).startswith("parse"):
            # (a failure further on — e.g. response_mode=fragment for a code, F-C12-d — is not a matter of where responses go)
            v.append({"cls": "single-registered-uri-not-used", "client": c["client"], "how": obs.get("how")})
        return v
    if c["t"] == "jar_uri":
        if obs.get("redirected"):
            v.append({"cls": "mismatch-redirects"})
        if obs["r"] == "sent":
            t = obs["target"]
            base = t.split("#")[0]
            dec = unquote(base)
            got = rfc_parts(dec)
            ok = False
            for b, q in REG[WEB]:
                r = rfc_parts(b)
                gq = [kv for kv in parse_qsl(got["query"] or "", keep_blank_values=True) if kv[0] not in ("error", "error_description", "state", "code", "iss", "client_id", "session_state", "scope")]
                if got["scheme"] == r["scheme"] and got["authority"] == r["authority"] and got["path"] == r["path"] \
                        and sorted(gq) == sorted((k, x) for k, xs in (q or {}).items() for x in xs):
                    ok = True
            if not ok:
                v.append({"cls": "accepted-unregistered", "kind": c["kind"], "uri": c["uri"], "which": "redirect_uri inside a request object", "via": c["via"], "endpoint": c["fl"]})
        return v
    if c["t"] == "uri":
        if obs["r"] == "error" and obs.get("redirected"):
            v.append({"cls": "mismatch-redirects"})
        if obs["r"] != "ok":
            return v
        dec = unquote(c["uri"])
        got = rfc_parts(dec)
        native = c["client"] in (NATIVE, "dynn")
        ok = False
        for b, q in REG[c["client"]]:
            r = rfc_parts(b)
            auth_g, auth_r = got["authority"], r["authority"]
            if native and r["scheme"] == "http" and auth_r and re.match(r"^(127\.0\.0\.1|\[::1\])(:\d+)?$", auth_r):
                auth_g = re.sub(r":\d+$", "", auth_g or "")
                auth_r = re.sub(r":\d+$", "", auth_r)
            if got["scheme"] == r["scheme"] and auth_g == auth_r and got["path"] == r["path"] and got["fragment"] is None \
                    and parse_qs(got["query"] or "", keep_blank_values=True) == (q or {}):
                ok = True
        if not ok:
            cls = "accepted-unregistered"
            v.append({"cls": cls, "kind": c["kind"], "uri": c["uri"]})
        if obs["uri"] != c["uri"]:
            v.append({"cls": "target-rewritten"})
        return v
    if obs["r"] != "ok":
        return v
    body, uri = obs["body"], obs["uri"]
    if obs["kind"] == "form_post":
        p = _FormParser()
        p.feed(body)
        if sorted(set(p.tags)) != ["body", "form", "head", "html", "input", "title"]:
            v.append({"cls": "markup-injected", "tags": sorted(set(p.tags))})
        if p.action != uri:
            v.append({"cls": "form-action-differs"})
        if p.inputs.get("state") != (c["state"] or None):
            v.append({"cls": "form-state-differs", "got": p.inputs.get("state")})
    else:
        if not body.startswith(uri):
            v.append({"cls": "target-changed"})
        sp = urlsplit(body)
        # what a relying party's HTTP stack sees: the fragment, or the query minus what the registered URI already had
        if obs["kind"] == "fragment":
            pairs = parse_qsl(sp.fragment, keep_blank_values=True)
        else:
            pairs = parse_qsl(sp.query, keep_blank_values=True)
            for kv in parse_qsl(urlsplit(uri).query, keep_blank_values=True):
                if kv in pairs:
                    pairs.remove(kv)
        got = dict(pairs)
        issued = {k: (" ".join(x) if isinstance(x, list) else str(x)) for k, x in (obs["issued"] or {}).items()}
        if obs["issued"] is not None and got != issued:
            v.append({"cls": "delivered-params-differ", "got": got, "issued": issued})
        if got.get("state") != (c["state"] or None):
            v.append({"cls": "state-differs"})
    return v


def known_key(c, v, known):
    return common.known_key(c, v, known)


def classify(c, obs):
    if c["t"] == "nouri":
        return f"nouri:{c['client']}:{obs['r']}:{obs.get('how') or obs.get('kind')}"
    if c["t"] == "jar_uri":
        return f"jar_uri:{c['fl']}:{c['via']}:{obs['r']}:{obs.get('how')}"
    if c["t"] == "uri":
        return f"uri:{c['client']}:{obs['r']}"
    if c["t"] == "logout":
        return f"logout:{obs['r']}"
    return f"resp:{obs.get('kind')}:{obs['r']}"


def nontrivial(c, obs):
    if c["t"] == "nouri":
        return True
    if c["t"] in ("uri", "jar_uri"):
        return c["kind"] != "same"
    if c["t"] == "logout" and c["kind"] != "same":
        return True
    return any(ch in (c["state"] or "") for ch in "<>\"'&#= +%é\n")
