"""C09 — the relying party binds every response to its own state, nonce and issuer."""
import json
from urllib.parse import urlsplit, parse_qs
import common
import clock
from common import enc_str
import rpbase
from rpbase import ISS, ISSJ, CID

clock.install()
T0 = 1_800_000_000
RULE = ("cases: histories over an RPHandler with one real StandAloneClient per issuer (two issuers played by the harness: it mints codes, signs "
        "ID tokens with the issuer's keys, answers the token and userinfo endpoints) and several pending flows of several users; responses are "
        "recombined from genuine parameters across flows: state of A with code of B, an ID token of A in the token response of B, user info of "
        "another subject, a response of issuer I delivered for issuer J, `iss` / `client_id` response parameters naming the right / another "
        "party, missing, unknown and truncated state values, hybrid responses with an ID token of another flow, a `sub` chosen to equal "
        "another flow's nonce. After every step the outcome (accepted / rejected) and a canonical dump of every client's state store (_db "
        "records and the nonce/sub map) are compared with the Lean model; oracle: a rejected step leaves every store untouched, an accepted step "
        "changes only the record of its own state, every recorded ID token carries the nonce sent for its state, recorded user info is about "
        "the ID token's subject. non-trivial: a history with at least one cross-wired delivery")
MODELLED = ("modelled: Current (_db/_map), init_authorization bookkeeping, finalize_auth (AuthorizationResponse.verify iss/client_id parameters, "
            "unknown state, issuer of the state), the OIDC nonce checks at both endpoints, UserInfo.post_parse_response sub check, RPHandler "
            "dispatch per issuer. NOT modelled: validity of the ID tokens themselves (C08), HTTP, logout bookkeeping (sid)")
ASSUMPTIONS = ["state and nonce values are fresh (rndstr)", "ID tokens inside responses are individually valid (C08)"]
ISSUERS = [ISS, ISSJ]
WHO = {ISS: "op", ISSJ: "j"}
USERS = ["alice", "bob", "carol"]
STATS = {"steps": 0, "rejected": 0}


class Resp:
    def __init__(self, status, text):
        self.status_code = status; self.text = text; self.headers = {"content-type": "application/json"}; self.url = ""


class FakeOP:
    """the provider side: mints codes, answers token and userinfo requests; `plan` lets the harness cross-wire the next answer"""

    def __init__(self, iss):
        self.iss = iss; self.codes = {}; self.ats = {}; self.n = 0; self.plan = {}; self.last = None

    def code_for(self, flow):
        self.n += 1
        code = f"code-{WHO[self.iss]}-{self.n}"
        self.codes[code] = flow
        return code

    def at_for(self, flow):
        """the access token the authorization endpoint hands out for this flow (response types with `token`)"""
        self.n += 1
        at = f"aat-{WHO[self.iss]}-{self.n}"
        self.ats[at] = flow
        return at

    def idtoken(self, nonce, sub, at=None, code=None):
        from idpyoidc.message.oidc import left_hash
        cl = {"iss": self.iss, "sub": sub, "aud": [CID], "exp": clock.CLOCK.t + 600, "iat": clock.CLOCK.t}
        if nonce is not None:
            cl["nonce"] = nonce
        if at:
            cl["at_hash"] = left_hash(at, "HS256")
        if code:
            cl["c_hash"] = left_hash(code, "HS256")
        return rpbase.sign(cl, WHO[self.iss] + "-rsa")

    def __call__(self, method, url, data=None, headers=None, **kw):
        if url.startswith(self.iss + "/token"):
            q = {k: v[0] for k, v in parse_qs(data).items()}
            flow = self.codes.get(q.get("code"))
            if flow is None:
                self.last = None
                return Resp(400, json.dumps({"error": "invalid_grant"}))
            idt_flow = self.plan.get("idt_flow", flow)          # whose ID token goes into this answer
            self.n += 1
            at = f"at-{WHO[self.iss]}-{self.n}"
            self.ats[at] = flow
            out = {"access_token": at, "token_type": "Bearer"}
            if self.plan.get("resp_state"):
                out["state"] = self.plan["resp_state"]       # a member the token response has no business with: it must not steer anything
            idt = None
            if self.plan.get("idt", True):
                nonce = None if self.plan.get("drop_nonce") else idt_flow["nonce"]
                sub = self.plan.get("sub") or "sub-" + idt_flow["user"]
                out["id_token"] = self.idtoken(nonce, sub, at)
                idt = [nonce, sub]
            self.last = {"at": at, "idt": idt}
            return Resp(200, json.dumps(out))
        if url.startswith(self.iss + "/userinfo"):
            at = (headers or {}).get("Authorization", "")[7:]
            flow = self.ats.get(at)
            if flow is None:
                self.last = None
                return Resp(401, json.dumps({"error": "invalid_token"}))
            sub = self.plan.get("sub") or "sub-" + self.plan.get("user", flow["user"])
            self.last = {"sub": sub}
            return Resp(200, json.dumps({"sub": sub, "name": flow["user"]}))
        return Resp(404, "{}")          # e.g. the key jar refreshing jwks_uri


class World:
    def __init__(self):
        from idpyoidc.client.rp_handler import RPHandler
        clock.CLOCK.t = T0
        self.ops = {i: FakeOP(i) for i in ISSUERS}
        self.rph = RPHandler(base_url="https://rp.example.com", client_configs={})
        for i in ISSUERS:
            self.rph.issuer2rp[i] = rpbase.make_rp(iss=i, httpc=self.ops[i])
        self.flows = []

    def crash(self, mode="ctx"):
        """C13 (relying-party side): export every client's service context, discard the clients, build fresh ones from the same
        configuration and import — pending flows, tokens and bindings must survive"""
        for i in ISSUERS:
            old = self.rph.issuer2rp[i]
            store = old.get_context().dump()
            if mode == "json":
                store = json.loads(json.dumps(store))
            new = rpbase.make_rp(iss=i, httpc=self.ops[i])
            new.get_context().load(store)
            self.rph.issuer2rp[i] = new

    def dump(self):
        out = {}
        for i in ISSUERS:
            cs = self.rph.issuer2rp[i].get_context().cstate
            recs = {}
            for s, r in cs._db.items():
                idt = r.get("__verified_id_token")
                recs[s] = [r.get("nonce"), r.get("code"), r.get("access_token"), [idt.get("nonce"), idt.get("sub")] if idt else None, r.get("sub")]
            out[i] = {"db": recs, "map": dict(cs._map)}
        return out


def gen(rng, n):
    ops, nflows = [], 0
    for _ in range(n):
        k = rng.choice(["begin", "begin", "authz", "authz", "authz", "tokens", "tokens", "userinfo", "finalize"])
        if k == "begin" or nflows == 0:
            ops.append(["begin", rng.randrange(2), rng.choice(USERS), rng.choice(["code", "code", "code id_token", "code id_token token", "code id_token token"])]); nflows += 1
            continue
        f = rng.randrange(nflows)
        other = rng.randrange(nflows)
        cross = rng.random() < 0.35
        if k in ("authz", "finalize"):
            # "nonce" / "sub": a value that was never issued as a state but that the client's store knows as a key of another kind
            # (the nonce of a pending flow, the subject of a finished login) — an alias is not a state
            st = rng.choice(["own", "own", "own", "own", "unknown", "truncated", "missing", "nonce", "nonce", "sub"]) if cross else "own"
            ops.append([k, {"to": rng.choice(["own", "own", "own", "other"]) if cross else "own", "state_of": f, "state": st, "code_of": other if cross else f,
                            "iss": rng.choice([None, "own", "own", "other"]) if cross else rng.choice([None, "own"]),
                            "cid": rng.choice([None, "own", "other"]) if cross else None,
                            "idt_of": (other if cross and rng.random() < 0.5 else f),
                            # (response types with `token`) whose access token travels beside the code and the ID token
                            "at_of": (other if cross and rng.random() < 0.6 else "idt"),
                            # a response parameter `aud` (the OIDC response class looks at one): naming this client, or somebody else
                            "resp_aud": rng.choice([None, None, None, "own", "other"]) if cross else rng.choice([None, None, None, "own"]),
                            # a parameter the response has no business with: the nonce of another flow / of the attacker's choosing
                            "resp_nonce_of": rng.choice([None, None, other, "attacker"]) if cross else None}])
        elif k == "tokens":
            ops.append(["tokens", {"flow": f, "idt_of": other if cross else f, "idt": rng.random() < 0.9, "drop_nonce": cross and rng.random() < 0.2,
                                   "sub": rng.choice([None, None, "nonce-of", "sub-mallory"]) if cross else None, "sub_of": other,
                                   "resp_state_of": rng.choice([None, None, other, f]) if cross else None}])
        else:
            ops.append(["userinfo", {"flow": f, "user_of": other if cross else f}])
    return ops


def cases(rng, tier):
    n = {"quick": 120, "thorough": 2500, "search": 1200}[tier]
    out = [{"t": "hist", "ops": gen(rng, rng.randint(5, 14))} for _ in range(n)]
    # the plain OAuth2 client (its services are a class family of their own), configured statically the way the social-login examples are:
    # issuer at the top level, provider_info holding endpoints only
    for _ in range({"quick": 12, "thorough": 200, "search": 100}[tier]):
        ops = [["begin"]]
        for _ in range(rng.randint(2, 6)):
            ops.append(rng.choice([["begin"], ["authz", {"flow": rng.randrange(3), "iss": rng.choice([None, "own", "other", "other"]),
                                                           "state": rng.choice(["own", "own", "own", "unknown"])}]]))
        out.append({"t": "o2", "ops": ops})
    return out


def _o2_impl(c):
    from idpyoidc.client.oauth2.stand_alone_client import StandAloneClient
    conf = {"base_url": "https://rp.example.com", "client_id": CID, "client_type": "oauth2", "client_secret": rpbase.SECRET,
            "redirect_uris": ["https://rp.example.com/cb"], "issuer": ISS,
            "provider_info": {"authorization_endpoint": ISS + "/authorization", "token_endpoint": ISS + "/token"}}
    rp = StandAloneClient(config=conf, httpc=FakeOP(ISS))
    rp.do_provider_info()
    rp.do_client_registration()
    flows, steps = [], []
    for o in c["ops"]:
        if o[0] == "begin":
            url = rp.init_authorization(req_args={"response_type": "code"})
            st = parse_qs(urlsplit(url).query)["state"][0]
            flows.append({"state": st, "code": "code-o2-%d" % len(flows)})
            steps.append({"r": "ok", "model": ["begin", ISS, st, None]})
            continue
        a = o[1]
        fl = flows[a["flow"] % len(flows)]
        st = fl["state"] if a["state"] == "own" else "no-such-state-0123456789abcdef"
        resp = {"code": fl["code"], "state": st}
        if a["iss"]:
            resp["iss"] = ISS if a["iss"] == "own" else ISSJ
        rec = {"model": ["authz", ISS, st, fl["code"], resp.get("iss"), None, None], "foreign_iss": a["iss"] == "other", "known_state": a["state"] == "own"}
        try:
            rp.finalize_auth(resp)
            rec["r"] = "ok"
        except Exception as e:
            rec["r"], rec["how"] = "rej", type(e).__name__
        try:
            rec["stored_code"] = rp.get_context().cstate.get(fl["state"]).get("code")
        except Exception:
            rec["stored_code"] = None
        rec["code"] = fl["code"]
        steps.append(rec)
    return {"steps": steps}


def corpus():
    f0 = {"to": "own", "state_of": 0, "state": "own", "code_of": 0, "iss": None, "cid": None, "idt_of": 0}
    return [
        # a response whose state is the NONCE of the other pending flow / the subject of a finished login (keys of the binding map, not states)
        {"t": "hist", "ops": [["begin", 0, "alice", "code"], ["begin", 0, "bob", "code"], ["authz", dict(f0, state="nonce", code_of=1)], ["authz", dict(f0, state="nonce", code_of=0)],
                              ["authz", f0], ["tokens", {"flow": 0, "idt_of": 0, "idt": True, "drop_nonce": False, "sub": None, "sub_of": 0}], ["finalize", dict(f0, state="nonce", code_of=1)],
                              ["authz", dict(f0, state="sub", code_of=1)], ["authz", dict(f0, state_of=1, code_of=1, idt_of=1)]]},
        # an authorization response with an extra nonce parameter, then an ID token carrying that nonce (hybrid flow), then the token response likewise
        {"t": "hist", "ops": [["begin", 0, "alice", "code id_token"], ["begin", 0, "bob", "code id_token"],
                              ["authz", dict(f0, resp_nonce_of=1)], ["authz", dict(f0, idt_of=1)],
                              ["tokens", {"flow": 0, "idt_of": 1, "idt": True, "drop_nonce": False, "sub": None, "sub_of": 1}]]},
        # a token response naming another pending flow's state (same issuer), with that flow's ID token or with this one's
        {"t": "hist", "ops": [["begin", 0, "alice", "code"], ["begin", 0, "bob", "code"], ["authz", f0], ["authz", dict(f0, state_of=1, code_of=1, idt_of=1)],
                              ["tokens", {"flow": 1, "idt_of": 0, "idt": True, "drop_nonce": False, "sub": None, "sub_of": 0, "resp_state_of": 0}],
                              ["tokens", {"flow": 1, "idt_of": 1, "idt": True, "drop_nonce": False, "sub": None, "sub_of": 0, "resp_state_of": 0}]]},
        # F-C09-a: a sub equal to the other flow's nonce, then that flow's nonce in a token response of this flow
        {"t": "hist", "ops": [["begin", 0, "alice", "code"], ["begin", 0, "bob", "code"], ["authz", f0],
                              ["tokens", {"flow": 0, "idt_of": 0, "idt": True, "drop_nonce": False, "sub": "nonce-of", "sub_of": 1}],
                              ["authz", f0], ["tokens", {"flow": 0, "idt_of": 1, "idt": True, "drop_nonce": False, "sub": None, "sub_of": 1}]]},
        # F-C09-c: a response parameter `aud` naming somebody else, beside another flow's ID token (hybrid)
        {"t": "hist", "ops": [["begin", 0, "alice", "code id_token"], ["begin", 0, "bob", "code id_token"],
                              ["authz", dict(f0, state_of=1, code_of=0, idt_of=0, resp_aud="other")], ["authz", dict(f0, state_of=1, code_of=1, idt_of=1, resp_aud="other")],
                              ["authz", dict(f0, state_of=1, code_of=1, idt_of=1, resp_aud="own")]]},
        # hybrid with `token`: state, code and ID token of one flow, the access token (or the code) of another; then the genuine response
        {"t": "hist", "ops": [["begin", 0, "alice", "code id_token token"], ["begin", 0, "bob", "code id_token token"],
                              ["authz", dict(f0, state_of=1, code_of=1, idt_of=1, at_of=0)], ["authz", dict(f0, state_of=1, code_of=0, idt_of=1, at_of="idt")],
                              ["authz", dict(f0, state_of=1, code_of=1, idt_of=1, at_of="idt")], ["userinfo", {"flow": 1, "user_of": 1}]]},
        {"t": "hist", "ops": [["begin", 0, "alice", "code"], ["begin", 1, "carol", "code"], ["authz", dict(f0, to="other")], ["authz", dict(f0, iss="other")],
                              ["authz", dict(f0, state="unknown")], ["authz", dict(f0, code_of=1)], ["tokens", {"flow": 0, "idt_of": 0, "idt": True, "drop_nonce": False, "sub": None, "sub_of": 0}]]},
    ]


def impl(c):
    if c.get("t") == "o2":
        return _o2_impl(c)
    W = World()
    steps = []
    for o in c["ops"]:
        STATS["steps"] += 1
        before = W.dump()
        rec = {"model": None}
        try:
            if o[0] == "crash":
                W.crash(o[1])
                rec.update(r="ok", model=None)
            elif o[0] == "begin":
                iss = ISSUERS[o[1]]
                rp = W.rph.issuer2rp[iss]
                url = rp.init_authorization(req_args={"response_type": o[3], "scope": ["openid"]})
                q = {k: v[0] for k, v in parse_qs(urlsplit(url).query).items()}
                fl = {"iss": iss, "user": o[2], "rt": o[3], "state": q["state"], "nonce": q.get("nonce")}
                fl["code"] = W.ops[iss].code_for(fl)
                fl["at"] = W.ops[iss].at_for(fl) if "token" in o[3].split() else None
                W.flows.append(fl)
                rec.update(r="ok", model=["begin", iss, fl["state"], fl["nonce"]])
            elif o[0] in ("authz", "finalize"):
                a = o[1]
                fs, fc, fi = W.flows[a["state_of"]], W.flows[a["code_of"]], W.flows[a["idt_of"]]
                to = fs["iss"] if a["to"] == "own" else [i for i in ISSUERS if i != fs["iss"]][0]
                resp = {"code": fc["code"]}
                st = {"own": fs["state"], "unknown": "no-such-state-0123456789abcdef", "truncated": fs["state"][:-1], "missing": None,
                      "nonce": fc["nonce"] or fs["nonce"] or "no-such-state-0123456789abcdef", "sub": "sub-" + fs["user"]}[a["state"]]
                if st is not None:
                    resp["state"] = st
                if a["iss"]:
                    resp["iss"] = to if a["iss"] == "own" else [i for i in ISSUERS if i != to][0]
                if a["cid"]:
                    resp["client_id"] = CID if a["cid"] == "own" else "client_2"
                if a.get("resp_nonce_of") is not None:
                    resp["nonce"] = "attacker-chosen-nonce" if a["resp_nonce_of"] == "attacker" else W.flows[a["resp_nonce_of"]]["nonce"]
                if a.get("resp_aud"):
                    resp["aud"] = CID if a["resp_aud"] == "own" else "somebody-else"
                idt = None
                if "id_token" in fs["rt"].split():
                    # hybrid: the issuer the response is delivered for signs an ID token for flow `idt_of` — a genuine one: its c_hash / at_hash
                    # are those of THAT flow's code and access token
                    if "token" in fs["rt"].split():
                        fa = fi if a.get("at_of", "idt") == "idt" else W.flows[a["at_of"]]
                        if fa.get("at"):
                            resp["access_token"] = fa["at"]; resp["token_type"] = "Bearer"
                    resp["id_token"] = W.ops[to].idtoken(fi["nonce"], "sub-" + fi["user"], code=fi["code"], at=fi.get("at"))
                    idt = [fi["nonce"], "sub-" + fi["user"], fi.get("at"), fi["code"]]
                rec["model"] = ["authz", to, st, fc["code"], resp.get("iss"), resp.get("client_id"), idt, resp.get("access_token"), resp.get("aud")]
                if o[0] == "authz":
                    r = W.rph.finalize_auth(None, to, resp)
                    rec["r"] = "ok"
                else:
                    W.ops[to].plan = {}
                    rec["composite"] = True
                    r = W.rph.finalize(to, resp)
                    rec["r"] = "ok" if "error" not in r else "err"
            elif o[0] == "tokens":
                a = o[1]
                fl = W.flows[a["flow"]]
                op = W.ops[fl["iss"]]
                sub = a["sub"]
                if sub == "nonce-of":
                    sub = W.flows[a["sub_of"]]["nonce"]
                idt_flow = W.flows[a["idt_of"]]
                op.plan = {"idt_flow": idt_flow, "idt": a["idt"], "drop_nonce": a["drop_nonce"], "sub": sub}
                if a.get("resp_state_of") is not None:
                    op.plan["resp_state"] = W.flows[a["resp_state_of"]]["state"]
                op.last = "not-called"
                try:
                    W.rph.issuer2rp[fl["iss"]].get_tokens(fl["state"])
                    rec["r"] = "ok"
                finally:
                    op.plan = {}
                    if op.last not in (None, "not-called"):
                        rec["model"] = ["token", fl["iss"], fl["state"], op.last["at"], op.last["idt"]]
            elif o[0] == "userinfo":
                a = o[1]
                fl = W.flows[a["flow"]]
                op = W.ops[fl["iss"]]
                op.plan = {"user": W.flows[a["user_of"]]["user"]}
                op.last = "not-called"
                try:
                    W.rph.issuer2rp[fl["iss"]].get_user_info(fl["state"])
                    rec["r"] = "ok"
                finally:
                    op.plan = {}
                    if op.last not in (None, "not-called"):
                        rec["model"] = ["userinfo", fl["iss"], fl["state"], op.last["sub"]]
        except Exception as e:
            rec["r"] = "rej"
            rec["how"] = type(e).__name__
            STATS["rejected"] += 1
        rec["before"], rec["after"] = before, W.dump()
        steps.append(rec)
    return {"steps": steps}


def _opt(x):
    return "none" if x is None else "some:" + enc_str(x)


def _idt(i):
    if i is None:
        return "none"
    return _opt(i[0]) + "|" + enc_str(i[1]) + ("|" + _opt(i[2]) + "|" + _opt(i[3]) if len(i) > 2 else "")


def model_lines(c, obs):
    lines = ["\t".join(["rps", "reset", common.enc_list(ISSUERS if c.get("t") != "o2" else [ISS]), enc_str(CID)])]
    for st in obs["steps"]:
        m = st["model"]
        if m is None or st.get("composite"):
            lines.append("rps\tnoop")
            continue
        if m[0] == "begin":
            lines.append("\t".join(["rps", "op", enc_str(m[1]), "begin", enc_str(m[2]), enc_str(m[3] or "")]))
        elif m[0] == "authz":
            lines.append("\t".join(["rps", "op", enc_str(m[1]), "authz", _opt(m[2]), _opt(m[3]), _opt(m[4]), _opt(m[5]), _idt(m[6])] + ([_opt(m[7])] if len(m) > 7 else []) + ([_opt(m[8])] if len(m) > 8 else [])))
        elif m[0] == "token":
            lines.append("\t".join(["rps", "op", enc_str(m[1]), "token", enc_str(m[2]), enc_str(m[3]), _idt(m[4])]))
        else:
            lines.append("\t".join(["rps", "op", enc_str(m[1]), "userinfo", enc_str(m[2]), enc_str(m[3])]))
    return lines


def _parse_dump(fields):
    from common import dec_str
    out = {}
    for f in fields:
        p = f.split(" ")
        iss = dec_str(p[0])
        def o(w):
            return None if w == "none" else dec_str(w[5:])
        recs = {}
        for e in (p[1].split(";") if len(p) > 1 and p[1] else []):
            q = e.split("|")
            idt = None
            if q[4] != "none":
                n, s = q[4].split("/")
                idt = [o(n), dec_str(s)]
            recs[dec_str(q[0])] = [o(q[1]), o(q[2]), o(q[3]), idt, o(q[5])]
        mp = {}
        for e in (p[2].split(";") if len(p) > 2 and p[2] else []):
            k, v = e.split(">")
            mp[dec_str(k)] = dec_str(v)
        out[iss] = {"db": recs, "map": mp}
    return out


def compare(c, obs, outs):
    if c.get("t") == "o2":
        for i, (st, o) in enumerate(zip(obs["steps"], outs[1:])):
            ok = o.split("\t")[0] == "ok"
            if ok != (st["r"] == "ok"):
                return [f"OAuth2 client, step {i} {c['ops'][i]}: model={'accepted' if ok else 'rejected'} impl={st['r']} ({st.get('how')})"]
        return []
    # composite steps (RPHandler.finalize) are checked by the oracle only: resynchronising the model mid-history is not possible, so such
    # histories are compared up to the first composite step
    for i, (st, o) in enumerate(zip(obs["steps"], outs[1:])):
        if st.get("composite"):
            return []
        if st["model"] is None:
            if st["after"] != st["before"]:
                return [f"step {i} {c['ops'][i]}: the provider refused, yet the store changed"]
            continue
        f = o.split("\t")
        ok = f[0] == "ok"
        if ok != (st["r"] == "ok"):
            return [f"step {i} {c['ops'][i]}: model={'accepted' if ok else 'rejected'} impl={st['r']} ({st.get('how')})"]
        md = _parse_dump(f[1:])
        if md != st["after"]:
            diff = {k: (md[k], st["after"][k]) for k in md if md[k] != st["after"].get(k)}
            return [f"step {i} {c['ops'][i]}: store differs (model, impl) {json.dumps(diff)[:600]}"]
    return []


def oracle(c, obs):
    v = []
    if c.get("t") == "o2":
        for i, st in enumerate(obs["steps"]):
            if st["model"][0] == "begin":
                continue
            if st["r"] == "ok" and (st["foreign_iss"] or not st["known_state"]):
                v.append({"cls": "mixup-accepted", "client": "oauth2", "foreign_iss": st["foreign_iss"], "known_state": st["known_state"]})
            if st["r"] != "ok" and st["stored_code"] == st["code"] and st["known_state"] and st["foreign_iss"]:
                # (the code may be there from an earlier, accepted delivery of the same flow: only flag when none was accepted)
                if not any(p["r"] == "ok" and p.get("code") == st["code"] for p in obs["steps"][:i] if p["model"][0] == "authz"):
                    v.append({"cls": "rejected-response-changed-the-store", "client": "oauth2", "step": i})
        return v
    for i, st in enumerate(obs["steps"]):
        b, a = st["before"], st["after"]
        if st["r"] != "ok" and not st.get("composite") and a != b:
            v.append({"cls": "rejected-response-changed-the-store", "step": i, "op": c["ops"][i][0]})
        if st["r"] == "ok" and st["model"] and st["model"][0] != "begin" and not st.get("composite"):
            tgt_iss, tgt_state = st["model"][1], st["model"][2]
            for iss in a:
                for s in set(a[iss]["db"]) | set(b[iss]["db"]):
                    if (iss, s) != (tgt_iss, tgt_state) and a[iss]["db"].get(s) != b[iss]["db"].get(s):
                        v.append({"cls": "other-session-altered", "step": i, "op": c["ops"][i][0]})
        for iss in a:
            for s, r in a[iss]["db"].items():
                if r[3] is not None and r[0] is not None and r[3][0] != r[0]:
                    v.append({"cls": "recorded-id-token-has-foreign-nonce", "step": i})
                if r[3] is not None and r[4] is not None and r[4] != r[3][1] and b[iss]["db"].get(s, [None] * 5)[4] != r[4]:
                    v.append({"cls": "recorded-userinfo-of-another-subject", "step": i})
        # a response delivered for the wrong issuer / with an unknown state must not be accepted
        o = c["ops"][i]
        if o[0] in ("authz", "finalize") and st["r"] == "ok" and (o[1]["to"] == "other" or o[1]["state"] != "own" or o[1]["iss"] == "other" or o[1]["cid"] == "other"):
            v.append({"cls": "cross-wired-authorization-response-accepted", "step": i, "what": {k: o[1][k] for k in ("to", "state", "iss", "cid")}})
        if o[0] in ("authz", "finalize") and st["r"] == "ok" and st["model"] and st["model"][6] is not None and o[1]["idt_of"] != o[1]["state_of"]:
            v.append({"cls": "response-with-another-flows-id-token-accepted", "step": i, "resp_aud": o[1].get("resp_aud")})
        if o[0] in ("authz", "finalize") and st["r"] == "ok" and st["model"] and len(st["model"]) > 7 and st["model"][7] is not None:
            at_flow = o[1]["idt_of"] if o[1].get("at_of", "idt") == "idt" else o[1]["at_of"]
            if at_flow != o[1]["state_of"]:
                v.append({"cls": "cross-wired-authorization-response-accepted", "step": i, "what": "access token of another flow beside this flow's state"})
        if v:
            break
    return v[:1]


def known_key(c, v, known):
    return common.known_key(c, v, known)


def classify(c, obs):
    return ("o2:" if c["t"] == "o2" else "hist:") + ",".join(sorted({f"{o[0]}:{s['r']}" for o, s in zip(c["ops"], obs["steps"])}))


def nontrivial(c, obs):
    return any(s["r"] != "ok" for s in obs["steps"])


def evidence_extra():
    return dict(STATS)
