"""Shared machinery: seeded PRNG, wire encoding, Lean build/audit/driver, evidence, findings.

Everything here is run with /venv/bin/python (repo deps installed) and imports idpyoidc
from /repo/src so that the working tree is what runs.
"""
import fcntl
import hashlib
import json
import os
import random
import re
import subprocess
import sys
import time

VERIF = os.path.dirname(os.path.dirname(os.path.abspath(__file__)))
REPO = os.environ.get("VERIF_REPO", "/repo")
LEAN = os.path.join(VERIF, "lean")
sys.path.insert(0, os.path.join(REPO, "src"))

STD_AXIOMS = {"propext", "Classical.choice", "Quot.sound"}
BANNED = re.compile(r"\bsorry\b|\badmit\b|^\s*axiom\s|native_decide|bv_decide|implemented_by|\bunsafe\s|maxHeartbeats\s+0\b", re.M)

TRUSTED_BASE = [
    "Lean 4.33.0 kernel (thorough tier: leanchecker re-check of the compiled modules)",
    "axioms reported by #print axioms, required to be a subset of {propext, Classical.choice, Quot.sound}",
    "tools/extract.py (reflection/ast translator that regenerates lean/IdpyVerif/Gen/*.lean from /repo)",
    "the correspondence harness (differential testing: agreement observed on the listed cases, not proved)",
    "idealised cryptography (Fernet/AES-GCM/JWS/HMAC/SHA-2), freshness of random identifiers, UTF-8, stdlib json/urllib/html at their interface",
    "hand-written Lean models of the anchored code; unmodelled parts are listed in DESIGN.md section 3",
]


# ---------------------------------------------------------------- wire encoding
def enc_str(s):
    if s == "":
        return "-"
    return ",".join(format(ord(c), "x") for c in s)


def enc_list(l):
    return ";".join(enc_str(x) for x in l)


def dec_str(w):
    if w == "-":
        return ""
    return "".join(chr(int(p, 16)) for p in w.split(","))


def dec_list(w):
    if w == "":
        return []
    return [dec_str(p) for p in w.split(";")]


def enc_opt(o):
    return "none" if o is None else "some:" + enc_str(o)


# ---------------------------------------------------------------- lean
class BuildResult:
    def __init__(self, ok, log, wall):
        self.ok, self.log, self.wall = ok, log, wall


def _lock():
    f = open(os.path.join(LEAN, ".build.lock"), "w")
    fcntl.flock(f, fcntl.LOCK_EX)
    return f


def lake_build(targets, timeout=1500):
    t0 = time.time()
    lk = _lock()
    try:
        p = subprocess.run(["lake", "build"] + list(targets), cwd=LEAN, capture_output=True, text=True, timeout=timeout)
        return BuildResult(p.returncode == 0, p.stdout + p.stderr, time.time() - t0)
    finally:
        lk.close()


def strip_comments(src):
    # remove /- ... -/ (nesting-aware) and -- line comments
    out, i, depth = [], 0, 0
    while i < len(src):
        if src.startswith("/-", i):
            depth += 1; i += 2; continue
        if depth and src.startswith("-/", i):
            depth -= 1; i += 2; continue
        if depth:
            i += 1; continue
        if src.startswith("--", i):
            j = src.find("\n", i)
            i = len(src) if j < 0 else j
            continue
        out.append(src[i]); i += 1
    return "".join(out)


def lean_sources(modules):
    """transitive closure of IdpyVerif.* imports starting from the given module names"""
    seen, todo = {}, list(modules)
    while todo:
        m = todo.pop()
        if m in seen or not m.startswith("IdpyVerif"):
            continue
        path = os.path.join(LEAN, m.replace(".", "/") + ".lean")
        if not os.path.exists(path):
            continue
        src = open(path).read()
        seen[m] = (path, src)
        for mm in re.findall(r"^import\s+(\S+)", src, re.M):
            todo.append(mm)
    return seen


def audit(prop_module):
    """returns (ok, report dict). grep for banned constructs + #print axioms of every theorem in Props module"""
    rep = {"banned": [], "axioms": {}, "theorems": [], "modules": []}
    srcs = lean_sources([prop_module])
    rep["modules"] = sorted(srcs)
    for m, (path, src) in srcs.items():
        for hit in BANNED.finditer(strip_comments(src)):
            rep["banned"].append(f"{m}: {hit.group(0).strip()}")
    path, src = srcs[prop_module]
    code = strip_comments(src)
    ns = re.search(r"^namespace\s+(\S+)", code, re.M)
    ns = ns.group(1) + "." if ns else ""
    thms = re.findall(r"^theorem\s+(\S+)", code, re.M)
    rep["theorems"] = thms
    helper_thms = 0
    for m, (p2, s2) in srcs.items():
        if m != prop_module:
            helper_thms += len(re.findall(r"^(?:theorem|lemma)\s+\S+", strip_comments(s2), re.M))
    rep["helper_theorems"] = helper_thms
    os.makedirs(os.path.join(LEAN, "Audit"), exist_ok=True)
    apath = os.path.join(LEAN, "Audit", prop_module.split(".")[-1] + f".{os.getpid()}.lean")
    with open(apath, "w") as f:
        f.write(f"import {prop_module}\n")
        for t in thms:
            f.write(f"#print axioms {ns}{t}\n")
    try:
        p = subprocess.run(["lake", "env", "lean", apath], cwd=LEAN, capture_output=True, text=True, timeout=600)
    finally:
        os.unlink(apath)
    out = p.stdout + p.stderr
    rep["audit_rc"] = p.returncode
    for m in re.finditer(r"'([^']+)' depends on axioms: \[([^\]]*)\]", out, re.S):
        rep["axioms"][m.group(1)] = [a.strip() for a in m.group(2).replace("\n", " ").split(",") if a.strip()]
    for m in re.finditer(r"'([^']+)' does not depend on any axioms", out):
        rep["axioms"][m.group(1)] = []
    bad = {t: a for t, a in rep["axioms"].items() if not set(a) <= STD_AXIOMS}
    rep["nonstandard"] = bad
    missing = [t for t in thms if (ns + t) not in rep["axioms"]]
    rep["missing"] = missing
    ok = p.returncode == 0 and not rep["banned"] and not bad and not missing and len(thms) > 0
    if not ok:
        rep["raw"] = out[-3000:]
    return ok, rep


def leanchecker(modules, timeout=1800):
    p = subprocess.run(["lake", "env", "leanchecker"] + list(modules), cwd=LEAN, capture_output=True, text=True, timeout=timeout)
    return p.returncode == 0, (p.stdout + p.stderr)[-2000:]


DRIVER = os.path.join(LEAN, ".lake", "build", "bin", "idpydriver")


def run_driver(lines, timeout=900):
    """feed lines to the Lean driver, return list of output lines (one per input line)"""
    data = "\n".join(lines) + "\n"
    if os.path.exists(DRIVER) and not os.environ.get("VERIF_INTERPRET"):
        cmd = [DRIVER]
    else:
        cmd = ["lake", "env", "lean", "--run", "Main.lean"]
    p = subprocess.run(cmd, cwd=LEAN, input=data, capture_output=True, text=True, timeout=timeout)
    if p.returncode != 0:
        raise RuntimeError("driver failed: " + p.stderr[-2000:])
    out = p.stdout.split("\n")
    if out and out[-1] == "":
        out.pop()
    if len(out) != len(lines):
        raise RuntimeError(f"driver answered {len(out)} lines for {len(lines)} inputs; tail={out[-3:]}")
    return out


# ---------------------------------------------------------------- findings
def load_findings():
    p = os.path.join(VERIF, "known_findings.json")
    if not os.path.exists(p):
        return []
    return json.load(open(p))["findings"]


def known_for(prop):
    return [f for f in load_findings() if f["property"] == prop and f["status"] == "known"]


# ---------------------------------------------------------------- misc
def h(obj):
    return hashlib.sha1(json.dumps(obj, sort_keys=True, default=str).encode()).hexdigest()[:16]


def seed():
    try:
        return int(os.environ.get("VERIF_SEED", "0"))
    except ValueError:
        return 0


HOSTILE = ["", " ", ";;", ";", ":", "3:ab", "|", "::", "\t", "%09", "%23", "é", "中", "‮", "a b", "a+b", "&", "=", "#",
           "\"", "'", "<", ">", "\\", "/", "?", "0", "10:", " x", "x ", "\n", "%", "%2", "%zz", "a;;b", "a;", ";a", " ", " "]


def rnd_text(rng, maxlen=12, alphabet=None):
    alphabet = alphabet or "abcXYZ019 ;:|%&=+#?/\\\"'<>-_.~\t\né中‮ "
    n = rng.randint(0, maxlen)
    return "".join(rng.choice(alphabet) for _ in range(n))


def rnd_ident(rng):
    r = rng.random()
    if r < 0.5:
        return rng.choice(["diana", "bob", "client_1", "client_2", "u", "c", "https://rp.example/cb"])
    if r < 0.75:
        return rng.choice(HOSTILE)
    return rnd_text(rng)


def known_key(c, v, known):
    """a violation is covered by a known finding when every key of the finding's `match` agrees (a list value means: one of)"""
    for f in known:
        ok = True
        for k, val in f["match"].items():
            got = v.get(k)
            if isinstance(val, list):
                ok = ok and got in val
            else:
                ok = ok and got == val
        if ok:
            return f["key"]
    return None
