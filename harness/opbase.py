import json, os, base64
from cryptojwt.key_jar import build_keyjar
from idpyoidc.message.oidc import AuthorizationRequest, AccessTokenRequest
from idpyoidc.server import Server
from idpyoidc.server.authz import AuthzHandling
from idpyoidc.server.configure import OPConfiguration
from idpyoidc.server.cookie_handler import CookieHandler
from idpyoidc.server.oidc import userinfo
from idpyoidc.server.oidc.authorization import Authorization
from idpyoidc.server.oidc.provider_config import ProviderConfiguration
from idpyoidc.server.oidc.registration import Registration
from idpyoidc.server.oidc.session import Session
from idpyoidc.server.oidc.token import Token
from idpyoidc.server.oauth2.introspection import Introspection
from idpyoidc.server.oauth2.token_revocation import TokenRevocation
from idpyoidc.server.user_authn.authn_context import INTERNETPROTOCOLPASSWORD
from idpyoidc.server.user_info import UserInfo

import tempfile, atexit, shutil
BASEDIR = tempfile.mkdtemp(prefix="idpyverif-")
atexit.register(lambda: shutil.rmtree(BASEDIR, ignore_errors=True))
KEYDEFS = [{"type": "RSA", "key": "", "use": ["sig"]}, {"type": "EC", "crv": "P-256", "use": ["sig"]}]
USERS = {"diana": {"name": "Diana", "email": "diana@example.org", "email_verified": True, "given_name":"Di", "family_name":"K"},
         "bob": {"name": "Bob", "email": "bob@example.org", "email_verified": False}}
CLIAUTH = ["client_secret_post", "client_secret_basic", "client_secret_jwt", "private_key_jwt"]

def make_op(jwt_tokens=False, extra=None, user="diana", more_endpoints=None, keys=None):
    """keys: None = password+salt per handler, provider signing keys generated per instance (the historical default of this harness);
    "pwsalt" / "key" / "jwks_def" = the three ways a configuration pins the token-protection keys, with the provider's
    signing keys pinned by a key file as well (C13: every instance built from this configuration shares its key material)"""
    tha = {
        "code": {"lifetime": 600, "kwargs": {"crypt_conf": {"kwargs": {"password": "0987654321abcdefghijklmnop...---", "salt": "abcdefghijklmnop", "iterations": 1}}}},
        "token": {"lifetime": 3600, "kwargs": {"crypt_conf": {"kwargs": {"password": "1987654321abcdefghijklmnop...---", "salt": "abcdefghijklmnop", "iterations": 1}}}},
        "refresh": {"lifetime": 86400, "kwargs": {"crypt_conf": {"kwargs": {"password": "2987654321abcdefghijklmnop...---", "salt": "abcdefghijklmnop", "iterations": 1}}}},
        "id_token": {"class": "idpyoidc.server.token.id_token.IDToken", "kwargs": {}},
    }
    if jwt_tokens == "shared":
        # one handler specification (the same dict object) used for the three classes, as a configuration written in Python may do
        spec = {"lifetime": 3600, "aud": ["https://example.org/appl"]}
        for k in ("code", "token", "refresh"):
            tha[k] = {"class": "idpyoidc.server.token.jwt_token.JWTToken", "kwargs": spec}
    elif jwt_tokens:
        tha["token"] = {"class": "idpyoidc.server.token.jwt_token.JWTToken", "kwargs": {"lifetime": 3600, "aud": ["https://example.org/appl"]}}
        tha["refresh"] = {"class": "idpyoidc.server.token.jwt_token.JWTToken", "kwargs": {"lifetime": 86400, "aud": ["https://example.org/appl"]}}
    if keys == "key":
        for i, k in enumerate(("code", "token", "refresh")):
            if "crypt_conf" in tha[k].get("kwargs", {}):
                tha[k]["kwargs"]["crypt_conf"] = {"kwargs": {"key": (b"%d" % i) * 32}}
    elif keys == "jwks_def":
        for k in ("code", "token", "refresh"):
            if "crypt_conf" in tha[k].get("kwargs", {}):
                tha[k] = {"lifetime": tha[k]["lifetime"]}
        tha["jwks_def"] = {"private_path": os.path.join(BASEDIR, "private", "token_jwks.json"), "read_only": False,
                           "key_defs": [{"type": "oct", "bytes": 24, "use": ["enc"], "kid": k} for k in ("code", "token", "refresh")]}
    conf = {
        "issuer": "https://example.com/",
        "httpc_params": {"verify": False, "timeout": 1},
        "subject_types_supported": ["public", "pairwise", "ephemeral"],
        "grant_types_supported": ["authorization_code", "implicit", "refresh_token", "urn:ietf:params:oauth:grant-type:token-exchange"],
        "keys": {"uri_path": "jwks.json", "key_defs": KEYDEFS},
        "endpoint": {
            "provider_config": {"path": ".well-known/openid-configuration", "class": ProviderConfiguration, "kwargs": {}},
            "registration": {"path": "registration", "class": Registration, "kwargs": {}},
            "authorization": {"path": "authorization", "class": Authorization, "kwargs": {}},
            "token": {"path": "token", "class": Token, "kwargs": {"client_authn_method": CLIAUTH}},
            "userinfo": {"path": "userinfo", "class": userinfo.UserInfo, "kwargs": {"client_authn_method": ["bearer_header", "bearer_body"]}},
            "introspection": {"path": "introspection", "class": Introspection, "kwargs": {"client_authn_method": CLIAUTH, "enforce_audience_restriction": False}},
            "token_revocation": {"path": "revocation", "class": TokenRevocation, "kwargs": {"client_authn_method": CLIAUTH}},
            "session": {"path": "end_session", "class": Session, "kwargs": {"post_logout_uri_path": "post_logout", "signing_alg": "ES256", "logout_verify_url": "https://example.com/verify_logout", "client_authn_method": None}},
        },
        "authentication": {"anon": {"acr": INTERNETPROTOCOLPASSWORD, "class": "idpyoidc.server.user_authn.user.NoAuthn", "kwargs": {"user": user}}},
        "userinfo": {"class": UserInfo, "kwargs": {"db": USERS}},
        "authz": {"class": AuthzHandling, "kwargs": {"grant_config": {"usage_rules": {
            "authorization_code": {"supports_minting": ["access_token", "refresh_token", "id_token"], "max_usage": 1},
            "access_token": {}, "refresh_token": {"supports_minting": ["access_token", "refresh_token", "id_token"]}}, "expires_in": 43200}}},
        "template_dir": "template",
        "token_handler_args": tha,
        "session_params": {"encrypter": {"kwargs": {"password": "3987654321abcdefghijklmnop...---", "salt": "abcdefghijklmnop", "iterations": 1}}},
        "cookie_handler": {"class": CookieHandler, "kwargs": {"sign_key": "ghsNKDDLshZTPn974nOsIGhedULrsqnsGoBFBLwUKuJhE2ch", "name": {"session": "oidc_op", "register": "oidc_op_reg", "session_management": "oidc_op_sman"}}},
    }
    if keys:
        conf["keys"] = {"private_path": os.path.join(BASEDIR, "private", "jwks.json"), "read_only": False, "uri_path": "jwks.json", "key_defs": KEYDEFS}
    if more_endpoints:
        conf["endpoint"].update(more_endpoints)
    if extra:
        conf.update(extra)
    server = Server(OPConfiguration(conf=conf, base_path=BASEDIR), cwd=BASEDIR)
    ctx = server.context
    for cid, sec in [("client_1", "hemligt_hemligt_hemligt_hemligt_1"), ("client_2", "hemligare_hemligare_hemligare_2_")]:
        ctx.cdb[cid] = {
            "client_id": cid, "client_secret": sec,
            "redirect_uris": [(f"https://{cid}.example.com/cb", None)],
            "client_salt": "salted",
            "token_endpoint_auth_method": "client_secret_post",
            "response_types_supported": ["code", "code id_token", "id_token", "token", "code token", "id_token token", "code id_token token"],
            "allowed_scopes": ["openid", "profile", "email", "address", "phone", "offline_access"],
        }
        ctx.keyjar.add_symmetric(cid, sec)
    return server

def authz(server, cid="client_1", scope=("openid",), rt="code", state="STATE", **kw):
    ep = server.get_endpoint("authorization")
    req = AuthorizationRequest(client_id=cid, redirect_uri=f"https://{cid}.example.com/cb", scope=list(scope), state=state, response_type=rt, nonce="nonce", **kw)
    pr = ep.parse_request(req.to_dict())
    if "error" in pr: return pr
    return ep.process_request(pr)

def token(server, code, cid="client_1", secret=None, **kw):
    ep = server.get_endpoint("token")
    secret = secret or server.context.cdb[cid]["client_secret"]
    req = dict(client_id=cid, client_secret=secret, redirect_uri=f"https://{cid}.example.com/cb", grant_type="authorization_code", code=code, **kw)
    pr = ep.parse_request(req)
    if "error" in pr: return pr
    return ep.process_request(pr)

def refresh(server, rt, cid="client_1", **kw):
    ep = server.get_endpoint("token")
    req = dict(client_id=cid, client_secret=server.context.cdb[cid]["client_secret"], grant_type="refresh_token", refresh_token=rt, **kw)
    try:
        pr = ep.parse_request(req)
        if "error" in pr: return pr
        return ep.process_request(pr)
    except Exception as e:
        return f"EXC {type(e).__name__}: {e}"

def uinfo(server, at):
    ep = server.get_endpoint("userinfo")
    try:
        pr = ep.parse_request({}, http_info={"headers": {"authorization": f"Bearer {at}"}})
        if "error" in pr: return pr
        return ep.process_request(pr)
    except Exception as e:
        return f"EXC {type(e).__name__}: {e}"

def introspect(server, tok, cid="client_1"):
    ep = server.get_endpoint("introspection")
    try:
        pr = ep.parse_request({"token": tok, "client_id": cid, "client_secret": server.context.cdb[cid]["client_secret"]})
        if "error" in pr: return pr
        return ep.process_request(pr)
    except Exception as e:
        return f"EXC {type(e).__name__}: {e}"

def revoke(server, tok, cid="client_1"):
    ep = server.get_endpoint("token_revocation")
    try:
        pr = ep.parse_request({"token": tok, "client_id": cid, "client_secret": server.context.cdb[cid]["client_secret"]})
        if "error" in pr: return pr
        return ep.process_request(pr)
    except Exception as e:
        return f"EXC {type(e).__name__}: {e}"
