"""C18 — subject identifiers: consistent across the four publication points, stable, opaque, follow the subject type."""
import base64
import hashlib
import json
import common
from common import enc_str, dec_str
import opbase
from idpyoidc.message.oidc import AuthorizationRequest

RULE = ("cases: sequences of logins of several users (ASCII, Unicode, hex-like identifiers) at seven clients — two public, three pairwise (two "
        "sharing a registered sector id, one in another sector), one pairwise without sector id (redirect host is the sector), one ephemeral — "
        "through the real authorization and token endpoints with JWT access tokens; sub read from the ID token, userinfo, the JWT access "
        "token and introspection; one user's directory entry carries an attribute named sub; the provider is run with scope-derived claims "
        "off and on at every release point; some authorization requests carry a sector_identifier_uri of their own. The Lean model yields the hash preimage for each login; the harness applies sha256 (hashlib) and compares; "
        "oracle: four views equal, stable across logins, public equal across clients, pairwise equal within / different between sectors, "
        "ephemeral different per grant, user id not contained in sub. non-trivial: login at a non-public client or a repeated login")
MODELLED = ("modelled: public_id / pairwise_id / ephemeral_id, the subject type and sector selection in Authorization.create_session, the four "
            "publication points' treatment of sub. NOT modelled: SHA-256 (parameter H, injectivity a hypothesis), uuid4")
ASSUMPTIONS = ["SHA-256 is injective on the preimages that occur (hypothesis of the theorems that need it)"]

_srv = {}
USERS = ["diana", "bob", "zoë", "deadbeef00", "用户"]
LOCAL_SUB = {"bob": "bob-local-account"}        # the user directory has an attribute called sub for this user
CL = {
    "cP1": {"type": None, "sector": None}, "cP2": {"type": "public", "sector": None},
    "cW1": {"type": "pairwise", "sector": "https://s1.example.org/si.json"}, "cW2": {"type": "pairwise", "sector": "https://s1.example.org/si.json"},
    "cW3": {"type": "pairwise", "sector": "https://s2.example.org/si.json"}, "cW4": {"type": "pairwise", "sector": None},
    "cE": {"type": "ephemeral", "sector": None},
}


def _restore(byscope):
    """the provider moves to a fresh instance built from the same configuration: export the endpoint context, import it there"""
    old = server(byscope)
    store = old.context.dump()
    del _srv[byscope]
    new = server(byscope)
    new.context.load(store, init_args={"upstream_get": new.unit_get, "handler": new.context.session_manager.token_handler})
    return new


def server(byscope=False):
    if byscope not in _srv:
        s = _srv[byscope] = opbase.make_op(jwt_tokens=True, keys="pwsalt")
        ctx = s.context
        if byscope:
            # scope-derived claims at every release point (openid maps to sub)
            th = ctx.session_manager.token_handler
            for mod in (th["access_token"], th["id_token"], s.get_endpoint("introspection"), s.get_endpoint("userinfo")):
                mod.kwargs["add_claims_by_scope"] = True
        for u in USERS:
            ctx.userinfo.db.setdefault(u, {"name": u.title(), "email": u + "@example.org"})
            if u in LOCAL_SUB:
                ctx.userinfo.db[u]["sub"] = LOCAL_SUB[u]
        for cid, c in CL.items():
            rec = dict(ctx.cdb["client_1"], client_id=cid, redirect_uris=[(f"https://{cid.lower()}.example.com/cb", None)])
            if c["type"]:
                rec["subject_type"] = c["type"]
            if c["sector"]:
                rec["sector_id"] = c["sector"]
            ctx.cdb[cid] = rec
            ctx.keyjar.add_symmetric(cid, rec["client_secret"])
    return _srv[byscope]


def cases(rng, tier):
    n = {"quick": 30, "thorough": 400, "search": 250}[tier]
    out = []
    for _ in range(n):
        users = rng.sample(USERS, rng.randint(1, 3))
        logins = [[rng.choice(users), rng.choice(list(CL))] for _ in range(rng.randint(3, 8))]
        # a third element marks a login that presents the session cookie of the previous login of the same user at the same client (SSO)
        logins = [l + ([True] if l in logins[:i] and rng.random() < 0.6 else [False]) for i, l in enumerate(logins)]
        # a fourth element: the request carries a sector_identifier_uri of its own (it is a registration parameter, not a request parameter)
        logins = [l + [rng.choice([None, None, "https://s1.example.org/si.json", "https://s2.example.org/si.json", "https://evil.example/si.json"])] for l in logins]
        # a fifth element: just before this login the provider's state is exported and imported into a fresh instance
        logins = [l + [i > 0 and rng.random() < 0.12] for i, l in enumerate(logins)]
        # a sixth element: the request spells its redirect_uri differently from the registered one (letter case of host / scheme): whether
        # or not the provider takes that for a match, the subject of the user at that client is the same as in every other login
        logins = [l + [rng.choice([None, None, None, None, "host-case", "scheme-case"])] for l in logins]
        out.append({"t": "seq", "logins": logins, "byscope": rng.random() < 0.5})
    return out


def corpus():
    return [{"t": "seq", "byscope": False, "logins": [["diana", "cW1", False, None, False, None], ["diana", "cW1", False, None, False, "host-case"], ["diana", "cW1", False, None, False, "scheme-case"],
                                                      ["diana", "cW2", False, None, False, "host-case"], ["diana", "cW2", False, None, False, None]]},
            {"t": "seq", "byscope": False, "logins": [["diana", "cP1", False, None, False], ["diana", "cW1", False, None, False], ["diana", "cP1", False, None, True],
                                                      ["diana", "cW1", False, None, False], ["diana", "cW2", False, None, True]]}]


def _payload(jwt):
    p = jwt.split(".")[1]
    return json.loads(base64.urlsafe_b64decode(p + "=" * (-len(p) % 4)))


def impl(c):
    s = server(c.get("byscope", False))
    ctx = s.context
    az, tk, ui, it = (s.get_endpoint(x) for x in ("authorization", "token", "userinfo", "introspection"))
    salt = ctx.session_manager.get_salt()
    res = []
    cookies = {}
    for n, (user, cid, *more) in enumerate(c["logins"]):
        sso = bool(more and more[0])
        req_sector = more[1] if len(more) > 1 else None
        if len(more) > 2 and more[2]:
            s = _restore(c.get("byscope", False))
            ctx = s.context
            az, tk, ui, it = (s.get_endpoint(x) for x in ("authorization", "token", "userinfo", "introspection"))
        ctx.authn_broker.db["anon"]["method"].user = user
        red = f"https://{cid.lower()}.example.com/cb"
        spell = more[3] if len(more) > 3 else None
        if spell == "host-case":
            red = f"https://{cid.upper()}.Example.COM/cb"
        elif spell == "scheme-case":
            red = f"HTTPS://{cid.lower()}.example.com/cb"
        extra = {"sector_identifier_uri": req_sector} if req_sector else {}
        req = AuthorizationRequest(client_id=cid, redirect_uri=red, scope=["openid", "email"], state=f"st{n}", response_type="code", nonce=f"n{n}", **extra)
        try:
            hi = {"cookie": cookies[(user, cid)]} if sso and (user, cid) in cookies else None
            out = az.process_request(az.parse_request(req.to_dict(), http_info=hi), http_info=hi)
            if out.get("cookie"):
                cookies[(user, cid)] = out["cookie"]
            code = out["response_args"]["code"]
            tr = tk.process_request(tk.parse_request(dict(client_id=cid, client_secret=ctx.cdb[cid]["client_secret"], redirect_uri=red,
                                                          grant_type="authorization_code", code=code)))["response_args"]
            at = tr["access_token"]
            views = {"id_token": _payload(tr["id_token"])["sub"], "jwt_access": _payload(at).get("sub")}
            u = ui.process_request(ui.parse_request({}, http_info={"headers": {"authorization": "Bearer " + at}}))
            views["userinfo"] = u["response_args"]["sub"]
            i = it.process_request(it.parse_request({"token": at, "client_id": cid, "client_secret": ctx.cdb[cid]["client_secret"]}))
            views["introspection"] = i["response_args"].get("sub")
            res.append({"r": "ok", "views": views})
        except Exception as e:
            res.append({"r": "exc", "e": type(e).__name__ + ":" + str(e)[:80]})
    return {"logins": res, "salt": salt if isinstance(salt, str) else repr(salt)}


def model_lines(c, obs):
    lines = []
    for (user, cid, *_), r in zip(c["logins"], obs["logins"]):
        cl = CL[cid]
        sec = "none" if cl["sector"] is None else "some:" + enc_str(cl["sector"])
        lines.append("\t".join(["sub", "pre", cl["type"] or "absent", enc_str(user), sec, enc_str(f"{cid.lower()}.example.com"), enc_str(obs["salt"])]))
        if r["r"] == "ok":
            # the four views of this grant's subject, given what the directory holds under the name sub (released when by-scope claims are on)
            attr = "some:" + enc_str(LOCAL_SUB[user]) if (user in LOCAL_SUB and c.get("byscope")) else "none"
            lines.append("\t".join(["sub", "views", enc_str(r["views"]["id_token"]), attr]))
    return lines


def compare(c, obs, outs):
    d = []
    k = 0
    for (user, cid, *more), r in zip(c["logins"], obs["logins"]):
        o = outs[k]; k += 1
        if r["r"] != "ok":
            if len(more) > 3 and more[3]:
                continue           # a differently spelled redirect_uri may be refused as a mismatch (C06's matter): no subject is delivered
            d.append(f"login {user}@{cid} failed: {r}"); break
        mv = [dec_str(x) for x in outs[k].split("\t")]; k += 1
        iv = [r["views"][x] for x in ("id_token", "userinfo", "jwt_access", "introspection")]
        if mv != iv:
            d.append(f"{user}@{cid}: views model={[x[:14] for x in mv]} impl={[str(x)[:14] for x in iv]}"); break
        if o == "fresh":
            continue
        pre = dec_str(o.split("\t")[1])
        want = hashlib.sha256(pre.encode("utf-8")).hexdigest()
        if want != r["views"]["id_token"]:
            d.append(f"{user}@{cid}: model sub=sha256({pre!r})={want[:12]}.. impl={r['views']['id_token'][:12]}..")
            break
    return d


def oracle(c, obs):
    v = []
    seen = {}    # (user, client) -> list of subs
    for (user, cid, *_), r in zip(c["logins"], obs["logins"]):
        if r["r"] != "ok":
            continue
        vs = r["views"]
        if len(set(vs.values())) != 1:
            v.append({"cls": "views-disagree", "views": vs})
        sub = vs["id_token"]
        if user in sub or any(LOCAL_SUB.get(user, "\0") in str(x) for x in vs.values()):
            v.append({"cls": "user-id-in-clear"})
        seen.setdefault((user, cid), []).append(sub)
    for (user, cid), subs in seen.items():
        t = CL[cid]["type"] or "public"
        if t != "ephemeral" and len(set(subs)) != 1:
            v.append({"cls": "sub-not-stable", "type": t})
        if t == "ephemeral" and len(set(subs)) != len(subs):
            v.append({"cls": "ephemeral-repeated"})
    def sector(cid):
        return CL[cid]["sector"] or f"{cid.lower()}.example.com"
    keys = list(seen)
    for i, (u1, c1) in enumerate(keys):
        for (u2, c2) in keys[i + 1:]:
            t1, t2 = CL[c1]["type"] or "public", CL[c2]["type"] or "public"
            s1, s2 = seen[(u1, c1)][0], seen[(u2, c2)][0]
            if u1 == u2 and t1 == t2 == "public" and s1 != s2:
                v.append({"cls": "public-differs-across-clients"})
            if u1 == u2 and t1 == t2 == "pairwise":
                if sector(c1) == sector(c2) and s1 != s2:
                    v.append({"cls": "pairwise-differs-within-sector"})
                if sector(c1) != sector(c2) and s1 == s2:
                    v.append({"cls": "pairwise-equal-across-sectors", "clients": [c1, c2]})
            if u1 != u2 and s1 == s2:
                v.append({"cls": "different-users-same-sub"})
    return v[:3]


def known_key(c, v, known):
    return common.known_key(c, v, known)


def classify(c, obs):
    return "seq:" + ",".join(sorted({CL[l[1]]["type"] or "public" for l in c["logins"]})) + (":sso" if any(len(l) > 2 for l in c["logins"]) else "")


def nontrivial(c, obs):
    pairs = [tuple(x[:2]) for x in c["logins"]]
    return any((CL[cid]["type"] or "public") != "public" for _, cid in pairs) or len(set(pairs)) < len(pairs)
