"""C05 — scope never escalates: histories with random requested scope multisets, three-view agreement."""
import base64
import json
import random
import common
from common import enc_list, dec_list
import prov

RULE = ("cases: histories of authorize / redeem / refresh-with-scope / chained refresh / token exchange (owning or another client, access or "
        "refresh requested, with or without a scope; opaque handlers, usage rules that let access tokens be exchanged) with random scope multisets (duplicates, unknown values, "
        "offline_access) over clients with different allowed_scopes (explicit list, narrower list, provider default), OIDC and OAuth2 token "
        "endpoints, opaque and JWT access tokens. After every step every token in the session database is projected to (handle, scope) and "
        "compared with the Lean model; the oracle checks scope(token) within (request scope intersect allowed scopes of the client) for every "
        "stored token, scope(exchanged token) within scope(subject token) and within the requested scope, and that the token response, the JWT "
        "payload and introspection state the scope the access token carries. "
        "non-trivial: history containing a refresh with an explicit scope")
MODELLED = (prov.__doc__ + " modelled: AuthzHandling scope filter, Grant.find_scope, refresh scope check at parse and use at process, "
            "validate_token_exchange_policy (requested ∩ subject scope), the per-client filter of the exchange and the ExchangeGrant's scope")
ASSUMPTIONS = ["client-credentials and password grants are not modelled (the oracle does not cover them either); deny_unknown_scopes is off",
               "token exchange histories run with opaque token handlers only",
               "resource indicators are off (with them the response states a client-chosen scope: outside the property's configuration quantifier)"]

W = dict(authorize=18, redeem=24, parse=2, process=2, refresh=30, userinfo=2, introspect=12, revokeEp=1, revokeTok=1,
         revokeGrant=1, revokeClient=0.5, revokeUser=0.2, remove=0.5, tick=3)


def _narrow_ops(c):
    """redeem, refresh with a narrowed scope that keeps offline_access (a narrow RT2 is issued), refresh RT2 without scope, then ask for
    scopes that were requested but filtered out / never requested; introspect every access token"""
    rng = random.Random(c["seed"])
    cl = c["client"]
    red = f"https://{cl}.example.com/cb"
    req = ["openid", "offline_access", "email", "profile", "phone"]
    R = prov.Runner(c["oidc"], c["jwt"])
    ops = []

    def do(o):
        ops.append(o)
        return R.op(o)
    do(["authorize", "diana", cl, req, red])
    do(["tokenParse", cl, 1, red])
    r = do(["tokenProcess", 0])
    rt = r[2] if r[0] == "tokens" else -1
    granted = r[4] if r[0] == "tokens" else []
    narrow = ["offline_access"] + rng.sample([x for x in granted if x != "offline_access"], min(1, max(0, len(granted) - 1)))
    r2 = do(["refresh", cl, rt, narrow])
    rt2 = r2[2] if r2[0] == "tokens" and r2[2] >= 0 else rt
    do(["refresh", cl, rt2, None])
    do(["refresh", cl, rt2, ["profile"]])
    do(["refresh", cl, rt2, rng.choice([["foo"], ["address"], granted, ["openid", "profile"]])])
    do(["refresh", cl, rt, None])
    for t in sorted(R.val):
        do(["introspect", cl, t])
    return ops


def _xref_ops(c):
    """a narrowed subject token is exchanged by ANOTHER client for a refresh token (an exchange grant of its own), which that client then
    refreshes — without scope, with the original grant's full scope, with a scope outside everything"""
    rng = random.Random(c["seed"])
    cl, other = c["client"], c["other"]
    red = f"https://{cl}.example.com/cb"
    req = ["openid", "offline_access", "email", "profile", "phone"]
    R = prov.Runner(c["oidc"], False, usage="exchange")
    ops = []

    def do(o):
        ops.append(o)
        return R.op(o)
    do(["authorize", "diana", cl, req, red])
    do(["tokenParse", cl, 1, red])
    r = do(["tokenProcess", 0])
    if r[0] != "tokens":
        return ops
    at, rt, granted = r[1], r[2], r[4]
    narrow = ["offline_access", "openid"]
    r2 = do(["refresh", cl, rt, narrow])
    subj = r2[1] if r2[0] == "tokens" and r2[1] >= 0 else at
    styp = "access"
    if rng.random() < 0.4 and r2[0] == "tokens" and r2[2] >= 0:
        subj, styp = r2[2], "refresh"
    x = do(["exchange", other, subj, styp, "refresh", rng.choice([None, narrow])])
    xt = x[1] if x[0] == "exchanged" else -1
    for sc in (None, granted, ["email"], ["foo"]):
        y = do(["refresh", other, xt, sc])
        if y[0] == "tokens" and y[2] >= 0:
            xt = y[2]
    for t in sorted(R.val):
        do(["introspect", other, t])
    return ops


_ri = None


def _ri_server():
    """OAuth2 token endpoint with the resource-indicator policy (RFC 8707) configured, JWT access tokens"""
    global _ri
    if _ri is None:
        import opbase
        from idpyoidc.server.oauth2.token import Token as OToken
        from idpyoidc.server.oauth2.token_helper import validate_resource_indicators_policy
        more = {"token": {"path": "token", "class": OToken, "kwargs": {"client_authn_method": opbase.CLIAUTH, "resource_indicators": {
            "policy": {"function": validate_resource_indicators_policy, "kwargs": {"resource_servers_per_client": {"client_1": ["client_2"], "client_2": ["client_1"]}}}}}}}
        sv = opbase.make_op(jwt_tokens=True, more_endpoints=more)
        ctx = sv.context
        ctx.cdb["client_1"]["allowed_scopes"] = ["openid", "profile", "offline_access"]
        ctx.cdb["client_2"]["allowed_scopes"] = ["openid", "email", "profile", "offline_access", "address"]
        _ri = sv
    return _ri


def _ri_impl(c):
    import opbase
    sv = _ri_server()
    ctx = sv.context
    cid = "client_1"
    o = {}
    out = opbase.authz(sv, cid, scope=tuple(c["asked"]), state="st-ri")
    code = out.get("response_args", {}).get("code") if isinstance(out, dict) else None
    if not code:
        return {"r": "authz-refused"}
    al = ctx.cdb[cid]["allowed_scopes"]
    o["authorised"] = sorted(set(c["asked"]) & set(al))
    kw = {"resource": ["client_2"]}
    if c["redeem_scope"] is not None:
        kw["scope"] = list(c["redeem_scope"])
    tr = opbase.token(sv, code, cid, **kw)
    ra = tr.get("response_args") if isinstance(tr, dict) else None
    if not ra or "access_token" not in ra:
        return dict(o, r="redeem-refused", why=str(tr)[:120])
    def views(at, resp_scope):
        v = {"response": sorted(resp_scope if isinstance(resp_scope, list) else str(resp_scope or "").split())}
        sm = ctx.session_manager
        for node in sm.db.db.values():
            for t in getattr(node, "issued_token", []):
                if t.value == at:
                    v["session"] = sorted(t.scope)
        js = _jwt_scope(at)
        v["jwt"] = sorted(js) if js is not None else None
        it = opbase.introspect(sv, at, cid)
        ir = it.get("response_args", {}) if isinstance(it, dict) else {}
        sc = ir.get("scope", "")
        v["introspect"] = sorted(sc.split() if isinstance(sc, str) else sc) if ir.get("active") else None
        return v
    o["redeem"] = views(ra["access_token"], ra.get("scope"))
    o["refresh_issued"] = "refresh_token" in ra
    if "refresh_token" in ra:
        rr = opbase.refresh(sv, ra["refresh_token"], cid)
        r2 = rr.get("response_args") if isinstance(rr, dict) else None
        if r2 and "access_token" in r2:
            o["refresh"] = views(r2["access_token"], r2.get("scope"))
    o["r"] = "ok"
    return o


def cases(rng, tier):
    n = {"quick": 60, "thorough": 900, "search": 600}[tier]
    out = []
    # resource indicators at the OAuth2 token endpoint: the redeem request names a resource server and may state a scope of its own
    for asked in (["openid", "offline_access"], ["openid", "profile"], ["openid", "profile", "offline_access", "email"]):
        for rs in (None, ["openid"], ["openid", "profile", "email", "offline_access"], ["address"]):
            out.append({"t": "ri", "asked": asked, "redeem_scope": rs})
    for oidc in (True, False):
        for cl, other in (("client_1", "client_2"), ("client_2", "client_3"), ("client_3", "client_1")):
            for _ in range({"quick": 1, "thorough": 4, "search": 3}[tier]):
                out.append({"t": "xref", "oidc": oidc, "jwt": False, "usage": "exchange", "client": cl, "other": other, "seed": rng.getrandbits(32)})
    for oidc in (True, False):
        for jwt in (True, False):
            for cl in ("client_1", "client_2", "client_3"):
                for _ in range({"quick": 1, "thorough": 6, "search": 4}[tier]):
                    out.append({"t": "narrow", "oidc": oidc, "jwt": jwt, "client": cl, "seed": rng.getrandbits(32)})
    out += [{"t": "hist", "oidc": rng.random() < 0.6, "jwt": rng.random() < 0.4, "gen_seed": rng.getrandbits(48),
             "n": rng.randint(8, 22 if tier == "quick" else 40)} for _ in range(n)]
    out += [{"t": "hist", "oidc": rng.random() < 0.6, "jwt": False, "usage": "exchange", "gen_seed": rng.getrandbits(48),
             "n": rng.randint(10, 24 if tier == "quick" else 40)} for _ in range(n // 2)]
    # deny_unknown_scopes: as the provider's preference, or as one client's own setting (client_2: a short allowed list; client_3: the
    # provider's default list; client_4: an empty list) — a request naming anything outside is refused as a whole
    for deny in ("all", "client_2", "client_3", "client_1", "client_4"):
        for _ in range({"quick": 2, "thorough": 20, "search": 12}[tier]):
            out.append({"t": "hist", "oidc": rng.random() < 0.6, "jwt": rng.random() < 0.3, "deny": deny, "gen_seed": rng.getrandbits(48),
                        "n": rng.randint(8, 18 if tier == "quick" else 36)})
    # client-credentials and password grants (OAuth2 token endpoint): the client's configured scopes, whatever the request says
    for cl in G2_CLIENTS:
        for gt in ("client_credentials", "password"):
            out.append({"t": "grant2", "client": cl, "grant": gt, "req_scope": rng.choice([None, ["openid", "profile"], ["foo"]])})
    return out


G2_CLIENTS = {"g_list": ["email", "profile"], "g_empty": [], "g_none": None, "g_wide": ["openid", "profile", "email", "address", "phone", "offline_access", "foo"]}
_g2 = None


def _g2_server():
    """one provider per process with the OAuth2 token endpoint, user/password authentication and the four clients; every request uses a client
    of its own session slot (the helpers cannot serve a second request for the same client session)"""
    global _g2
    import os, json as _json
    import opbase
    from idpyoidc.server.oauth2.token import Token as OToken
    pw = os.path.join(opbase.BASEDIR, "passwd.json")
    _json.dump({"diana": "krall"}, open(pw, "w"))
    s = opbase.make_op(jwt_tokens=True, more_endpoints={"token": {"path": "token", "class": OToken, "kwargs": {"client_authn_method": opbase.CLIAUTH}}},
                       extra={"authentication": {"user": {"acr": "urn:oasis:names:tc:SAML:2.0:ac:classes:InternetProtocolPassword",
                                                            "class": "idpyoidc.server.user_authn.user.UserPass",
                                                            "kwargs": {"db_conf": {"class": "idpyoidc.server.util.JSONDictDB", "kwargs": {"filename": pw}}}}}})
    return s


def _grant2_impl(c):
    s = _g2_server()
    ctx = s.context
    cid = c["client"] + "_" + c["grant"]
    rec = dict(ctx.cdb["client_1"], client_id=cid)
    rec.pop("allowed_scopes", None)
    if G2_CLIENTS[c["client"]] is not None:
        rec["allowed_scopes"] = list(G2_CLIENTS[c["client"]])
    rec["grant_types_supported"] = ["client_credentials", "password", "authorization_code"]
    ctx.cdb[cid] = rec
    ctx.keyjar.add_symmetric(cid, rec["client_secret"])
    ep = s.get_endpoint("token")
    req = dict(client_id=cid, client_secret=rec["client_secret"], grant_type=c["grant"])
    if c["grant"] == "password":
        req.update(username="diana", password="krall")
    if c["req_scope"]:
        req["scope"] = " ".join(c["req_scope"])
    o = {}
    try:
        pr = ep.parse_request(req)
        if "error" in pr:
            return {"r": "refused", "how": str(pr.get("error"))}
        out = ep.process_request(pr)
        ra = out.get("response_args") if isinstance(out, dict) and "response_args" in out else out
        if "access_token" not in ra:
            return {"r": "refused", "how": str(ra)[:80]}
        at = ra["access_token"]
        sc = ra.get("scope")
        o["response"] = sorted(sc.split(" ") if isinstance(sc, str) else (sc or []))
        js = _jwt_scope(at)
        o["jwt"] = sorted(js) if js is not None else None
        g = ctx.session_manager.get_session_info_by_token(at, grant=True, handler_key="access_token")["grant"]
        o["session"] = sorted(g.get_token(at).scope)
        it = s.get_endpoint("introspection")
        i = it.process_request(it.parse_request({"token": at, "client_id": cid, "client_secret": rec["client_secret"]}))["response_args"]
        isc = i.get("scope", "")
        o["introspect"] = sorted(isc.split(" ") if isinstance(isc, str) and isc else (isc or []))
        o["r"] = "ok"
    except Exception as e:
        return {"r": "exc", "how": type(e).__name__ + ":" + str(e)[:80]}
    return o


XW = dict(authorize=16, redeem=26, parse=1, process=1, refresh=12, exchange=30, userinfo=1, introspect=8, revokeEp=1, revokeTok=1,
          revokeGrant=0.5, revokeClient=0.3, revokeUser=0.1, remove=0.3, tick=2)


def _ops_for(c):
    if "ops" in c:
        return c["ops"]
    if c["t"] == "narrow":
        return _narrow_ops(c)
    if c["t"] == "xref":
        return _xref_ops(c)
    ops, _ = prov.gen_adaptive(random.Random(c["gen_seed"]), c["n"], oidc=c["oidc"], jwt=c["jwt"], usage=c.get("usage"),
                               weights=XW if c.get("usage") == "exchange" else W,
                               runner=prov.Runner(c["oidc"], c["jwt"], usage=c.get("usage"), deny=c["deny"]) if c.get("deny") else None)
    return ops


def _jwt_scope(tok):
    try:
        p = tok.split(".")[1]
        p += "=" * (-len(p) % 4)
        sc = json.loads(base64.urlsafe_b64decode(p)).get("scope")
        return sc.split(" ") if isinstance(sc, str) else sc
    except Exception:
        return None


def impl(c):
    if c["t"] == "ri":
        return _ri_impl(c)
    if c["t"] == "grant2":
        return _grant2_impl(c)
    ops = _ops_for(c)
    R = prov.Runner(c["oidc"], c["jwt"], usage=c.get("usage"), deny=c.get("deny"))
    steps = []
    for o in ops:
        before = {t[0]: t[7] for t in R.projection()["toks"]} if o[0] == "exchange" else None
        r = R.op(o)
        st = {"out": prov.canon_outcome(r), "raw": r, "proj": R.projection()}
        if r[0] == "exchanged" and r[1] >= 0:
            it = R.op_safe(["introspect", _owner(R, r[1]), r[1]])
            st["xviews"] = {"response": r[2], "introspect": it[2] if it[0] == "introspect" and it[1] else None,
                            "subject": before.get(o[2]), "requested": o[5]}
        if r[0] == "tokens" and r[1] >= 0:
            at = R.tv(r[1])
            st["views"] = {"response": r[4], "jwt": sorted(_jwt_scope(at)) if c["jwt"] and _jwt_scope(at) is not None else None}
            it = R.op_safe(["introspect", _owner(R, r[1]), r[1]])
            st["views"]["introspect"] = it[2] if it[0] == "introspect" and it[1] else None
        steps.append(st)
    return {"ops": ops, "steps": steps}


def _owner(R, hnd):
    for hg, (g, path) in R.gobj.items():
        for t in g.issued_token:
            if R.h[t.value] == hnd:
                return path[1]
    return "client_1"


def model_lines(c, obs):
    if c["t"] == "ri":
        return []          # the resource-indicator policy is outside the provider model: the oracle states the property
    if c["t"] == "grant2":
        a = G2_CLIENTS[c["client"]]
        return ["prov\tccscope\t" + ("none" if a is None else "some:" + enc_list(a))]
    return [prov.cfg_line(c["oidc"], c["jwt"], c.get("usage"), c.get("deny"))] + [prov.model_line(o) for o in obs["ops"]]


def compare(c, obs, outs):
    if c["t"] == "ri":
        return []
    if c["t"] == "grant2":
        if obs["r"] != "ok":
            return [f"{c['grant']} grant of {c['client']} did not complete: {obs}"]
        m = sorted(dec_list(outs[0]))
        return [] if m == obs["session"] else [f"{c['grant']} grant of {c['client']}: token scope model={m} impl={obs['session']}"]
    return prov.compare_history(obs["ops"], obs["steps"], outs)


def oracle(c, obs):
    v = []
    if c["t"] == "ri":
        if obs["r"] != "ok":
            return v
        auth = set(obs["authorised"])
        for step in ("redeem", "refresh"):
            vw = obs.get(step)
            if not vw:
                continue
            for name in ("session", "jwt", "introspect"):
                if vw.get(name) is not None and not set(vw[name]) <= auth:
                    v.append({"cls": "scope-escalation", "config": "resource-indicators", "step": step, "view": name, "extra": sorted(set(vw[name]) - auth)})
            tok = vw.get("session")
            if tok is not None and vw["response"] != tok:
                v.append({"cls": "views-disagree", "config": "resource-indicators", "step": step, "view": "response", "stated": vw["response"], "token": tok})
        # (observed, not a clause of this property: with the policy configured a refresh token is issued when the REDEEM request's scope
        # names offline_access although the grant's does not)
        return v[:3]
    if c["t"] == "grant2":
        if obs["r"] != "ok":
            return v
        conf = set(G2_CLIENTS[c["client"]] or [])
        for view in ("session", "response", "jwt", "introspect"):
            if obs.get(view) is not None and not set(obs[view]) <= conf:
                v.append({"cls": "scope-escalation", "grant": c["grant"], "client": c["client"], "view": view, "extra": sorted(set(obs[view]) - conf)})
        views = {k: obs[k] for k in ("session", "response", "jwt", "introspect") if obs.get(k) is not None}
        if len({json.dumps(x) for x in views.values()}) > 1:
            v.append({"cls": "views-disagree", "grant": c["grant"], "views": views})
        return v
    authorised = {}   # grant handle -> set of authorised scopes
    for i, st in enumerate(obs["steps"]):
        o, r = obs["ops"][i], st["raw"]
        toks = {t[0]: t for t in st["proj"]["toks"]}
        if o[0] == "authorize" and r[0] == "code" and r[1] in toks:
            al = prov.ALLOWED[o[2]] if prov.ALLOWED[o[2]] is not None else prov.DEFAULT_ALLOWED
            authorised[toks[r[1]][2]] = set(o[3]) & set(al)
            if c.get("deny") in ("all", o[2]) and not set(o[3]) <= set(al):
                v.append({"cls": "unknown-scope-not-denied", "step": i, "client": o[2], "extra": sorted(set(o[3]) - set(al)), "setting": "provider" if c["deny"] == "all" else "client"})
        for h, t in toks.items():
            if t[2] in authorised and not set(t[7]) <= authorised[t[2]]:
                v.append({"cls": "scope-escalation", "step": i, "op": o[0], "token_class": t[1], "extra": sorted(set(t[7]) - authorised[t[2]])})
        if "xviews" in st:
            xv, nt = st["xviews"], toks.get(r[1])
            if nt is not None:
                ts = set(nt[7])
                if xv["subject"] is not None and not ts <= set(xv["subject"]):
                    v.append({"cls": "exchange-widens", "step": i, "extra": sorted(ts - set(xv["subject"])), "beyond": "subject token"})
                if xv["requested"] is not None and not ts <= set(xv["requested"]):
                    v.append({"cls": "exchange-widens", "step": i, "extra": sorted(ts - set(xv["requested"])), "beyond": "requested scope"})
                for name in ("response", "introspect"):
                    if xv[name] is not None and sorted(set(xv[name])) != sorted(ts):
                        v.append({"cls": "views-disagree", "step": i, "view": name, "stated": xv[name], "token": sorted(ts)})
                # an ExchangeGrant is bounded by what was authorised for the grant the subject token came from
                sg = toks[o[2]][2] if o[2] in toks else None
                if nt[2] not in authorised and sg in authorised:
                    # ... and, being derived from ONE token, by that subject token's scope ("for exchange: beyond the subject token's
                    # scope"): whatever is later minted inside the exchange grant (refresh, chained refresh) stays within it
                    authorised[nt[2]] = authorised[sg] & set(xv["subject"]) if xv["subject"] is not None else authorised[sg]
        if "views" in st:
            at = toks.get(r[1])
            if at is not None:
                ts = sorted(set(at[7]))
                for name, val in st["views"].items():
                    if val is not None and sorted(set(val)) != ts:
                        # the code-flow token response states the grant's scope; the access token inherits the code's = grant's
                        v.append({"cls": "views-disagree", "step": i, "view": name, "stated": val, "token": ts})
        if v:
            break
    return v


def known_key(c, v, known):
    return common.known_key(c, v, known)


def classify(c, obs):
    if c["t"] == "ri":
        return "ri:" + obs["r"]
    if c["t"] == "grant2":
        return f"grant2:{c['grant']}:{c['client']}:{obs['r']}"
    return ("oidc" if c["oidc"] else "oauth2") + ":" + ("jwt" if c["jwt"] else "opaque") + (":deny-" + c["deny"] if c.get("deny") else "")


def nontrivial(c, obs):
    if c["t"] in ("grant2", "ri"):
        return True
    return any((o[0] == "refresh" and o[3] is not None) or (o[0] == "exchange" and st["raw"][0] == "exchanged")
               for o, st in zip(obs["ops"], obs["steps"]))
