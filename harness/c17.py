"""C17 — provider cookies: round trip and unique parse of authenticated bytes."""
import base64
import hashlib
import hmac as pyhmac
import common
from common import enc_str, enc_list, dec_str
from cryptography.hazmat.primitives.ciphers.aead import AESGCM
from cryptography.fernet import Fernet
from cryptography.hazmat.primitives import hashes
from cryptography.hazmat.primitives.kdf.pbkdf2 import PBKDF2HMAC
from idpyoidc.server.cookie_handler import CookieHandler

RULE = ("cases: (rt) make_cookie_content -> parse_cookie for value/type strings incl. separators, JSON metacharacters, non-ASCII, in the four key "
        "configurations; (mut) structural mutations of genuine cookies: characters moved across each part boundary, parts swapped between two "
        "genuine cookies, base64 parts altered/truncated/extended, clear-text timestamp changed, part count changed. The model gets the "
        "values of HMAC/base64/AES-GCM/Fernet on the points it needs as tables computed by the harness with the real keys. "
        "non-trivial: the cookie differs from a genuine one or the payload contains a separator")
MODELLED = "modelled: CookieHandler._sign_enc_payload, _ver_dec_content, make_cookie_content (value), parse_cookie; HMAC/AES-GCM/Fernet/base64 are parameters (tables)"
ASSUMPTIONS = ["INT-CTXT of AES-GCM and Fernet, unforgeability of HMAC (hypotheses of the unique-parse theorem)",
               "http.cookies.SimpleCookie (header quoting / unquoting around the relying-party module's value) is at the interface"]

SIGN = "ghsNKDDLshZTPn974nOsIGhedULrsqnsGoBFBLwUKuJhE2ch"
ENC = "NXi6HD473d_YS4exVRn7z9z23mGmvU64"
PW, SALT = "0987654321abcdefghijklmnop...---", "abcdefghijklmnop"
_H = {}


def handler(mode):
    if mode not in _H:
        if mode == "signed":
            _H[mode] = CookieHandler(sign_key=SIGN)
        elif mode == "signedEnc":
            _H[mode] = CookieHandler(sign_key=SIGN, enc_key=ENC)
        elif mode == "encOnly":
            _H[mode] = CookieHandler(enc_key=ENC)
        else:
            _H[mode] = CookieHandler(crypt_config={"kwargs": {"password": PW, "salt": SALT, "iterations": 1}})
    return _H[mode]


def _fernet():
    kdf = PBKDF2HMAC(algorithm=hashes.SHA256(), length=32, salt=SALT.encode(), iterations=1)
    return Fernet(base64.urlsafe_b64encode(kdf.derive(PW.encode())))


def hx(b):
    return "h:" + b.hex()


def _sign_key():
    return handler("signed").sign_key.key        # SYMKey(k=...) base64url-decodes the configured string


def _enc_key():
    return handler("encOnly").enc_key.key


def mac(msg):
    return pyhmac.new(_sign_key(), msg.encode("utf-8"), hashlib.sha256).digest()


MODES = ["signed", "signedEnc", "encOnly", "crypt"]
VALS = ["diana", "", "a::b", "a:", ":a", "x|y", "{\"a\": 1}", "é中", " pad ", "a b", "::", "|", "1", "a:::b", "sso", "\n"]
TYPS = ["sso", "", "register", "a::", "|", "t ", "é"]


def cases(rng, tier):
    n = {"quick": 1, "thorough": 15, "search": 10}[tier]
    out = []
    for _ in range(500 * n):
        v = rng.choice(VALS) if rng.random() < 0.6 else common.rnd_text(rng, 10)
        t = rng.choice(TYPS) if rng.random() < 0.7 else common.rnd_text(rng, 5)
        out.append({"t": "rt", "mode": rng.choice(MODES), "v": v, "typ": t, "ts": str(rng.randint(1, 2 * 10**9))})
    for _ in range(900 * n):
        mode = rng.choice(MODES)
        g = [{"v": rng.choice(["diana", "bob", "x1", "é"]), "typ": rng.choice(["sso", "reg", "s"]), "ts": str(rng.randint(10**8, 2 * 10**9))} for _ in range(2)]
        out.append({"t": "mut", "mode": mode, "g": g, "mut": [rng.randint(0, 11), rng.randint(0, 10**6), rng.randint(0, 10**6)],
                    "src_mode": mode})
    # forged from scratch: hand-assembled part lists offered to every key configuration
    frag = ["", "=", "==", "AAAA", "admin::sso", "x::y", "1700000000", "0", "::", "a", "QQ=="]
    for _ in range(500 * n):
        k = rng.choice([1, 2, 3, 3, 3, 4, 4, 5])
        parts = [rng.choice(frag) if rng.random() < 0.8 else common.rnd_text(rng, 6, "ab:=|1") .replace("|", "") for _ in range(k)]
        if rng.random() < 0.5:
            parts[0] = str(rng.randint(10**8, 2 * 10**9))
        out.append({"t": "forge", "mode": rng.choice(MODES), "cookie": "|".join(parts), "g": []})
    # ---- the relying-party side cookie module the anchors name (idpyoidc.client.cookie: make_cookie / parse_cookie / cookie_signature)
    CL = ["bjmc::1463043535::upm", "hello", "", "a b", "x|y", "é中", "{\"a\": 1}", "v;w", "q,\"r\"", "tail1", "7"]
    for _ in range(120 * n):
        out.append({"t": "crt", "mode": rng.choice(["csigned", "cenc"]), "load": rng.choice(CL) if rng.random() < 0.7 else common.rnd_text(rng, 9),
                    "ts": str(rng.choice([rng.randint(1, 99), rng.randint(10**8, 10**9 - 1), rng.randint(10**9, 2 * 10**9)]))})
    for _ in range(250 * n):
        mode = rng.choice(["csigned", "cenc"])
        g = [{"load": rng.choice(["hello", "bjmc::1463043535::upm", "diana1", "x9"]), "ts": str(rng.randint(10**9, 2 * 10**9))} for _ in range(2)]
        out.append({"t": "cmut", "mode": mode, "g": g, "mut": [rng.choice([0, 1, 2, 3, 4, 5, 6, 7, 8, 11, 12, 13]), rng.randint(0, 10**6), rng.randint(0, 10**6)]})
    for _ in range(80 * n):
        k = rng.choice([1, 2, 3, 3, 3, 4, 4, 5])
        parts = [rng.choice(frag + ["da39a3ee5e6b4b0d3255bfef95601890afd80709"]) for _ in range(k)]
        out.append({"t": "cforge", "mode": rng.choice(["csigned", "cenc"]), "cookie": "|".join(parts), "g": []})
    return out


# ---------------------------------------------------------------------------------------------- idpyoidc.client.cookie
CSEED, CENC, CNAME = b"seed-of-the-relying-party-0123456789", b"encryption-key-of-the-rp-9876543210", "pyoidc"


def _c_value(kaka):
    """the value the cookie header carries for CNAME, as http.cookies reads it (interface)"""
    from http.cookies import SimpleCookie
    m = SimpleCookie(kaka).get(CNAME)
    return None if m is None else m.value


def _c_header(value):
    from http.cookies import SimpleCookie
    c = SimpleCookie()
    c[CNAME] = value
    return c.output(header="").strip()


def _c_genuine(mode, g):
    from idpyoidc.client import cookie as cc
    hdr = cc.make_cookie(CNAME, g["load"], CSEED, timestamp=g["ts"], enc_key=CENC if mode == "cenc" else None)
    return _c_value(hdr[1])


def _c_mutate(c, cookies):
    kind = c["mut"][0]
    s = cookies[0]
    P = s.split("|")
    if kind == 12 and len(P) == 3 and P[0]:      # last character of the load to the front of the timestamp
        P[0], P[1] = P[0][:-1], P[0][-1:] + P[1]
        return "|".join(P)
    if kind == 13 and len(P) == 3 and P[1]:      # first digit of the timestamp to the end of the load
        P[0], P[1] = P[0] + P[1][:1], P[1][1:]
        return "|".join(P)
    return mutate(c, cookies)


def _c_impl(c):
    from idpyoidc.client import cookie as cc
    if c["t"] == "cforge":
        value = c["cookie"]
    elif c["t"] == "crt":
        value = _c_genuine(c["mode"], c)
    else:
        value = _c_mutate(c, [_c_genuine(c["mode"], g) for g in c["g"]])
    try:
        kaka = _c_header(value)
        seen = _c_value(kaka)
    except Exception:
        return {"cookie": value, "parsed": "rejected", "seen": None}
    try:
        r = cc.parse_cookie(CNAME, CSEED, kaka, enc_key=CENC)
    except Exception:
        r = None
    return {"cookie": value, "seen": seen, "parsed": "rejected" if not r else [r[0], r[1]]}


def _c_tables(c, obs):
    from idpyoidc.client import cookie as cc
    parts = (obs["seen"] or "").split("|")
    macT, b64T, aeadT = [], [], []
    msgs = set()
    for g in ([c] if c["t"] == "crt" else c["g"]):
        msgs.add(g["load"] + g["ts"])
    if len(parts) == 3:
        msgs.add(parts[0] + parts[1])
    for m in sorted(msgs):
        macT += [m, pyhmac.new(CSEED, m.encode("utf-8"), hashlib.sha1).hexdigest()]      # own rendering of cookie_signature
    if len(parts) == 4:
        for p_ in parts[1:]:
            d = _b64(p_, True)
            if d is not None:
                b64T += [p_, d]
        try:
            iv, ct, tag = (base64.b64decode(parts[i]) for i in (1, 2, 3))
            key = hashlib.sha256(CENC + CSEED).digest()
            pt = AESGCM(key).decrypt(iv, ct + tag, parts[0].encode("utf-8")).decode("utf-8")
            aeadT += [hx(iv), hx(ct), hx(tag), parts[0], pt]
        except Exception:
            pass
    return macT, b64T, aeadT


def _genuine(mode, g):
    c = handler(mode).make_cookie_content("sess", g["v"], g["typ"], g["ts"])
    return c["value"]


def mutate(c, cookies):
    """deterministic structural mutation of cookies[0] (cookies[1] as donor)"""
    kind, a, b = c["mut"]
    s, d = cookies
    P, Q = s.split("|"), d.split("|")
    if kind == 0 and len(P) > 1:      # move k chars from the front of part i+1 to the end of part i
        i = a % (len(P) - 1); k = 1 + b % 3
        P[i], P[i + 1] = P[i] + P[i + 1][:k], P[i + 1][k:]
    elif kind == 1 and len(P) > 1:    # move k chars from the end of part i to the front of part i+1
        i = a % (len(P) - 1); k = 1 + b % 3
        P[i], P[i + 1] = P[i][:-k], P[i][-k:] + P[i + 1]
    elif kind == 2:                   # swap one part with the donor's
        i = a % len(P)
        if i < len(Q):
            P[i] = Q[i]
    elif kind == 3:                   # alter one character of a part
        i = a % len(P)
        if P[i]:
            j = b % len(P[i]); ch = P[i][j]
            P[i] = P[i][:j] + ("A" if ch != "A" else "B") + P[i][j + 1:]
    elif kind == 4:                   # base64 leniency: append junk
        i = a % len(P)
        P[i] = P[i] + ["=", "==", " ", "\n", "!", "é", "A"][b % 7]
    elif kind == 5:                   # truncate a part
        i = a % len(P)
        P[i] = P[i][: max(0, len(P[i]) - 1 - b % 4)]
    elif kind == 6:                   # change clear-text timestamp
        P[0] = str(int(P[0]) + 1 + b % 1000) if P[0].isdigit() else P[0] + "1"
    elif kind == 7:                   # drop a part
        del P[a % len(P)]
    elif kind == 8:                   # add a part
        P.insert(a % (len(P) + 1), ["", "x", P[0]][b % 3])
    elif kind == 9 and len(P) == 3:   # first timestamp digit to the end of the payload (boundary shift)
        P[0], P[1] = P[0][1:], P[1] + P[0][:1]
    elif kind == 10 and len(P) == 3:  # last payload char to the front of the timestamp
        P[0], P[1] = P[1][-1:] + P[0], P[1][:-1]
    # kind 11: unmodified
    return "|".join(P)


def _cookie_for(c):
    if c["t"] == "forge":
        return c["cookie"]
    if c["t"] == "rt":
        return _genuine(c["mode"], c)
    cookies = [_genuine(c["src_mode"], g) for g in c["g"]]
    return mutate(c, cookies)


def _parse(mode, cookie):
    try:
        r = handler(mode).parse_cookie("sess", [{"name": "sess", "value": cookie}])
    except Exception as e:
        return "rejected"
    if not r:
        return "rejected"
    return [r[0]["value"], r[0]["type"], r[0]["timestamp"]]


def impl(c):
    if c["t"] in ("crt", "cmut", "cforge"):
        return _c_impl(c)
    cookie = _cookie_for(c)
    return {"cookie": cookie, "parsed": _parse(c["mode"], cookie)}


def _b64(part, as_str):
    try:
        return hx(base64.b64decode(part if as_str else part.encode("utf-8")))
    except Exception:
        return None


def _lv(*xs):
    """the length:value framing of the MAC input (own rendering, not the library's)"""
    return "".join("%d:%s" % (len(x), x) for x in xs)


def tables(c, cookie):
    mode = c["mode"]
    parts = cookie.split("|")
    gen = [c] if c["t"] == "rt" else c["g"]
    b64T, macT, aeadT, fernetT = [], [], [], []
    as_str = len(parts) != 2
    for p in parts:
        d = _b64(p, as_str)
        if d is not None:
            b64T += [p, d]
    msgs = set()
    for g in gen:
        pl = "::".join([g["v"], g["typ"]])
        msgs.add(_lv(pl, g["ts"]))
    if len(parts) == 3:
        msgs.add(_lv(parts[1], parts[0]))
    plains = []
    if len(parts) == 4 and mode in ("signedEnc", "encOnly"):
        try:
            iv, ct, tag = (base64.b64decode(parts[i]) for i in (1, 2, 3))
            pt = AESGCM(_enc_key()).decrypt(iv, ct + tag, None).decode("utf-8")
            aeadT += [hx(iv), hx(ct), hx(tag), pt]
            plains.append(pt)
        except Exception:
            pass
    if len(parts) == 2 and mode == "crypt":
        try:
            raw = base64.b64decode(parts[1].encode("utf-8"))
            pt = _fernet().decrypt(raw).rstrip(b" ").decode("utf-8")
            fernetT += [hx(raw), pt]
        except Exception:
            pass
    # inner macs of decrypted plaintexts: any base64-looking tail the model may ask about
    for pt in plains:
        for g in gen:
            pl = "::".join([g["v"], g["typ"]])
            msgs.add(_lv(pl, g["ts"]))
        # last lv field: take text after the last ':' as candidate b64 mac
        tail = pt.rsplit(":", 1)[-1]
        d = _b64(tail, True)
        if d is not None:
            b64T += [tail, d]
    for m in sorted(msgs):
        macT += [m, hx(mac(m))]
    return macT, b64T, aeadT, fernetT


def model_lines(c, obs):
    if c["t"] in ("crt", "cmut", "cforge"):
        if obs["seen"] is None:
            return []
        macT, b64T, aeadT = _c_tables(c, obs)
        return ["\t".join(["cookie", "clientparse", enc_str(obs["seen"]), enc_list(macT), enc_list(b64T), enc_list(aeadT)])]
    # the cookie embeds random IVs: the model must see the very string the implementation parsed
    cookie = obs["cookie"]
    macT, b64T, aeadT, fernetT = tables(c, cookie)
    return ["\t".join(["cookie", "parse", c["mode"], enc_str(cookie), enc_list(macT), enc_list(b64T), enc_list(aeadT), enc_list(fernetT)])]


def compare(c, obs, outs):
    if not outs:
        return [] if obs["parsed"] == "rejected" else [f"no cookie of that name in the header but the parser answered {obs['parsed']!r}"]
    o = outs[0]
    if o == "rejected":
        m = "rejected"
    elif o.startswith("content\t"):
        m = [dec_str(x) for x in o.split("\t")[1:]]
    else:
        return [f"model answered {o}"]
    return [] if m == obs["parsed"] else [f"parse differs: model={m!r} impl={obs['parsed']!r}"]


def oracle(c, obs):
    v = []
    if c["t"] in ("crt", "cmut", "cforge"):
        if c["t"] == "crt":
            if obs["parsed"] != [c["load"], c["ts"]]:
                v.append({"cls": "rt-separator" if (c["mode"] == "csigned" and "|" in c["load"]) else "rt", "mode": c["mode"]})
        elif obs["parsed"] != "rejected":
            gen = [[g["load"], g["ts"]] for g in c["g"]]
            if obs["parsed"] not in gen:
                cls = "forged-content"
                if c["mode"] == "csigned" and any(obs["parsed"][0] + obs["parsed"][1] == g["load"] + g["ts"] for g in c["g"]):
                    cls = "boundary-shift"
                v.append({"cls": cls, "mode": c["mode"]})
        return v
    if c["t"] == "rt":
        if c["v"] == "" and c["typ"] == "":
            return v          # make_cookie_content produces an empty (deleting) cookie by design
        want = [c["v"], c["typ"], c["ts"]]
        if obs["parsed"] != want:
            pl = c["v"] + "::" + c["typ"]
            cls = "rt"
            if "::" in c["v"] or "::" in c["typ"] or c["v"].endswith(":") or c["typ"].startswith(":") and False:
                cls = "rt-separator"
            elif c["v"].endswith(":"):
                cls = "rt-separator"
            elif c["mode"] == "signed" and "|" in pl:
                cls = "rt-separator"
            elif c["mode"] == "crypt" and pl != pl.rstrip():
                cls = "rt-trailing-ws"
            v.append({"cls": cls, "mode": c["mode"]})
    else:
        if obs["parsed"] != "rejected":
            # a cookie produced with another key configuration of this provider still counts as genuine content
            gen = [[g["v"], g["typ"], g["ts"]] for g in c["g"]]
            if obs["parsed"] not in gen:
                cls = "forged-content"
                if c["mode"] == "signed" and c["src_mode"] == "signed":
                    g = c["g"][0]
                    if obs["parsed"][0] + "::" + obs["parsed"][1] + obs["parsed"][2] == g["v"] + "::" + g["typ"] + g["ts"]:
                        cls = "boundary-shift"
                v.append({"cls": cls, "mode": c["mode"]})
    return v


def known_key(c, v, known):
    return common.known_key(c, v, known)


def classify(c, obs):
    return f"{c['t']}:{c['mode']}:" + ("rejected" if obs["parsed"] == "rejected" else "content")


def nontrivial(c, obs):
    if c["t"] in ("crt", "cmut", "cforge"):
        return c["t"] != "crt" or any(ch in c["load"] for ch in ":| ;,\"")
    if c["t"] == "rt":
        return any(ch in c["v"] + c["typ"] for ch in ":| ") or obs["parsed"] != "rejected"
    return c["t"] == "forge" or c["mut"][0] != 11
