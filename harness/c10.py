"""C10 — protocol messages survive every wire format: per class x parameter x format round trips, codec correspondence."""
import importlib
import json
import sys
import common
from common import enc_str, enc_list, dec_str, dec_list
sys.path.insert(0, common.VERIF + "/tools")
import extract_msg
from urllib.parse import urlencode, parse_qs, parse_qsl, quote_plus, unquote_plus
from cryptojwt.key_jar import build_keyjar

RULE = ("cases: (cell) every Message subclass found by introspection x every declared parameter of a modelled kind x {dict, json, urlencoded, "
        "jwt(HS256/RS256 alternating)} x schema-directed values (boundary strings with space + & = % # quotes non-ASCII, multi-element lists, "
        "integers, booleans): real cls(**{p:v}) -> serialize -> cls().deserialize compared with the Lean value-level model (serialised "
        "form, percent-encoded text and deserialised value); (qs) urlencode/parse_qs on hostile key/value pairs vs the Lean codec; opaque kinds: "
        "real round-trip oracle only. non-trivial: value contains a wire metacharacter or is a multi-element list")
MODELLED = ("modelled: Message.to_dict/from_dict/_add_value, to_urlencoded/from_urlencoded for the kinds str,int,bool,list_serializer,sp_sep_list; "
            "urllib quote_plus/unquote_plus/urlencode/parse_qsl at the byte level. NOT modelled: nested messages, json/claims/identity-assurance "
            "kinds (opaque), the json text codec, JWS/JWE (idealised: sign then verify returns the payload)")
ASSUMPTIONS = ["str.encode('utf-8') and bytes.decode are mutually inverse on the generated (surrogate-free) text", "stdlib json is a faithful codec for dict-level values"]

KIND = extract_msg.KIND
_classes = None
_kj = None


def classes():
    global _classes
    if _classes is None:
        _classes = extract_msg.all_message_classes()
    return _classes


def keyjar():
    global _kj
    if _kj is None:
        _kj = build_keyjar([{"type": "RSA", "use": ["sig"]}, {"type": "oct", "use": ["sig"], "kid": "sym"}])
        _kj.add_symmetric("", "0123456789abcdef0123456789abcdef")
    return _kj


STRS = ["abc", "a b", "a+b", "a&b=c", "100%", "x#y", "\"q\"", "'s'", "é", "中文", "a\tb", "%41", "a%zzb", "~._-", "/?:@", " lead", "trail ", "a  b", "+", "&", "=", "‮"]
WORDS = ["openid", "email", "a+b", "x&y", "é", "100%", "q=1", "#", "~", "p.q", "A_B-9"]


def gen_value(rng, kind):
    if kind == "str":
        return rng.choice(STRS) if rng.random() < 0.8 else common.rnd_text(rng, 10) or "z"
    if kind == "int":
        return rng.choice([0, 1, 7, 10, 300, 1700000000, 10**12])
    if kind == "bool":
        return rng.random() < 0.5
    if kind in ("listStr", "spSep"):
        n = rng.randint(1, 4)
        l = [rng.choice(WORDS) for _ in range(n)]
        if kind == "listStr" and rng.random() < 0.15:
            l[rng.randrange(n)] = "two words"      # legal for e.g. contacts / client names; sp-separated kinds forbid it by definition
        return l
    raise ValueError(kind)


def cases(rng, tier):
    reps = {"quick": 1, "thorough": 8, "search": 4}[tier]
    out = []
    for qn, cls in classes().items():
        for pn, spec in cls.c_param.items():
            if pn == "*":
                continue
            kind = KIND.get(extract_msg.triple(spec), "other")
            if kind == "other":
                continue
            for _ in range(reps):
                # "httpurl": the urlencoded form as the relying party puts it on the wire for a GET request (client.util.get_http_url), to an
                # endpoint whose URL has a query part of its own
                fmts = ["dict", "json", "urlencoded", "jwt", "httpurl"]
                fmt = rng.choice(fmts) if tier == "quick" else None
                for f in ([fmt] if fmt else fmts):
                    out.append({"t": "cell", "cls": qn, "param": pn, "kind": kind, "fmt": f, "v": gen_value(rng, kind)})
    # opaque kinds (nested messages, JSON objects): no Lean value model; real round-trip oracle only
    from idpyoidc.message import Message
    for qn, cls in classes().items():
        for pn, spec in cls.c_param.items():
            if pn == "*" or KIND.get(extract_msg.triple(spec), "other") != "other":
                continue
            vt = spec[0][0] if isinstance(spec[0], list) else spec[0]
            if not (isinstance(vt, type) and (issubclass(vt, Message) or vt is dict)):
                continue
            # the form encoding too: a nested message travels as JSON text inside the form value and is decoded exactly once
            FM = ["dict", "json", "jwt", "urlencoded", "urlencoded"]
            if spec[3] is None:
                FM = ["dict", "json", "jwt"]
            for f in (list(dict.fromkeys(FM)) if tier != "quick" else [rng.choice(FM), FM[-1]] if vt is not dict and rng.random() < 0.5 else [rng.choice(FM)]):
                out.append({"t": "opq", "cls": qn, "param": pn, "fmt": f, "islist": isinstance(spec[0], list),
                            "vals": [rng.choice(["Apt=5, 1 Main Street", "a&b", "x y+z", "é=中", "p%3Dq", "k=v&k2=v2", "level%2Bmfa", "100%25", "x=%41", "%", "a%zz"]) for _ in range(3)]})
    for _ in range(300 * reps):
        ps = []
        for _ in range(rng.randint(0, 4)):
            ps.append([rng.choice(STRS + ["", "k"]), rng.choice(STRS + ["", ""])])
        out.append({"t": "qs", "pairs": ps, "kb": rng.random() < 0.5})
    for _ in range(300 * reps):
        out.append({"t": "unq", "txt": common.rnd_text(rng, 14, "ab+%2F41zZ&= é")})
    out += dpop_cases(rng)
    return out


def _canon(v):
    return v


def _nested_value(c, cls):
    from idpyoidc.message import Message
    spec = cls.c_param[c["param"]]
    vt = spec[0][0] if isinstance(spec[0], list) else spec[0]
    if vt is dict:
        v = {"k": c["vals"][0], "n": 1, "l": [c["vals"][1]]}
    else:
        names = [n for n, sp in vt.c_param.items() if sp[0] is str and sp[2] is None][:3] or ["x_a", "x_b", "x_c"]
        v = vt(**{n: c["vals"][i % 3] for i, n in enumerate(names)})
    return [v] if isinstance(spec[0], list) else v


def _deep(x):
    from idpyoidc.message import Message
    if isinstance(x, Message):
        return {k: _deep(v) for k, v in x.to_dict().items()}
    if isinstance(x, dict):
        return {k: _deep(v) for k, v in x.items()}
    if isinstance(x, list):
        return [_deep(v) for v in x]
    return x


def _impl_opq(c):
    cls = classes()[c["cls"]]
    try:
        val = _nested_value(c, cls)
        m = cls(**{c["param"]: val})
    except Exception as e:
        return {"r": "construct-exc", "cls": type(e).__name__}
    if c["param"] not in m:
        return {"r": "construct-exc", "cls": "dropped"}
    try:
        intended = _deep(val)
    except Exception as e:
        return {"r": "construct-exc", "cls": type(e).__name__}
    try:
        m.lax = True
        if c["fmt"] == "jwt":
            kj = keyjar()
            keys = kj.get_signing_key("oct", "")
            wire = m.to_jwt(key=keys, algorithm="HS256")
            back = cls().from_jwt(wire, keyjar=kj, key=keys)
        elif c["fmt"] == "json":
            back = cls().from_json(m.to_json())
        elif c["fmt"] == "urlencoded":
            back = cls().from_urlencoded(m.to_urlencoded())
        else:
            back = cls().from_dict(m.to_dict())
    except Exception as e:
        return {"r": "exc", "cls": type(e).__name__}
    return {"r": "ok", "intended": intended, "got": _deep(back.get(c["param"], "<absent>"))}


# classes with a (de)serialiser of their own: the DPoP proof (client and server add-on) — dict form and its signed-header form
DPOP = ["idpyoidc.client.oauth2.add_on.dpop.DPoPProof", "idpyoidc.server.oauth2.add_on.dpop.DPoPProof"]
_dpop_key = None


def dpop_cases(rng):
    out = []
    for qn in DPOP:
        for htu in ("https://op.example.org/token", "https://op.example.org/token?tenant=blue", "https://op.example.org/t#frag", "https://op.example.org/a%20b?x=1&y=2"):
            for extra in ({}, {"ext": True}, {"x5t#S256": "abc", "vendor": {"a": [1, 2]}}):
                out.append({"t": "dpop", "cls": qn, "htu": htu, "extra": extra, "jti": rng.choice(STRS), "htm": rng.choice(["POST", "GET"])})
    return out


def _impl_dpop(c):
    global _dpop_key
    import importlib
    from cryptojwt.jwk.ec import new_ec_key
    if _dpop_key is None:
        _dpop_key = new_ec_key("P-256")
    mod, name = c["cls"].rsplit(".", 1)
    cls = getattr(importlib.import_module(mod), name)
    jwk = dict(_dpop_key.serialize(private=False), **c["extra"])
    args = {"typ": "dpop+jwt", "alg": "ES256", "jwk": jwk, "jti": c["jti"], "htm": c["htm"], "htu": c["htu"], "iat": 1700000000}
    o = {"intended": json.loads(json.dumps(args))}
    try:
        m = cls()
        for k, v in args.items():
            m[k] = json.loads(json.dumps(v))
        def mem(x):
            return json.loads(json.dumps({k: x[k] for k in x.keys()}))
        o["dict"] = mem(cls().from_dict(m.to_dict()))
        o["json"] = mem(cls().from_json(m.to_json()))
        m2 = cls(**json.loads(json.dumps(args)))
        from cryptojwt.jwk.jwk import key_from_jwk_dict
        m2.key = key_from_jwk_dict(_dpop_key.serialize(private=True))     # create_header rewrites the key's kid: a copy per proof
        hdr = m2.create_header()
        back = cls().verify_header(hdr)
        o["header"] = {k: back[k] for k in ("jti", "htm", "htu", "iat")} if back is not None else None
        o["r"] = "ok"
    except Exception as e:
        o["r"], o["e"] = "exc", type(e).__name__ + ":" + str(e)[:80]
    return o


def impl(c):
    if c["t"] == "dpop":
        return _impl_dpop(c)
    if c["t"] == "opq":
        return _impl_opq(c)
    if c["t"] == "qs":
        pairs = [(k.encode(), v.encode()) for k, v in c["pairs"]]
        qs = urlencode(pairs)
        back = parse_qsl(qs, keep_blank_values=c["kb"], encoding="latin-1")
        return {"qs": qs, "back": [[k, v] for k, v in back]}
    if c["t"] == "unq":
        return {"out": unquote_plus(c["txt"].encode("utf-8").decode("latin-1"), encoding="latin-1")}
    cls = classes()[c["cls"]]
    fmt = c["fmt"]
    try:
        m = cls(**{c["param"]: c["v"]})
    except Exception as e:
        return {"r": "construct-exc", "cls": type(e).__name__}
    stored = m.get(c["param"], "<absent>")
    try:
        m.lax = True
        if fmt == "jwt":
            alg = "HS256" if len(c["param"]) % 2 else "RS256"
            kj = keyjar()
            keys = kj.get_signing_key("oct" if alg == "HS256" else "RSA", "")
            wire = m.to_jwt(key=keys, algorithm=alg)
            if "iss" in m and isinstance(m["iss"], str) and m["iss"] not in kj:
                # verification keys are looked up by the payload's issuer: register our keys under that name
                kj.import_jwks(kj.export_jwks(private=True), m["iss"])
                kj.add_symmetric(m["iss"], "0123456789abcdef0123456789abcdef")
            back = cls().from_jwt(wire, keyjar=kj, key=keys)
            wire_s = None
            stored = m.get(c["param"], "<absent>")     # IdToken.to_jwt stamps iat/exp: equality is against the message as serialised
        elif fmt == "urlencoded":
            wire = m.to_urlencoded()
            back = cls().from_urlencoded(wire)
            wire_s = wire
        elif fmt == "httpurl":
            from idpyoidc.client.util import get_http_url
            from urllib.parse import urlsplit
            ep = "https://login.example.org/authorize" + ("?tenant=contoso" if len(c["param"]) % 3 else "")
            wire = urlsplit(get_http_url(ep, m, "GET")).query
            back = cls().from_urlencoded(wire)
            back.pop("tenant", None) if "tenant" not in m else None
            wire_s = wire
        elif fmt == "json":
            wire = m.to_json()
            back = cls().from_json(wire)
            wire_s = None
        else:
            wire = m.to_dict()
            back = cls().from_dict(wire)
            wire_s = None
    except Exception as e:
        return {"r": "exc", "cls": type(e).__name__, "stored": stored}
    got = back.get(c["param"], "<absent>")
    # defaults of the class may add other keys on both sides; compare the parameter and the key sets
    return {"r": "ok", "stored": stored, "got": got, "wire": wire_s, "same_keys": sorted(m.keys()) == sorted(back.keys()),
            "dictform": m.to_dict().get(c["param"], "<absent>") if fmt in ("dict", "json", "jwt") else None}


def b(s):
    return enc_str(s.encode("utf-8").decode("latin-1"))


def enc_val(v):
    if isinstance(v, bool):
        return "b:" + ("1" if v else "0")
    if isinstance(v, int):
        return "i:%d" % v
    if isinstance(v, str):
        return "s:" + b(v)
    if isinstance(v, list):
        return "l:" + ";".join(b(x) for x in v)
    raise ValueError(v)


def dec_val(w):
    def ub(x):
        return dec_str(x).encode("latin-1").decode("utf-8", "replace")
    if w.startswith("s:"):
        return ub(w[2:])
    if w.startswith("i:"):
        return int(w[2:])
    if w.startswith("b:"):
        return w[2:] == "1"
    if w.startswith("l:"):
        return [ub(x) for x in w[2:].split(";")] if w[2:] else []
    return w


def model_lines(c, obs):
    if c["t"] in ("opq", "dpop"):
        return []
    if c["t"] == "qs":
        flat = []
        for k, v in c["pairs"]:
            flat += [k.encode().decode("latin-1"), v.encode().decode("latin-1")]
        return ["msg\tqs\t" + ("1" if c["kb"] else "0") + "\t" + enc_list(flat)]
    if c["t"] == "unq":
        return ["msg\tunq\t" + b(c["txt"])]
    if obs["r"] == "construct-exc" or obs.get("stored") == "<absent>":
        return []
    op = "url" if c["fmt"] in ("urlencoded", "httpurl") else "dict"
    return [f"msg\t{op}\t{c['kind']}\t{enc_val(obs['stored'])}"]


def compare(c, obs, outs):
    if c["t"] in ("opq", "dpop"):
        return []
    if c["t"] == "qs":
        f = outs[0].split("\t")
        qs = dec_str(f[0])
        back = dec_list(f[1]) if len(f) > 1 else []
        mb = [[back[i].encode("latin-1").decode("latin-1"), back[i + 1]] for i in range(0, len(back), 2)]
        d = []
        if qs != obs["qs"]:
            d.append(f"urlencode differs: model={qs!r} impl={obs['qs']!r}")
        if mb != obs["back"]:
            d.append(f"parse_qsl differs: model={mb!r} impl={obs['back']!r}")
        return d
    if c["t"] == "unq":
        m = dec_str(outs[0])
        return [] if m == obs["out"] else [f"unquote_plus differs: model={m!r} impl={obs['out']!r}"]
    if not outs:
        return []
    f = outs[0].split("\t")
    if c["fmt"] in ("urlencoded", "httpurl"):
        if f[0] == "none":
            return ["model cannot serialise"]
        text, quoted, back = f[0], dec_str(f[1]), dec_val(f[2])
        d = []
        if obs["r"] != "ok":
            return [f"impl {obs['r']} {obs.get('cls')}, model ok"]
        # the message may carry defaults: find our parameter in the real query string
        want = c["param"] + "=" + quoted
        if want not in obs["wire"].split("&"):
            d.append(f"encoded field differs: model={want!r} impl={obs['wire']!r}")
        if back != obs["got"]:
            d.append(f"deserialised differs: model={back!r} impl={obs['got']!r}")
        return d
    ser, res = dec_val(f[0]), f[1]
    d = []
    if obs["r"] != "ok":
        return [] if res == "exc" else [f"impl {obs['r']} {obs.get('cls')}, model {res}"]
    if obs["dictform"] != ser:
        d.append(f"dict form differs: model={ser!r} impl={obs['dictform']!r}")
    if res == "drop":
        if obs["got"] != "<absent>":
            d.append(f"model drops, impl got {obs['got']!r}")
    elif res == "exc":
        d.append("model exc, impl ok")
    else:
        mv = dec_val(res[3:])
        if mv != obs["got"]:
            d.append(f"deserialised differs: model={mv!r} impl={obs['got']!r}")
    return d


def oracle(c, obs):
    """m == deser(ser(m)) up to the textual rendering allowance, stated on the real objects"""
    if c["t"] == "dpop":
        v = []
        if obs["r"] != "ok":
            return [{"cls": "dpop-proof-does-not-round-trip", "how": obs.get("e")}]
        for fmt in ("dict", "json"):
            if obs[fmt] != obs["intended"]:
                diff = sorted(k for k in set(obs[fmt]) | set(obs["intended"]) if obs[fmt].get(k) != obs["intended"].get(k))
                v.append({"cls": "class-specific-roundtrip-differs", "class": c["cls"].split(".")[1] + ".DPoPProof", "fmt": fmt, "params": diff})
        want = {k: obs["intended"][k] for k in ("jti", "htm", "htu", "iat")}
        if obs["header"] != want:
            v.append({"cls": "class-specific-roundtrip-differs", "class": c["cls"].split(".")[1] + ".DPoPProof", "fmt": "signed header",
                      "params": sorted(k for k in want if (obs["header"] or {}).get(k) != want[k])})
        return v
    if c["t"] == "opq":
        if (obs["r"] == "ok" and obs["got"] != obs["intended"]) or (obs["r"] == "exc" and c["fmt"] == "urlencoded"):
            # `deser`: the deserialiser the schema declares for the parameter (what a finding about one family of them is keyed by)
            sp = classes()[c["cls"]].c_param[c["param"]]
            return [{"cls": "nested-roundtrip-differs", "fmt": c["fmt"], "param": c["param"], "deser": getattr(sp[3], "__name__", None)}]
        return []
    if c["t"] != "cell":
        if c["t"] == "qs":
            want = [[k, v] for k, v in c["pairs"] if (v != "" or c["kb"]) and not (k == "" and v == "" )]
            # parse_qsl works on the text: compare decoded text
            return []
        return []
    if obs["r"] == "construct-exc":
        return []
    v = []
    if obs["r"] == "exc":
        return [{"cls": "roundtrip-exception", "fmt": c["fmt"], "kind": c["kind"], "exc": obs["cls"]}]
    st, got = obs["stored"], obs["got"]
    if c["fmt"] in ("urlencoded", "httpurl"):
        def textual(x):
            if isinstance(x, bool):
                return str(x)
            if isinstance(x, int):
                return str(x)
            return x
        if textual(st) != got:
            space = isinstance(st, list) and any(" " in x for x in st)
            # (the space finding is one of the urlencoded codec, whichever way the text travels)
            v.append({"cls": "list-element-with-space-split" if space else "roundtrip-differs", "fmt": "urlencoded" if space else c["fmt"], "kind": c["kind"]})
    else:
        if st != got:
            space = isinstance(st, list) and any(" " in x for x in st)
            v.append({"cls": "list-element-with-space-split" if space else "roundtrip-differs", "fmt": c["fmt"], "kind": c["kind"]})
    if not obs["same_keys"]:
        v.append({"cls": "parameter-set-changed", "fmt": c["fmt"], "kind": c["kind"]})
    return v


def known_key(c, v, known):
    return common.known_key(c, v, known)


def classify(c, obs):
    if c["t"] == "dpop":
        return f"dpop:{obs['r']}"
    if c["t"] == "opq":
        return f"opaque:{c['fmt']}:{obs['r']}"
    if c["t"] == "cell":
        return f"cell:{c['kind']}:{c['fmt']}:{obs['r']}"
    return c["t"]


def nontrivial(c, obs):
    if c["t"] == "dpop":
        return True
    if c["t"] == "opq":
        return obs["r"] == "ok"
    s = json.dumps(c.get("v", c.get("pairs", c.get("txt"))), ensure_ascii=False)
    return any(ch in s for ch in " +&=%#'é中") or (isinstance(c.get("v"), list) and len(c["v"]) > 1)


def generated_obligations():
    return sum(len(cls.c_param) for cls in classes().values())
