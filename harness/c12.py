"""C12 — provider and relying party interoperate over the configuration space; all views of the result agree."""
import base64
import itertools
import json
import random
import common
import clock
import opbase
import tandem

clock.install()
T0 = 1_800_000_000
RULE = ("cases: cells of the configuration product response_type x response_mode x token_endpoint_auth_method x access-token format x "
        "refresh-token format x ID-token signing algorithm x ID-token encryption x userinfo signing/encryption x request transport (plain, "
        "request object by value, by request_uri, pushed) x PKCE; quick = a pairwise covering array plus the corner cells, thorough = a much "
        "larger sample of the product (the evidence says how much); each cell with fresh random state / nonce / scopes / claims request: a real "
        "StandAloneClient discovers and registers at a real in-process provider through an HTTP bridge, the harness plays the browser (query, "
        "fragment, form_post), the RP finalizes (token request with the cell's client authentication, ID-token verification, userinfo). "
        "Oracle (cross-view): client, sub, scope, nonce and expiry as seen by the RP = recorded in the provider's session = stated in the "
        "token response = contained in the JWT access token = reported by introspection and userinfo. The Lean negotiation model says for "
        "each cell what is negotiated (response mode actually used, algorithms, whether a refresh token and an ID token appear where). "
        "non-trivial: any cell that is not the all-default one")
MODELLED = ("modelled: the negotiation (what the registration response fixes from client preferences and provider capabilities; which response "
            "placement a response_type x response_mode pair yields; which artefacts a flow yields). NOT modelled: serialisers, JOSE, HTTP — that a "
            "cell completes and that the views agree is observed by the correspondence, cell by cell")
ASSUMPTIONS = ["cryptojwt implements the JOSE algorithms both halves name"]

DIMS = {
    # all seven response types (the provider serves the token-bearing ones too, and the RP handles them when configured to ask for them)
    "rt": ["code", "id_token", "code id_token", "code token", "id_token token", "code id_token token", "token"],
    "rm": [None, "query", "fragment", "form_post"],
    "am": ["client_secret_basic", "client_secret_post", "client_secret_jwt", "private_key_jwt"],
    "atf": ["opaque", "jwt"],
    "rtf": ["opaque", "jwt"],
    "ialg": ["RS256", "ES256", "HS256", "PS256", "HS384", "HS512", "RS384"],
    "ienc": [None, "RSA-OAEP", "ECDH-ES"],
    "ui": ["json", "RS256", "ES256", "enc"],
    "req": ["plain", "request", "request_uri", "par"],
    "pkce": [False, True],
}
STATS = {"cells": 0, "completed": 0, "by_fail": {}}
_pairs = {}


def covering(rng, dims):
    """greedy pairwise covering array"""
    keys = list(dims)
    need = set()
    for a, b in itertools.combinations(keys, 2):
        for x in dims[a]:
            for y in dims[b]:
                need.add((a, x, b, y))
    rows = []
    while need:
        best, bestc = None, -1
        for _ in range(40):
            row = {k: rng.choice(dims[k]) for k in keys}
            # seed with one needed pair
            a, x, b, y = rng.choice(list(need)) if len(need) < 200 else next(iter(need))
            row[a], row[b] = x, y
            c = sum(1 for (p, u, q, w) in need if row[p] == u and row[q] == w) if len(need) < 3000 else \
                sum(1 for p, q in itertools.combinations(keys, 2) if (p, row[p], q, row[q]) in need)
            if c > bestc:
                best, bestc = row, c
        rows.append(best)
        for p, q in itertools.combinations(keys, 2):
            need.discard((p, best[p], q, best[q]))
    return rows


def cases(rng, tier):
    rows = covering(rng, DIMS)
    base = {k: v[0] for k, v in DIMS.items()}
    rows.insert(0, base)
    # every value of every dimension on the base shape
    for k, vs in DIMS.items():
        for v in vs[1:]:
            rows.append(dict(base, **{k: v}))
    n = {"quick": 0, "thorough": 3000, "search": 800}[tier]
    for _ in range(n):
        rows.append({k: rng.choice(v) for k, v in DIMS.items()})
    out = []
    for r in rows:
        out.append({"t": "cell", "cell": r, "seed": rng.getrandbits(40)})
        if r["req"] == "par" or rng.random() < 0.15:
            out.append({"t": "cell", "cell": r, "seed": rng.getrandbits(40), "reload": True})
        if r["atf"] == "jwt" and rng.random() < 0.3:
            out.append({"t": "cell", "cell": r, "seed": rng.getrandbits(40), "short_grant": True})
    return out


def _payload(jwt):
    try:
        p = jwt.split(".")[1]
        return json.loads(base64.urlsafe_b64decode(p + "=" * (-len(p) % 4)))
    except Exception:
        return None


def pair_for(cell, short_grant=False):
    """provider and RP configured and registered for the cell (cached per configuration shape; flows are independent sessions).
    short_grant: the grant's lifetime (300 s) is BELOW the access token's (600 s) — every view of the token's expiry still is the same one"""
    key = json.dumps({k: cell[k] for k in ("am", "atf", "rtf", "ialg", "ienc", "ui", "req", "pkce", "rt")}, sort_keys=True) + ("|short" if short_grant else "")
    if key in _pairs:
        return _pairs[key]
    from idpyoidc.server.oauth2.pushed_authorization import PushedAuthorization
    more = {"pushed_authorization": {"path": "pushed_authorization", "class": PushedAuthorization,
                                     "kwargs": {"client_authn_method": opbase.CLIAUTH}}}
    # what the operator of the provider configured it to support (the defaults advertise `code` only and no encryption)
    extra = {"response_types_supported": DIMS["rt"], "scopes_supported": ["openid", "profile", "email", "address", "phone", "offline_access"],
             "encrypt_id_token_supported": True, "encrypt_userinfo_supported": True}
    # lifetimes in the usage rules differ from the token handlers' own (3600 / 86400): every view of the expiry must follow the same one
    from idpyoidc.server.authz import AuthzHandling
    extra["authz"] = {"class": AuthzHandling, "kwargs": {"grant_config": {"usage_rules": {
        "authorization_code": {"supports_minting": ["access_token", "refresh_token", "id_token"], "max_usage": 1, "expires_in": 120},
        "access_token": {"expires_in": 600},
        "refresh_token": {"supports_minting": ["access_token", "refresh_token", "id_token"], "expires_in": 7200}}, "expires_in": 300 if short_grant else 43200}}}
    if cell["pkce"]:
        extra["add_on"] = {"pkce": {"function": "idpyoidc.server.oauth2.add_on.pkce.add_support", "kwargs": {"essential": False}}}

    def op_post(server):
        # token formats: access and refresh independently
        th = server.context.session_manager.token_handler
        from idpyoidc.server.token.jwt_token import JWTToken
        for cls, fmt in (("access_token", cell["atf"]), ("refresh_token", cell["rtf"])):
            if fmt == "jwt" and not isinstance(th[cls], JWTToken):
                th.handler[cls] = JWTToken(token_class=cls, upstream_get=server.context.unit_get, lifetime=th[cls].lifetime, aud=["https://example.org/appl"])

    rp_conf = {
        "client_authn_methods": ["client_secret_basic", "client_secret_post", "client_secret_jwt", "private_key_jwt", "bearer_header"],
        "response_types_supported": [cell["rt"]],
        "grant_types_supported": ["authorization_code", "implicit", "refresh_token"],
        "token_endpoint_auth_methods_supported": [cell["am"]],
        "id_token_signing_alg_values_supported": [cell["ialg"]],
    }
    if cell["ienc"]:
        rp_conf["encrypt_id_token_supported"] = True
        rp_conf["id_token_encryption_alg_values_supported"] = [cell["ienc"]]
        rp_conf["id_token_encryption_enc_values_supported"] = ["A128CBC-HS256"]
    if cell["ui"] in ("RS256", "ES256"):
        rp_conf["userinfo_signing_alg_values_supported"] = [cell["ui"]]
    elif cell["ui"] == "enc":
        rp_conf["encrypt_userinfo_supported"] = True
        rp_conf["userinfo_encryption_alg_values_supported"] = ["RSA-OAEP"]
        rp_conf["userinfo_encryption_enc_values_supported"] = ["A128CBC-HS256"]
    add_ons = {}
    if cell["pkce"]:
        add_ons["pkce"] = {"function": "idpyoidc.client.oauth2.add_on.pkce.add_support", "kwargs": {"code_challenge_length": 64, "code_challenge_method": "S256"}}
    if cell["req"] == "par":
        add_ons["pushed_authorization"] = {"function": "idpyoidc.client.oauth2.add_on.par.add_support", "kwargs": {"authn_method": cell["am"]}}
    if add_ons:
        rp_conf["add_ons"] = add_ons
    if cell["req"] in ("request", "request_uri"):
        rp_conf["request_object_signing_alg_values_supported"] = ["RS256"]
        rp_conf["request_parameter_supported" if cell["req"] == "request" else "request_uri_parameter_supported"] = True
    rp_conf["key_conf"] = {"key_defs": [{"type": "RSA", "use": ["sig"]}, {"type": "EC", "crv": "P-256", "use": ["sig"]},
                                        {"type": "RSA", "use": ["enc"]}, {"type": "EC", "crv": "P-256", "use": ["enc"]}]}
    try:
        pair = tandem.make_pair(op_kwargs={"more_endpoints": more, "extra": extra, "keys": "pwsalt"}, rp_conf=rp_conf, op_post=op_post)
    except Exception as e:
        pair = ("setup-failed", type(e).__name__ + ":" + str(e)[:160])
    _pairs[key] = pair
    return pair


def impl(c):
    cell = c["cell"]
    rng = random.Random(c["seed"])
    STATS["cells"] += 1
    clock.CLOCK.t = T0
    pair = pair_for(cell, bool(c.get("short_grant")))
    obs = {"stage": None, "views": {}}
    if pair[0] == "setup-failed":
        obs.update(stage="setup", why=pair[1])
        return _fail(obs)
    server, rp, log, files = pair
    del log[:]
    ctx = server.context
    scopes = ["openid"] + rng.sample(["profile", "email", "offline_access"], rng.randint(0, 3))
    if rng.random() < 0.35:
        scopes.append(rng.choice(["foo", "urn:example:unsupported"]))      # a scope the provider does not support: dropped, consistently
    req_args = {"scope": scopes, "response_type": cell["rt"]}
    if cell["rm"]:
        req_args["response_mode"] = cell["rm"]
    if rng.random() < 0.4:
        req_args["claims"] = {"userinfo": {"nickname": None}, "id_token": {"email": {"essential": True}}}
    beh = {}
    if cell["req"] in ("request", "request_uri"):
        beh["request_param"] = cell["req"]
    try:
        obs["stage"] = "init"
        # request objects by reference are written to a directory the RP serves: the bridge serves them from memory
        if cell["req"] == "request_uri":
            import os, tempfile
            d = os.path.join(opbase.BASEDIR, "requests")
            os.makedirs(d, exist_ok=True)
            rp.get_context().claims.set_usage("requests_dir", d)
        url = rp.init_authorization(req_args=req_args, behaviour_args=beh or None)
        if cell["req"] == "request_uri":
            from urllib.parse import urlsplit, parse_qs
            ru = parse_qs(urlsplit(url).query).get("request_uri", [None])[0]
            if ru:
                import os
                fn = os.path.join(opbase.BASEDIR, "requests", ru.rsplit("/", 1)[-1])
                if os.path.exists(fn):
                    files[ru.split("#")[0]] = open(fn).read()
        state = [s for s in rp.get_context().cstate._db][-1]
        sent = rp.get_context().cstate.get(state)
        obs["sent"] = {"nonce": sent.get("nonce"), "scope": sent.get("scope"), "state": state}
        obs["stage"] = "authorization"
        if c.get("reload"):
            # the provider's state goes through an export / import (a JSON text) between the request's first leg — the pushed request,
            # where there is one — and the authorization request: every cell must complete all the same
            server.context.load(json.loads(json.dumps(server.context.dump())))
        params, how = tandem.browser(server, url, log)
        if "__error__" in params:
            obs["why"] = json.dumps(params["__error__"])[:200]
            return _fail(obs)
        obs["delivery"] = how["how"]
        obs["authz_scope"] = params.get("scope")       # what the authorization response itself states
        obs["stage"] = "finalize"
        if "error" in params:
            obs["stage"] = "authorization"
            obs["why"] = "error response: " + params["error"] + " " + params.get("error_description", "")[:120]
            return _fail(obs)
        res = rp.finalize(params)
        if "error" in res:
            obs["why"] = str(res["error"])[:200]
            return _fail(obs)
        obs["stage"] = "views"
        rec = rp.get_context().cstate.get(state)
        cid = rp.get_context().get_client_id()
        idt = res.get("id_token")
        at = res.get("token")
        v = obs["views"]
        v["rp"] = {"client": cid, "sub": idt.get("sub") if idt else None, "nonce": idt.get("nonce") if idt else None,
                   "scope": rec.get("scope"), "expires_in": rec.get("expires_in"), "idt_exp": idt.get("exp") if idt else None,
                   # when the RP itself believes the access token it goes on to use expires
                   "expires_at": rec.get("__expires_at")}
        ui = res.get("userinfo")
        v["userinfo"] = {"sub": ui.get("sub") if hasattr(ui, "get") else None}
        # the provider's session
        sm = ctx.session_manager
        gr = None
        for key, node in sm.db.db.items():
            if hasattr(node, "issued_token") and node.authorization_request and node.authorization_request.get("state") == state:
                gr = (key, node)
        if gr is None:
            obs["why"] = "no grant recorded for the state"
            return _fail(obs)
        key, g = gr
        atok = [t for t in g.issued_token if t.value == at]
        v["session"] = {"client": key.split(";;")[1], "sub": g.sub, "nonce": g.authorization_request.get("nonce"), "scope": sorted(g.scope),
                        "at_expires_at": atok[0].expires_at if atok else None, "at_scope": sorted(atok[0].scope) if atok else None}
        if at:
            p = _payload(at) if at.count(".") == 2 else None
            if p is not None:
                sc = p.get("scope")
                v["jwt"] = {"client": p.get("client_id"), "sub": p.get("sub"), "scope": sorted(sc.split(" ") if isinstance(sc, str) else (sc or [])), "exp": p.get("exp")}
            ep = server.get_endpoint("introspection")
            sec = ctx.cdb[cid]["client_secret"]
            out = ep.process_request(ep.parse_request({"token": at, "client_id": cid, "client_secret": sec}))["response_args"]
            sc = out.get("scope", "")
            v["introspection"] = {"active": out.get("active"), "client": out.get("client_id"), "sub": out.get("sub"),
                                  "scope": sorted(sc.split(" ") if isinstance(sc, str) else sc), "exp": out.get("exp")}
        obs["artefacts"] = {"code": "code" in params, "id_token_front": "id_token" in params, "access_token_front": "access_token" in params,
                            "refresh_token": bool(rec.get("refresh_token")), "id_token": idt is not None, "access_token": bool(at)}
        obs["calls"] = [l[1] for l in log if l[0] in ("GET", "POST")]
        raw = rec.get("id_token") or params.get("id_token") or ""
        obs["idt_encrypted"] = raw.count(".") == 4
        obs["stage"] = "done"
        STATS["completed"] += 1
        return obs
    except Exception as e:
        import traceback
        obs["why"] = type(e).__name__ + ": " + str(e)[:200]
        obs["tb"] = traceback.format_exc()[-900:]
        obs["log"] = [l for l in log if l[0] == "EXC"][:2]
        return _fail(obs)


def _fail(obs):
    k = f"{obs['stage']}:{(obs.get('why') or '')[:60]}"
    STATS["by_fail"][k] = STATS["by_fail"].get(k, 0) + 1
    obs["failed"] = True
    return obs


def model_lines(c, obs):
    cell = c["cell"]
    offline = "offline_access" in (obs.get("sent") or {}).get("scope", []) if obs.get("sent") else False
    return ["\t".join(["interop", "run", cell["rt"], cell["rm"] or "-", cell["am"], cell["atf"], cell["rtf"], cell["ialg"], cell["ienc"] or "-", cell["ui"],
                        cell["req"], "1" if cell["pkce"] else "0", "1" if offline else "0"])]


def compare(c, obs, outs):
    o = outs[0]
    if o == "refused":
        if not (obs.get("failed") and obs["stage"] == "authorization" and "wrong response_mode" in (obs.get("why") or "")):
            return [f"model: refused for the response_mode, implementation: stage={obs['stage']} {obs.get('why')}"]
        return []
    if obs.get("failed"):
        return [f"model: completes, implementation fails at {obs['stage']}: {obs.get('why')}"]
    f = o.split("\t")
    a = obs["artefacts"]
    want = {"placement": f[0], "calls": f[1].split(","), "code": f[2] == "1", "id_token_front": f[3] == "1", "token_response": f[4] == "1",
            "refresh_token": f[5] == "1", "id_token_encrypted": f[6] == "1", "userinfo": f[7] == "1", "access_token_front": f[8] == "1",
            "id_token": f[9] == "1", "access_token": f[10] == "1"}
    if not a["id_token"]:
        want["id_token_encrypted"] = False         # no ID token at all (code token / token): nothing to encrypt
    got = {"placement": obs["delivery"], "calls": obs["calls"], "code": a["code"], "id_token_front": a["id_token_front"], "token_response": "token" in obs["calls"],
           "refresh_token": a["refresh_token"], "id_token_encrypted": obs.get("idt_encrypted"), "userinfo": "userinfo" in obs["calls"],
           "access_token_front": a["access_token_front"], "id_token": a["id_token"], "access_token": a["access_token"]}
    d = {k: (want[k], got[k]) for k in want if want[k] != got[k]}
    return [f"cell {c['cell']}: (model, implementation) differ: {d}"] if d else []


def oracle(c, obs):
    cell = c["cell"]
    v = []
    if obs.get("failed"):
        if cell["rm"] == "query" and cell["rt"] != "code" and "wrong response_mode" in (obs.get("why") or ""):
            return v        # an ID token must not travel in a query (OAuth 2.0 Multiple Response Type Encoding): the refusal is required
        kind = "code-with-fragment-refused" if (cell["rm"] == "fragment" and cell["rt"] == "code" and "wrong response_mode" in (obs.get("why") or "")) else "flow-does-not-complete"
        v.append({"cls": kind, "stage": obs["stage"], "why": (obs.get("why") or "")[:120], "cell": cell})
        return v
    vw = obs["views"]
    def agree(field, vals):
        vals = {k: x for k, x in vals.items() if x is not None}
        if len({json.dumps(x, sort_keys=True) for x in vals.values()}) > 1:
            v.append({"cls": "views-disagree", "field": field, "views": vals, "cell": cell})
    agree("client", {k: vw[k].get("client") for k in vw if "client" in vw[k]})
    agree("sub", {k: vw[k].get("sub") for k in vw if "sub" in vw[k]})
    agree("nonce", {"rp": vw["rp"]["nonce"], "session": vw["session"]["nonce"], "sent": obs["sent"]["nonce"]})
    sc = {"session_token": vw["session"]["at_scope"]}
    if "jwt" in vw:
        sc["jwt"] = vw["jwt"]["scope"]
    if "introspection" in vw:
        sc["introspection"] = vw["introspection"]["scope"]
    rs = vw["rp"]["scope"]
    if rs is not None:
        sc["token_response"] = sorted(rs.split(" ") if isinstance(rs, str) else rs)
    az = obs.get("authz_scope")
    if az:
        sc["authorization_response"] = sorted(az.split(" ") if isinstance(az, str) else az)
    sc["session_grant"] = vw["session"]["scope"]
    agree("scope", sc)
    ex = {"session": vw["session"]["at_expires_at"]}
    if "jwt" in vw:
        ex["jwt"] = vw["jwt"]["exp"]
    if "introspection" in vw:
        ex["introspection"] = vw["introspection"]["exp"]
    if vw["rp"]["expires_in"] is not None:
        ex["token_response"] = T0 + int(vw["rp"]["expires_in"])
    if vw["session"]["at_expires_at"] is not None:
        # (absent counts: an RP that recorded no expiry treats the token as never expiring)
        ex["rp_bookkeeping"] = vw["rp"].get("expires_at") or 0
    agree("expiry", ex)
    if "introspection" in vw and vw["introspection"]["active"] is not True:
        v.append({"cls": "fresh-access-token-not-active", "cell": cell})
    return v[:2]


def known_key(c, v, known):
    return common.known_key(c, v, known)


def classify(c, obs):
    return "done" if not obs.get("failed") else f"fail:{obs['stage']}"


def nontrivial(c, obs):
    return any(c["cell"][k] != DIMS[k][0] for k in DIMS)


def evidence_extra():
    full = 1
    for v in DIMS.values():
        full *= len(v)
    return {"cells_run": STATS["cells"], "cells_completed": STATS["completed"], "product_size": full, "failures": STATS["by_fail"]}
