"""C08 — the relying party accepts only valid ID Tokens."""
import itertools
import json
from urllib.parse import urlsplit, parse_qs, urlencode
import common
import clock
from common import enc_str
import rpbase
from rpbase import ISS, ISSJ, CID

clock.install()
T0 = 1_800_000_000
STORAGE = 4 * 3600          # idpyoidc.message.oidc.NONCE_STORAGE_TIME
RULE = ("cases: a genuine ID token for a pending flow of a real StandAloneClient (no provider needed: the harness signs), then every single "
        "mutation and random pairs: each claim removed / altered / retyped (iss: other known issuer, unknown issuer, list; sub; aud: string, "
        "other client, several audiences with and without azp; azp; exp/iat: absent, past, future, inside and outside the skew, older than the "
        "nonce storage time, exp<iat; nonce: absent, of another pending flow, wrong; at_hash/c_hash absent or wrong), header alg rewritten "
        "(none with and without signature, other family), kid absent / wrong, signed with the issuer's RSA or EC key, another known issuer's "
        "keys, foreign keys, the client secret (HS256), the issuer's public key as HMAC secret, unsigned; RP settings: registered "
        "id_token_signed_response_alg (static configuration and dynamic registration), allow alg none, clock skew, missing-kid tolerance; "
        "delivered through AuthorizationResponse/AccessTokenResponse.verify and through Service.parse_response + update_service_context at the "
        "authorization and the token endpoint. Outcome accepted/rejected and whether a verified ID token was stored, compared with the Lean "
        "model; oracle: an independent validator of the property's conjunction. non-trivial: any mutation or non-default setting")
MODELLED = ("modelled: verify_id_token (none policy, known issuer, hash checks), IdToken.verify (schema, iss, aud/azp, time window, nonce), "
            "the nonce checks of Authorization.post_parse_response and AccessToken.update_service_context, which arguments "
            "gather_verify_arguments supplies. At the interface: JWS verification and cryptojwt's key selection (field `sigOk` computed by the "
            "harness from who signed, with which kid, and which algorithm the RP asked for)")
ASSUMPTIONS = ["signature verification is sound for the keys the key jar selects (cryptojwt)", "the client secret is known to the issuer and the client only"]

CFGS = [
    {"sigalg": None, "reg": "static", "allow_none": False, "skew": None, "missing_kid": False},
    {"sigalg": "RS256", "reg": "dynamic", "allow_none": False, "skew": 0, "missing_kid": False},
    {"sigalg": "ES256", "reg": "dynamic", "allow_none": False, "skew": 60, "missing_kid": True},
    {"sigalg": "ES256", "reg": "static", "allow_none": False, "skew": 0, "missing_kid": False},
    {"sigalg": "HS256", "reg": "dynamic", "allow_none": False, "skew": None, "missing_kid": False},
    {"sigalg": "none", "reg": "dynamic", "allow_none": False, "skew": 0, "missing_kid": False},
    {"sigalg": None, "reg": "static", "allow_none": True, "skew": 0, "missing_kid": True},
    {"sigalg": "RS256", "reg": "dynamic", "allow_none": True, "skew": 60, "missing_kid": False},
    # the relying party's state exported and imported into a freshly built client (default settings) before anything is verified:
    # what was configured — a zero clock skew, the registered algorithm — is part of that state
    {"sigalg": "RS256", "reg": "dynamic", "allow_none": False, "skew": 0, "missing_kid": False, "restored": True},
    {"sigalg": "ES256", "reg": "static", "allow_none": False, "skew": 0, "missing_kid": False, "restored": True},
    # the authorization request travels as a signed request object passed BY VALUE (state and nonce are inside the object only):
    # what the client remembers of its own request must not depend on how the request travelled
    {"sigalg": "RS256", "reg": "dynamic", "allow_none": False, "skew": 0, "missing_kid": False, "jar": "request"},
    {"sigalg": None, "reg": "static", "allow_none": False, "skew": None, "missing_kid": False, "jar": "request"},
]
MUT = {
    "iss": ["absent", "J", "unknown", "list"],
    "sub": ["absent", "int"],
    "aud": ["me-str", "absent", "other", "me+other", "other+me", "empty"],
    "azp": ["me", "other"],
    "exp": ["absent", "past", "past-in-skew", "str"],
    "iat": ["absent", "future", "future-in-skew", "old", "after-exp"],
    "nonce": ["absent", "other-flow", "wrong"],
    "at_hash": ["absent", "wrong"],
    "c_hash": ["absent", "wrong"],
    "signer": ["op-ec", "j-rsa", "j-ec", "foreign-rsa", "foreign-ec", "secret", "pub-as-hmac", "unsigned"],
    "kid": ["absent", "wrong"],
    "header_alg": ["none", "none-strip", "ES256", "HS256", "RS384"],
}
PATHS = [("authz", "code id_token"), ("authz", "id_token"), ("authz", "id_token token"), ("authz", "code id_token token"), ("token", "code"),
         ("msg-authz", "code id_token token"), ("msg-token", "code"),
         # the token endpoint answers a refresh request with an ID token as well: the refresh service's own parse path
         ("refresh", "code")]
_rps = {}
STATS = {"accepted": 0, "rejected": 0}


def cases(rng, tier):
    npair = {"quick": 500, "thorough": 12000, "search": 6000}[tier]
    out = []
    singles = [{}] + [{k: v} for k, vs in MUT.items() for v in vs]
    for ci in range(len(CFGS)):
        for pi in range(len(PATHS)):
            for m in (singles if tier != "quick" else rng.sample(singles, 12) + [{}]):
                out.append({"t": "idt", "cfg": ci, "path": pi, "mut": m, "signer": m.get("signer", base_signer(ci))})
    # a second authorization response for a state whose exchange was already completed (RS256 settings: the fake provider signs with its RSA key)
    for ci in (0, 1):
        for m in [{}, {"nonce": "absent"}, {"nonce": "other-flow"}, {"nonce": "wrong"}, {"iss": "J"}, {"aud": "other"}, {"signer": "foreign-rsa"}, {"exp": "past"}]:
            out.append({"t": "idt", "cfg": ci, "path": 0, "mut": m, "signer": m.get("signer", base_signer(ci)), "after_exchange": True})
    # the provider first answers the request with an ERROR (the user refused), handled by the client; then a response for the same state
    # arrives: what the client remembered of its request — the nonce — is still what the ID token is held to
    for ci in (0, 1, 3):
        for pi in (0, 1, 3):
            for m in [{}, {"nonce": "absent"}, {"nonce": "other-flow"}, {"nonce": "wrong"}, {"aud": "other"}, {"signer": "foreign-rsa"}]:
                out.append({"t": "idt", "cfg": ci, "path": pi, "mut": m, "signer": m.get("signer", base_signer(ci)), "after_error": True})
    keys = list(MUT)
    for _ in range(npair):
        ks = rng.sample(keys, rng.choice([2, 2, 3]))
        m = {k: rng.choice(MUT[k]) for k in ks}
        ci = rng.randrange(len(CFGS))
        out.append({"t": "idt", "cfg": ci, "path": rng.randrange(len(PATHS)), "mut": m,
                    "signer": m.get("signer", base_signer(ci) if rng.random() < 0.8 else rng.choice(["op-rsa", "op-ec", "secret"]))})
    return out + rph_cases()


# ---- a relying party serving SEVERAL providers (RPHandler: one client per issuer, discovered and registered dynamically): the secret of the
# registration at one provider is of no value for a token that claims to come from another
RPH_A, RPH_B = "https://op-a.example.org", "https://op-b.example.org"
RPH_SECRET = {RPH_A: "s3cret-of-the-registration-at-OP-A-0001", RPH_B: "s3cret-of-the-registration-at-OP-B-0002"}
RPH_SIGNERS = ["own-secret", "other-issuers-secret", "unknown-secret", "own-secret-other-alg"]
_RPH_JWKS = {}


def rph_cases():
    return [{"t": "rph", "first": first, "signer": s, "via": via} for first in ("A", "B") for s in RPH_SIGNERS for via in ("finalize_auth", "service")]


class _Router:
    """the two providers: discovery, keys, dynamic registration"""

    def __init__(self):
        from cryptojwt.key_jar import build_keyjar
        from idpyoidc.client.defaults import DEFAULT_KEY_DEFS
        if not _RPH_JWKS:
            for i in (RPH_A, RPH_B, "rp"):
                _RPH_JWKS[i] = build_keyjar(DEFAULT_KEY_DEFS, issuer_id=i).export_jwks(private=True, issuer_id=i)
        self.registered = {}

    def __call__(self, method, url, data=None, headers=None, **kw):
        import c09
        from cryptojwt.key_jar import KeyJar
        for iss in (RPH_A, RPH_B):
            if url == iss + "/.well-known/openid-configuration":
                return c09.Resp(200, json.dumps({
                    "issuer": iss, "authorization_endpoint": iss + "/authorization", "token_endpoint": iss + "/token",
                    "registration_endpoint": iss + "/register", "jwks_uri": iss + "/jwks.json",
                    "response_types_supported": ["code", "id_token", "code id_token"], "subject_types_supported": ["public"],
                    "id_token_signing_alg_values_supported": ["RS256", "HS256"] if iss == RPH_A else ["RS256", "ES256"]}))
            if url == iss + "/jwks.json":
                kj = KeyJar(); kj.import_jwks(_RPH_JWKS[iss], iss)
                return c09.Resp(200, kj.export_jwks_as_json(issuer_id=iss))
            if url == iss + "/register":
                body = json.loads(data if isinstance(data, str) else data.decode())
                self.registered[iss] = body
                return c09.Resp(201, json.dumps(dict(body, client_id="client_at_" + iss[11], client_secret=RPH_SECRET[iss])))
        return c09.Resp(404, "{}")


def _rph_impl(c):
    import copy
    from cryptojwt.jwt import JWT
    from cryptojwt.key_jar import KeyJar
    from cryptojwt.key_bundle import KeyBundle
    from cryptojwt.jwk.hmac import SYMKey
    from idpyoidc.client.defaults import DEFAULT_CLIENT_CONFIGS
    from idpyoidc.client.rp_handler import RPHandler
    clock.CLOCK.t = T0
    router = _Router()
    conf = copy.deepcopy(DEFAULT_CLIENT_CONFIGS)
    conf[""]["preference"]["id_token_signing_alg_values_supported"] = ["HS256", "RS256"]
    kj = KeyJar(); kj.import_jwks(_RPH_JWKS["rp"], "")
    rph = RPHandler("https://rp.example.com", client_configs=conf, keyjar=kj, httpc=router)

    def begin(iss, rt):
        q = parse_qs(urlsplit(rph.begin(issuer_id=iss, req_args={"response_type": rt})).query)
        return q["state"][0], q["nonce"][0]
    if c["first"] == "B":
        begin(RPH_B, "code")
        state, nonce = begin(RPH_A, "id_token")
    else:
        state, nonce = begin(RPH_A, "id_token")
        begin(RPH_B, "code")
    client = rph.issuer2rp[RPH_A]
    reg_alg = router.registered[RPH_A].get("id_token_signed_response_alg")
    secret = {"own-secret": RPH_SECRET[RPH_A], "other-issuers-secret": RPH_SECRET[RPH_B], "unknown-secret": "a-secret-that-was-never-handed-out-00003",
              "own-secret-other-alg": RPH_SECRET[RPH_A]}[c["signer"]]
    skj = KeyJar(); kb = KeyBundle(); kb.append(SYMKey(key=secret, use="sig")); skj.add_kb(RPH_A, kb)
    alg = "HS384" if c["signer"] == "own-secret-other-alg" else "HS256"
    idt = JWT(key_jar=skj, iss=RPH_A, lifetime=300, sign_alg=alg).pack({"aud": [client.get_client_id()], "sub": "mallory", "nonce": nonce})
    how = ""
    try:
        if c["via"] == "finalize_auth":
            rph.finalize_auth(client, RPH_A, {"state": state, "id_token": idt})
        else:
            srv = client.get_service("authorization")
            resp = srv.parse_response("https://rp.example.com/authz_cb#state=%s&id_token=%s" % (state, idt), sformat="urlencoded", state=state)
            srv.update_service_context(resp, key=state)
        r = "accepted"
    except Exception as e:
        r, how = "rejected", type(e).__name__
    rec = client.get_context().cstate.get(state)
    return {"r": r, "how": how, "stored": bool(rec.get("__verified_id_token")), "reg_alg": reg_alg}


def base_signer(ci):
    """the signer a conforming provider would use for this registration"""
    return {"RS256": "op-rsa", "ES256": "op-ec", "HS256": "secret", "none": "unsigned", None: "op-rsa"}[CFGS[ci]["sigalg"]]


def corpus():
    # the policy corners, on every path and setting: unsigned tokens, azp naming another client with a single audience, a nonce of another flow
    out = []
    for ci in range(len(CFGS)):
        for pi in range(len(PATHS)):
            for m, signer in (({"signer": "unsigned"}, "unsigned"), ({"header_alg": "none-strip"}, base_signer(ci)), ({"azp": "other"}, base_signer(ci)),
                              ({"azp": "other", "aud": "me-str"}, base_signer(ci)), ({"nonce": "other-flow"}, base_signer(ci))):
                out.append({"t": "idt", "cfg": ci, "path": pi, "mut": m, "signer": signer})
    return out


def rp_for(ci, fake_op=False):
    if fake_op:
        # a relying party that can talk to a (fake) provider: used to complete a genuine exchange before the case's response arrives
        if ("fake", ci) not in _rps:
            import c09
            c = CFGS[ci]
            _rps[("fake", ci)] = rpbase.make_rp(sigalg=c["sigalg"], allow_none=c["allow_none"], skew=c["skew"], missing_kid=c["missing_kid"], reg=c["reg"],
                                                 httpc=c09.FakeOP(ISS))
            if c.get("jar"):
                _rps[("fake", ci)].get_context().set_usage("request_parameter", True)
                _rps[("fake", ci)].get_context().set_usage("request_object_signing_alg", "HS256")
        return _rps[("fake", ci)]
    if ci not in _rps:
        c = CFGS[ci]
        rp = rpbase.make_rp(sigalg=c["sigalg"], allow_none=c["allow_none"], skew=c["skew"], missing_kid=c["missing_kid"], reg=c["reg"])
        if c.get("jar"):
            rp.get_context().set_usage("request_parameter", True)
            rp.get_context().set_usage("request_object_signing_alg", "HS256")
        if c.get("restored"):
            store = rp.get_context().dump()
            fresh = rpbase.make_rp()          # nothing of the configuration above: defaults
            fresh.get_context().load(store)
            rp = fresh
        _rps[ci] = rp
    return _rps[ci]


_default_skew = None


def expected_skew(cfg):
    """what the CONFIGURATION says (not what the client object happens to hold): the configured value, else the library's default"""
    global _default_skew
    if cfg["skew"] is not None:
        return cfg["skew"]
    if _default_skew is None:
        _default_skew = rpbase.make_rp().get_context().clock_skew
    return _default_skew


def _begin(rp, rt):
    url = rp.init_authorization(req_args={"response_type": rt, "scope": ["openid"]})
    q = {k: v[0] for k, v in parse_qs(urlsplit(url).query).items()}
    if "state" not in q and "request" in q:
        q = rpbase.unb64(q["request"].split(".")[1])         # the request object carries them
    return q["state"], q.get("nonce")


def build(c, nonce, other_nonce, rt, skew):
    """claims + accompanying parameters for the case"""
    from idpyoidc.message.oidc import left_hash
    m = c["mut"]
    code, at = "CODE-0123456789", "ACCESS-0123456789"
    claims = {"iss": ISS, "sub": "user1", "aud": [CID], "exp": T0 + 600, "iat": T0}
    if nonce:
        claims["nonce"] = nonce
    with_code, with_at = "code" in rt.split(" ") and PATHS[c["path"]][0] in ("authz", "msg-authz"), "token" in rt.split(" ")
    if PATHS[c["path"]][0] in ("token", "msg-token"):
        with_code, with_at = False, True
    if with_code:
        claims["c_hash"] = left_hash(code, "HS256")
    if with_at:
        claims["at_hash"] = left_hash(at, "HS256")
    v = m.get("iss")
    if v == "absent": del claims["iss"]
    elif v == "J": claims["iss"] = ISSJ
    elif v == "unknown": claims["iss"] = "https://unknown.example.io"
    elif v == "list": claims["iss"] = [ISS]
    v = m.get("sub")
    if v == "absent": del claims["sub"]
    elif v == "int": claims["sub"] = 17
    v = m.get("aud")
    if v == "me-str": claims["aud"] = CID
    elif v == "absent": del claims["aud"]
    elif v == "other": claims["aud"] = ["client_2"]
    elif v == "me+other": claims["aud"] = [CID, "client_2"]
    elif v == "other+me": claims["aud"] = ["client_2", CID]
    elif v == "empty": claims["aud"] = []
    v = m.get("azp")
    if v == "me": claims["azp"] = CID
    elif v == "other": claims["azp"] = "client_2"
    v = m.get("exp")
    if v == "absent": del claims["exp"]
    elif v == "past": claims["exp"] = T0 - 100
    elif v == "past-in-skew": claims["exp"] = T0 - 10
    elif v == "str": claims["exp"] = str(T0 + 600)
    v = m.get("iat")
    if v == "absent": del claims["iat"]
    elif v == "future": claims["iat"] = T0 + 100
    elif v == "future-in-skew": claims["iat"] = T0 + 10
    elif v == "old": claims["iat"] = T0 - STORAGE - 100
    elif v == "after-exp": claims["iat"] = T0 + 5; claims["exp"] = T0 + 2 if "exp" in claims and isinstance(claims["exp"], int) else claims.get("exp")
    v = m.get("nonce")
    if v == "absent": claims.pop("nonce", None)
    elif v == "other-flow": claims["nonce"] = other_nonce
    elif v == "wrong": claims["nonce"] = "not-a-nonce-of-this-rp"
    for hk in ("at_hash", "c_hash"):
        v = m.get(hk)
        if hk in claims:
            if v == "absent": del claims[hk]
            elif v == "wrong": claims[hk] = "AAAAAAAAAAAAAAAAAAAAAA"
    claims = {k: x for k, x in claims.items() if x is not None}
    return claims, (code if with_code else None), (at if with_at else None)


def impl(c):
    if c["t"] == "rph":
        return _rph_impl(c)
    cfg = CFGS[c["cfg"]]
    path, rt = PATHS[c["path"]]
    rp = rp_for(c["cfg"], fake_op=bool(c.get("after_exchange")))
    ctx = rp.get_context()
    clock.CLOCK.t = T0
    state, nonce = _begin(rp, rt)
    if c.get("after_exchange"):
        # the exchange for this state is completed first (authorization response, token request, userinfo — all genuine); the case's
        # response then arrives as a SECOND authorization response for the same state
        op = rp.httpc
        flow = {"iss": ISS, "user": "alice", "rt": rt, "state": state, "nonce": nonce}
        gcode = op.code_for(flow)
        op.plan = {}
        rp.finalize({"code": gcode, "state": state, "id_token": op.idtoken(nonce, "sub-alice", code=gcode)})
    if c.get("after_error"):
        for via in ("finalize_auth", "finalize"):
            try:
                getattr(rp, via)({"error": "access_denied", "error_description": "the user said no", "state": state}) if via == "finalize_auth" \
                    else rp.finalize({"error": "access_denied", "state": state})
            except Exception:
                pass
    _before = ctx.cstate.get(state).get("__verified_id_token") if c.get("after_exchange") else None
    _before = _before.to_dict() if hasattr(_before, "to_dict") else _before
    _, other_nonce = _begin(rp, "code id_token")
    claims, code, at = build(c, nonce, other_nonce, rt, cfg["skew"])
    tok = rpbase.sign(claims, c["signer"], c["mut"].get("kid", "ok"), c["mut"].get("header_alg"))
    params = {"state": state, "id_token": tok}
    if code:
        params["code"] = code
    if at:
        params.update({"access_token": at, "token_type": "Bearer"})
    svc0 = rp.get_service("authorization" if path in ("authz", "msg-authz") else "refresh_token" if path == "refresh" else "accesstoken")
    obs = {"claims": claims, "sent_nonce": nonce, "nonces": [nonce, other_nonce], "supplied_sigalg": svc0.gather_verify_arguments().get("sigalg", "-"), "with_code": bool(code), "with_at": bool(at), "skew": expected_skew(cfg), "observed_skew": ctx.clock_skew, "alg": rpbase.unb64(tok.split(".")[0]).get("alg")}
    try:
        if path == "authz":
            svc = rp.get_service("authorization")
            resp = svc.parse_response(urlencode(params), "urlencoded", state=state)
            svc.update_service_context(resp, key=state)
            ok = "__verified_id_token" in resp
        elif path in ("token", "refresh"):
            svc = rp.get_service("accesstoken" if path == "token" else "refresh_token")
            if path == "refresh":
                params.setdefault("access_token", "REFRESHED-ACCESS-TOKEN"); params.setdefault("token_type", "Bearer")
            del params["state"]
            resp = svc.parse_response(json.dumps(params), "json", state=state)
            svc.update_service_context(resp, key=state)
            ok = "__verified_id_token" in resp
        else:
            from idpyoidc.message.oidc import AuthorizationResponse, AccessTokenResponse
            kw = {"keyjar": rp.get_attribute("keyjar"), "iss": ISS, "client_id": CID, "skew": ctx.clock_skew}
            if nonce:
                kw["nonce"] = nonce
            if cfg["sigalg"]:
                kw["sigalg"] = cfg["sigalg"]
            if cfg["allow_none"]:
                kw["allow_sign_alg_none"] = True
            if cfg["missing_kid"]:
                kw["allow_missing_kid"] = True
            if path == "msg-token":
                del params["state"]
            msg = (AuthorizationResponse if path == "msg-authz" else AccessTokenResponse)(**params)
            r = msg.verify(**kw)
            ok = bool(r) and "__verified_id_token" in msg
        obs["r"] = "accepted" if ok else "rejected"
        obs["how"] = "no-verified-token" if not ok else ""
    except Exception as e:
        obs["r"] = "rejected"
        obs["how"] = type(e).__name__
    st = ctx.cstate.get(state) if path in ("authz", "token", "refresh") else {}
    if c.get("after_exchange"):
        # a verified token was there already (the genuine exchange): "stored" = the case's response replaced it
        now_ = st.get("__verified_id_token")
        now_ = now_.to_dict() if hasattr(now_, "to_dict") else now_
        obs["stored"] = now_ != _before
    else:
        obs["stored"] = "__verified_id_token" in st
    STATS[obs["r"]] += 1
    return obs


# ---------------------------------------------------------------- the harness's knowledge of the signature

def sig_facts(c, obs):
    """(signed_by_owner, family) as the harness knows it, kid state, header alg"""
    s = c["signer"]
    owner = {"op": ISS, "j": ISSJ}.get(s.split("-")[0])
    fam = {"rsa": "RSA", "ec": "EC"}.get(s.split("-")[-1]) if owner else ("oct" if s == "secret" else None)
    intact = not c["mut"].get("header_alg")           # a rewritten header invalidates the signature
    return owner, fam, c["mut"].get("kid", "ok"), intact


def _f_str(cl, k):
    if k not in cl:
        return "absent"
    v = cl[k]
    return "val:" + enc_str(v) if isinstance(v, str) else "bad"


def _f_int(cl, k):
    if k not in cl:
        return "absent"
    v = cl[k]
    if isinstance(v, str) and v.isdigit():        # the message layer reads a decimal string as the integer
        v = int(v)
    return "val:%d" % v if isinstance(v, int) and not isinstance(v, bool) and v >= 0 else "bad"


def _f_hash(cl, k, what, alg):
    from idpyoidc.message.oidc import left_hash
    if k not in cl:
        return "absent"
    if not isinstance(cl[k], str):
        return "bad"
    try:
        want = left_hash(what, "HS" + alg[-3:])
    except Exception:
        return "val:0"
    return "val:1" if cl[k] == want else "val:0"


def model_lines(c, obs):
    if c["t"] == "rph":
        return []
    cfg = CFGS[c["cfg"]]
    path, rt = PATHS[c["path"]]
    cl = obs["claims"]
    owner, fam, kid, intact = sig_facts(c, obs)
    if owner:
        signer = f"jar:{enc_str(owner)}:{fam.lower()}"
    elif fam == "oct":
        signer = "secret"
    else:
        signer = "outsider"
    if c["signer"] == "secret" and kid == "ok":
        kid = "absent"            # providers sign with the shared secret without naming a key
    svc = path in ("authz", "token", "refresh")
    ep = "authz" if path in ("authz", "msg-authz") else "token"
    # which algorithm verify() is asked for: on the service path what gather_verify_arguments derives (model: effectiveSigalg),
    # on the message path what the harness itself passed
    if svc:
        reg = cfg["sigalg"] if cfg["reg"] == "dynamic" and cfg["sigalg"] else "-"
        conf = cfg["sigalg"] if cfg["reg"] == "static" and cfg["sigalg"] else "-"
        lines = ["\t".join(["idt", "effsigalg", reg, conf])]
        sigalg = None           # filled from the model's own answer below: two-pass is not possible, so replicate: registered, else configured, else RS256
        sigalg = cfg["sigalg"] or "RS256"
    else:
        lines = ["\t".join(["idt", "effsigalg", "-", "-"])]
        sigalg = cfg["sigalg"] or "-"
    aud = cl.get("aud")
    if "aud" not in cl:
        faud = "absent"
    elif isinstance(aud, str):
        faud = "val:" + common.enc_list([aud])
    elif isinstance(aud, list) and all(isinstance(x, str) for x in aud):
        faud = "val:" + common.enc_list(aud) if aud else "val:"
    else:
        faud = "bad"
    US = "\x1f"
    nm = common.enc_list([n + US + str(i) for i, n in enumerate(obs["nonces"]) if n])
    allow_none = cfg["allow_none"]
    lines.append("\t".join([
        "idt", "accept", "svc" if (svc and path != "refresh") else "msg", ep, enc_str(ISS), enc_str(CID), sigalg, "1" if allow_none else "0", str(obs["skew"]), str(STORAGE), str(T0),
        # refresh (OIDC Core 12.2): a nonce is compared only when the token carries one
        common.enc_list([ISS, ISSJ]), ("some:" + enc_str(obs["sent_nonce"])) if (obs["sent_nonce"] and (not svc or (path == "refresh" and "nonce" in cl))) else "none",
        "1" if obs["with_code"] else "0", "1" if obs["with_at"] else "0",
        "1", obs["alg"] or "-", signer, "1" if intact else "0", kid,
        _f_str(cl, "iss"), _f_str(cl, "sub"), faud, _f_str(cl, "azp"), _f_int(cl, "exp"), _f_int(cl, "iat"), _f_str(cl, "nonce"),
        _f_hash(cl, "at_hash", "ACCESS-0123456789", obs["alg"] or "RS256"), _f_hash(cl, "c_hash", "CODE-0123456789", obs["alg"] or "RS256"),
        "0", ("some:" + enc_str(obs["sent_nonce"])) if obs["sent_nonce"] else "none", nm]))
    return lines


def compare(c, obs, outs):
    if c["t"] == "rph":
        return []          # several issuers behind one handler: the oracle decides (the model's signer classes are those of one issuer)
    cfg = CFGS[c["cfg"]]
    d = []
    if PATHS[c["path"]][0] in ("authz", "token", "refresh") and outs[0] != obs["supplied_sigalg"]:
        d.append(f"sigalg supplied by gather_verify_arguments: model={outs[0]} impl={obs['supplied_sigalg']}")
    if outs[1] != obs["r"]:
        d.append(f"{PATHS[c['path']]} cfg={cfg} mut={c['mut']} signer={c['signer']}: model={outs[1]} impl={obs['r']} ({obs['how']})")
    if (obs["r"] == "accepted") != obs["stored"] and PATHS[c["path"]][0] in ("authz", "token", "refresh"):
        d.append(f"stored={obs['stored']} although {obs['r']}")
    return d


def invalid_reasons(c, obs):
    """independent validator: which conjuncts of the property the delivered token violates"""
    cfg = CFGS[c["cfg"]]
    path, rt = PATHS[c["path"]]
    cl = obs["claims"]
    alg = obs["alg"]
    skew = obs["skew"]
    why = []
    owner, fam, kid, intact = sig_facts(c, obs)
    none_allowed = cfg["allow_none"] or (cfg["sigalg"] == "none" and True)
    reg_enforced = cfg["sigalg"] if cfg["sigalg"] else None
    if alg == "none":
        if not none_allowed:
            why.append("alg-none-not-allowed")
    else:
        if reg_enforced and reg_enforced != alg:
            why.append("alg-not-the-registered-one")
        fam_of_alg = {"RS": "RSA", "ES": "EC", "HS": "oct", "PS": "RSA"}.get(alg[:2])
        good_key = intact and ((owner == ISS and fam == fam_of_alg) or (fam == "oct" and fam_of_alg == "oct"))
        if not good_key:
            why.append("not-signed-by-the-expected-issuer")
    if cl.get("iss") != ISS:
        why.append("iss")
    aud = cl.get("aud")
    audl = [aud] if isinstance(aud, str) else (aud or [])
    if CID not in audl:
        why.append("aud")
    if "azp" in cl and cl["azp"] != CID:
        why.append("azp")
    if len(audl) > 1 and "azp" not in cl:
        why.append("azp-missing")
    def num(x):
        # the message layer reads a decimal string where an integer is expected as that integer (C10/C11: lenient decoding)
        if isinstance(x, str) and x.isdigit():
            return int(x)
        return x if isinstance(x, int) and not isinstance(x, bool) else None
    exp, iat = num(cl.get("exp")), num(cl.get("iat"))
    if exp is None or T0 > exp + skew:
        why.append("exp")
    if iat is None or iat > T0 + skew:
        why.append("iat")
    if not isinstance(cl.get("sub"), str):
        why.append("sub")
    if obs["sent_nonce"] and cl.get("nonce") != obs["sent_nonce"]:
        # a refreshed ID token need not repeat the nonce (OIDC Core 12.2); one it carries must be the one that was sent
        if not (PATHS[c["path"]][0] == "refresh" and "nonce" not in cl):
            why.append("nonce")
    if path in ("authz", "msg-authz") and alg != "none":
        from idpyoidc.message.oidc import left_hash
        if obs["with_code"] and cl.get("c_hash") != left_hash("CODE-0123456789", "HS" + alg[-3:]):
            why.append("c_hash")
        if obs["with_at"] and cl.get("at_hash") != left_hash("ACCESS-0123456789", "HS" + alg[-3:]):
            why.append("at_hash")
    return why


def oracle(c, obs):
    v = []
    if c["t"] == "rph":
        if obs["reg_alg"] != "HS256":
            return [{"cls": "rph-world-not-as-intended", "reg_alg": obs["reg_alg"]}]
        if obs["r"] == "accepted" and c["signer"] != "own-secret":
            v.append({"cls": "invalid-id-token-accepted", "violates": "signed with a key of the expected issuer (%s)" % c["signer"], "path": "authz", "reg": "dynamic, several issuers"})
        if obs["r"] == "rejected" and c["signer"] == "own-secret":
            v.append({"cls": "rph-genuine-token-rejected", "how": obs["how"]})
        if obs["r"] == "rejected" and obs["stored"]:
            v.append({"cls": "rejected-id-token-stored", "path": "authz"})
        return v
    why = invalid_reasons(c, obs)
    if obs["r"] == "accepted" and why:
        v.append({"cls": "invalid-id-token-accepted", "violates": why[0], "all": why, "path": PATHS[c["path"]][0], "reg": CFGS[c["cfg"]]["reg"]})
    if obs["r"] == "rejected" and obs["stored"]:
        v.append({"cls": "rejected-id-token-stored", "path": PATHS[c["path"]][0]})
    return v


def known_key(c, v, known):
    return common.known_key(c, v, known)


def classify(c, obs):
    if c["t"] == "rph":
        return f"rph:{obs['r']}"
    return f"{PATHS[c['path']][0]}:{obs['r']}:{obs['how']}"


def nontrivial(c, obs):
    if c["t"] == "rph":
        return True
    return bool(c["mut"]) or c["cfg"] != 0


def evidence_extra():
    return dict(STATS)
