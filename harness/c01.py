"""C01 — client authentication is sound at every protected endpoint."""
import base64
import random
import common
import clock
from common import enc_str, dec_str
import opbase
from cryptojwt.jwt import JWT
from cryptojwt.key_jar import build_keyjar, KeyJar
from idpyoidc.server.exception import (ClientAuthenticationError, BearerTokenAuthenticationError, InvalidClient, UnknownClient, UnAuthorizedClient)

clock.install()
T0 = 1_800_000_000
RULE = ("cases: histories of requests to the token, introspection, revocation and userinfo endpoints of one long-lived provider with six clients "
        "(secret only / secret+keys / keys only / expired secret / per-endpoint method restriction / general method restriction); credentials "
        "generated concretely with cryptojwt: right / wrong / other client's secret in Basic and POST form, malformed Basic, assertions signed "
        "with own / other client's / foreign keys, HS256 under the client secret or under another secret, RS256/ES256, wrong / missing / list "
        "audience, issuer-as-audience, expired, without exp, with and without jti, replayed after intervening requests, unknown issuer, header and "
        "body credentials at once, bearer tokens. The Lean model sees each request through the harness's knowledge of who signed what "
        "(idealised crypto view); outcome and replay-cache size compared after every request; independent ground-truth oracle. "
        "non-trivial: credential not of the plain right-secret kind")
MODELLED = ("modelled: verify_client loop, ClientSecretBasic/Post, JWSAuthnMethod._verify (alg family, oct key = secret, audience, jti), BearerHeader, "
            "PublicAuthn, valid_client_secret, per-client method filter, Endpoint.client_authentication. NOT modelled: JWS signature "
            "verification and exp enforcement inside cryptojwt (field `unpack`), RequestParam, bearer_body")
ASSUMPTIONS = ["cryptojwt.JWT.unpack accepts exactly signatures made with a key the key jar holds for the issuer, and rejects expired assertions (observed, not proved)"]

# the token endpoint also serves public clients (method "public" last in its list): a request carrying only a client_id goes on
# as that client, NOT authenticated
ENDPOINTS = {"token": opbase.CLIAUTH + ["public"], "introspection": opbase.CLIAUTH, "token_revocation": opbase.CLIAUTH, "userinfo": ["bearer_header", "bearer_body"]}
_env = None


def _make():
    from idpyoidc.server.oidc.token import Token
    H = "idpyoidc.server.%s.token_helper.%s"
    helpers = {"authorization_code": {"class": H % ("oidc", "access_token.AccessTokenHelper")}, "refresh_token": {"class": H % ("oidc", "refresh_token.RefreshTokenHelper")},
               "client_credentials": {"class": H % ("oauth2", "client_credentials.ClientCredentials")}}
    return opbase.make_op(more_endpoints={"token": {"path": "token", "class": Token, "kwargs": {"client_authn_method": ENDPOINTS["token"],
                                                                                                 "grant_types_helpers": helpers}}})


class Env:
    def __init__(self):
        self.s = _make()
        ctx = self.s.context
        global _KJ
        if _KJ is None:
            _KJ = {"cB": build_keyjar([{"type": "RSA", "use": ["sig"]}, {"type": "EC", "crv": "P-256", "use": ["sig"]}]),
                   "cC": build_keyjar([{"type": "EC", "crv": "P-256", "use": ["sig"]}]),
                   "cE": build_keyjar([{"type": "EC", "crv": "P-256", "use": ["sig"]}]),
                   "foreign": build_keyjar([{"type": "EC", "crv": "P-256", "use": ["sig"]}])}
        self.kj = _KJ
        self.clients = {
            "cA": {"secret": "secret_A_0123456789_0123456789_ab", "exp": 0, "allowed": {}},
            "cB": {"secret": "secret_B_0123456789_0123456789_ab", "exp": 0, "allowed": {}},
            "cC": {"secret": None, "exp": 0, "allowed": {}},
            "cD": {"secret": "secret_D_0123456789_0123456789_ab", "exp": T0 + 1000, "allowed": {}},
            "cE": {"secret": "secret_E_0123456789_0123456789_ab", "exp": 0, "allowed": {"token_endpoint": ["private_key_jwt"]}},
            "cF": {"secret": "secret_F_0123456789_0123456789_ab", "exp": 0, "allowed": {"*": ["client_secret_basic"]}},
        }
        for cid, c in self.clients.items():
            rec = {"client_id": cid, "redirect_uris": [(f"https://{cid}.example.com/cb", None)], "client_salt": "salted"}
            if c["secret"]:
                rec["client_secret"] = c["secret"]
                ctx.keyjar.add_symmetric(cid, c["secret"])
            if c["exp"]:
                rec["client_secret_expires_at"] = c["exp"]
            for ep, ms in c["allowed"].items():
                rec["client_authn_method" if ep == "*" else f"{ep}_client_authn_method"] = ms
            ctx.cdb[cid] = rec
            if cid in self.kj:
                ctx.keyjar.import_jwks(self.kj[cid].export_jwks(), cid)
        # one more client, registered DYNAMICALLY through the registration endpoint (whatever that does to the key jar is part of the provider)
        reg = self.s.get_endpoint("registration")
        out = reg.process_request(reg.parse_request({"redirect_uris": ["https://dyn.example.com/cb"], "token_endpoint_auth_method": "client_secret_jwt"}))
        self.dyn = (out["response_args"]["client_id"], out["response_args"]["client_secret"])
        self.issuer = ctx.issuer
        self.url = {name: self.s.get_endpoint(name).full_path for name in ENDPOINTS}


def _restart(E):
    """the provider moves to a fresh instance: export the endpoint context, build a new server from the same configuration, import"""
    store = E.s.context.dump()
    B = _make()
    B.context.load(store, init_args={"upstream_get": B.unit_get, "handler": B.context.session_manager.token_handler})
    E.s = B
    E.restored = True


_KJ = None


def env(fresh=False):
    """fresh: a history starts on a provider that was CONSTRUCTED, not on one that an earlier history restored from an export (the two
    may hold differently typed state)"""
    global _env
    if fresh and _env is not None and getattr(_env, "restored", False):
        _env = None
    if _env is None:
        _env = Env()
    return _env


SECRET_KINDS = ["right", "wrong", "other", "empty"]
ASSERT_KINDS = ["own_hs", "own_key", "other_key", "foreign_key", "hs_other_secret", "hs_dyn_secret", "own_key_as_secretjwt", "none_alg", "unknown_iss"]
AUD_KINDS = ["endpoint", "issuer", "wrong", "list_with_endpoint", "other_endpoint"]


def gen_request(rng, jtis):
    ep = rng.choice(["token", "token", "introspection", "token_revocation", "userinfo"])
    cid = rng.choice(["cA", "cB", "cC", "cD", "cE", "cF"])
    r = {"ep": ep, "client": cid, "basic": None, "post": None, "assertion": None, "bearer": None, "tick": rng.choice([0, 0, 0, 10, 2000, 4000])}
    k = rng.random()
    if ep == "userinfo":
        r["bearer"] = rng.choice(["unknown-token", "garbage"])
        return r
    if k < 0.25:
        r["basic"] = {"kind": rng.choice(["right"] * 5 + SECRET_KINDS + ["malformed_nocolon", "malformed_b64"])}
    elif k < 0.5:
        r["post"] = {"kind": rng.choice(["right"] * 4 + SECRET_KINDS), "id": cid if rng.random() < 0.9 else "nobody"}
    elif k < 0.92:
        jti = rng.choice(["fresh", "fresh", "none", "reuse"])
        has_key, has_sec = cid in ("cB", "cC", "cE"), cid != "cC"
        good = (["own_key"] * 4 if has_key else []) + (["own_hs"] * 4 if has_sec else [])
        r["assertion"] = {"kind": rng.choice(good + ASSERT_KINDS), "aud": rng.choice(["endpoint"] * 5 + AUD_KINDS), "exp": rng.choice(["ok"] * 4 + ["long", "long", "expired", "absent"]),
                          "sub": rng.choice(["iss", "iss", "other", "absent"]), "jti": jti, "jti_val": (rng.choice(jtis) if (jti == "reuse" and jtis) else "j%06d" % rng.randrange(10**6)) if jti != "none" else None}
        if r["assertion"]["jti_val"]:
            jtis.append(r["assertion"]["jti_val"])
        if rng.random() < 0.15:
            r["post"] = {"kind": rng.choice(["right", "wrong"]), "id": cid}
    else:
        r["basic"] = {"kind": "right"}
        r["post"] = {"kind": rng.choice(SECRET_KINDS), "id": rng.choice([cid, "cA"])}
    if ep == "token" and rng.random() < 0.3:
        r["cc"] = True       # a client-credentials request: the whole endpoint runs, the question is whether a token comes out
    if rng.random() < 0.12:
        r["authflag"] = rng.choice(["true", "1", True])      # a request-supplied parameter named like the provider's own marker
    if r["post"] is None and rng.random() < 0.25:
        # authenticated in the header / by assertion as `cid`, while the body names another (or the same, or an unknown) client
        r["post"] = {"kind": "empty", "id": rng.choice([x for x in ("cA", "cB", "cC", "cE") if x != cid] + [cid, "nobody"])}
    return r


def cases(rng, tier):
    n = {"quick": 90, "thorough": 900, "search": 500}[tier]
    out = []
    for _ in range(n):
        jtis = []
        reqs = [gen_request(rng, jtis) for _ in range(rng.randint(4, 12))]
        # verbatim replays of earlier assertions (same compact JWS), after intervening requests
        idx = [i for i, r in enumerate(reqs) if r["assertion"]]
        for i in rng.sample(idx, min(len(idx), 2)):
            rep = dict(reqs[i], tick=rng.choice([0, 5, 4000]), replay_of=i)     # a long-lived assertion is still valid hours later
            reqs.insert(rng.randint(i + 1, len(reqs)), rep)
        # fix up indices after insertion: replay_of refers to the first request carrying the same assertion spec
        for k, r in enumerate(reqs):
            if "replay_of" in r:
                r["replay_of"] = next(j for j, q in enumerate(reqs) if q is not r and q.get("assertion") == r["assertion"] and q["client"] == r["client"] and "replay_of" not in q)
        if rng.random() < 0.12 and len(reqs) > 2:
            reqs[rng.randint(1, len(reqs) - 1)]["restart"] = True       # export / import into a fresh instance just before this request
        out.append({"t": "hist", "reqs": reqs})
    # the client database in the library's own file store (client_db = AbstractFileSystem), shared with another worker / an admin tool that
    # rotates a secret, lets it expire or narrows the allowed methods: "X's CURRENT, unexpired secret", whatever was cached before
    for _ in range({"quick": 6, "thorough": 60, "search": 30}[tier]):
        ops = [["req", "current", rng.choice(FS_EPS)]]
        for _ in range(rng.randint(3, 9)):
            k = rng.choice(["req", "req", "req", "rotate", "expire", "renew", "tick"])
            if k == "req":
                ops.append(["req", rng.choice(["current", "current", "previous", "first", "wrong"]), rng.choice(FS_EPS)])
            elif k == "tick":
                ops.append(["tick", rng.choice([0, 1, 3, 100])])
            else:
                ops.append([k])
        out.append({"t": "fscdb", "ops": ops})
    return out


FS_EPS = ["introspection", "token_revocation", "token"]
_fs = None


def _fs_env():
    global _fs
    if _fs is None:
        import os
        d = os.path.join(opbase.BASEDIR, "cdb-fs")
        os.makedirs(d, exist_ok=True)
        sv = opbase.make_op(extra={"client_db": {"class": "idpyoidc.storage.abfile.AbstractFileSystem", "kwargs": {"fdir": d, "value_conv": "idpyoidc.util.JSON"}}})
        _fs = (sv, d)
    return _fs


def _fs_impl(c):
    from idpyoidc.storage.abfile import AbstractFileSystem
    sv, d = _fs_env()
    clock.CLOCK.t = T0
    admin = AbstractFileSystem(fdir=d, value_conv="idpyoidc.util.JSON")      # the other worker's handle on the same directory
    first = "hemligt_hemligt_hemligt_hemligt_1"
    rec = dict(admin["client_1"]); rec["client_secret"] = first; rec.pop("client_secret_expires_at", None); admin["client_1"] = rec
    sv.context.cdb["client_1"]          # this provider has the record in its cache
    cur, prev, n, expired = first, first, 0, False
    steps = []
    for op in c["ops"]:
        if op[0] == "tick":
            clock.CLOCK.t += op[1]; steps.append(["ok"]); continue
        if op[0] == "rotate":
            n += 1
            prev, cur = cur, "rotated_secret_number_%02d_0123456789ab" % n
            rec = dict(admin["client_1"]); rec["client_secret"] = cur; admin["client_1"] = rec
            steps.append(["ok"]); continue
        if op[0] in ("expire", "renew"):
            expired = op[0] == "expire"
            rec = dict(admin["client_1"]); rec["client_secret_expires_at"] = clock.CLOCK.t - 10 if expired else clock.CLOCK.t + 10**6; admin["client_1"] = rec
            steps.append(["ok"]); continue
        sec = {"current": cur, "previous": prev, "first": first, "wrong": "not-the-secret-not-the-secret-0000"}[op[1]]
        ep = sv.get_endpoint(op[2])
        body = {"client_id": "client_1", "client_secret": sec}
        body.update({"token": "xyz"} if op[2] != "token" else {"grant_type": "authorization_code", "code": "no-such-code", "redirect_uri": "https://client_1.example.com/cb"})
        try:
            pr = ep.parse_request(body)
            # refused for the credential, or got past client authentication (whatever the endpoint then makes of the rest)
            how = "refused" if ("error" in pr and pr["error"] in ("invalid_client", "unauthorized_client")) else "authenticated"
        except (ClientAuthenticationError, InvalidClient, UnknownClient, UnAuthorizedClient) as e:
            how = "refused"
        except Exception as e:
            how = "authenticated"
        steps.append([how, sec == cur and not expired])
    return {"steps": steps}


def _secret(E, cid, kind):
    own = E.clients.get(cid, {}).get("secret")
    if kind == "right":
        return own or "no-secret-registered"
    if kind == "wrong":
        return (own or "x") + "x"
    if kind == "other":
        return E.clients["cA" if cid != "cA" else "cB"]["secret"]
    return ""


def build(E, r, cache=None, idx=None):
    """concrete request dict + http_info + the idealised view + ground truth"""
    cid = r["client"]
    req, headers, truth = {}, {}, {}
    view = {"basic": "absent", "pid": None, "psec": None, "assertion": None, "bearer": None}
    if r["basic"]:
        k = r["basic"]["kind"]
        if k == "malformed_nocolon":
            headers["authorization"] = "Basic " + base64.b64encode(b"nocolonhere").decode()
            view["basic"] = "malformed"
        elif k == "malformed_b64":
            headers["authorization"] = "Basic !!!notbase64"
            view["basic"] = "malformed"
        else:
            sec = _secret(E, cid, k)
            headers["authorization"] = "Basic " + base64.b64encode(f"{cid}:{sec}".encode()).decode()
            view["basic"] = ("pair", cid, sec)
            truth["basic"] = (cid, sec)
    if r["post"]:
        sec = _secret(E, r["post"]["id"], r["post"]["kind"])
        req["client_id"] = r["post"]["id"]
        if sec != "":
            req["client_secret"] = sec
        view["pid"], view["psec"] = r["post"]["id"], (sec if sec != "" else None)
        truth["post"] = (r["post"]["id"], sec)
    if r.get("authflag") is not None:
        req["authenticated"] = r["authflag"]
    if r["bearer"]:
        headers["authorization"] = "Bearer " + r["bearer"]
        view["bearer"] = ("some", None)
    if r["assertion"]:
        a = r["assertion"]
        k = a["kind"]
        iss = cid if k != "unknown_iss" else "stranger"
        kj = KeyJar()
        alg = "ES256"
        signer = None
        if k == "own_hs":
            kj.add_symmetric(iss, E.clients[cid]["secret"] or "nosecret-nosecret-nosecret-nosecret"); alg = "HS256"; signer = ("secret", cid if E.clients[cid]["secret"] else None)
        elif k == "hs_dyn_secret":
            # HS256 under the secret of ANOTHER registered client (the dynamically registered one), naming `cid` as issuer
            kj.add_symmetric(iss, E.dyn[1]); alg = "HS256"; signer = ("secret", E.dyn[0])
        elif k == "hs_other_secret":
            kj.add_symmetric(iss, "a-completely-different-secret-0123456789"); alg = "HS256"; signer = ("secret", None)
        elif k in ("own_key", "own_key_as_secretjwt"):
            src = E.kj.get(cid)
            if src is None:
                src = E.kj["foreign"]; signer = ("key", None)
            else:
                signer = ("key", cid)
            kj.import_jwks(src.export_jwks(private=True), iss)
        elif k == "other_key":
            other = "cB" if cid != "cB" else "cC"
            kj.import_jwks(E.kj[other].export_jwks(private=True), iss); signer = ("key", other)
        elif k in ("foreign_key", "unknown_iss"):
            kj.import_jwks(E.kj["foreign"].export_jwks(private=True), iss); signer = ("key", None)
        elif k == "none_alg":
            alg = "none"; signer = None
        aud = {"endpoint": [E.url[r["ep"]]], "issuer": [E.issuer], "wrong": ["https://evil.example/token"],
               "list_with_endpoint": ["https://x.example", E.url[r["ep"]]], "other_endpoint": [E.url["introspection" if r["ep"] != "introspection" else "token"]]}[a["aud"]]
        payload = {"aud": aud}
        _sub = a.get("sub", "iss")
        if _sub == "iss":
            payload["sub"] = iss
        elif _sub == "other":
            payload["sub"] = "cA" if iss != "cA" else "cB"       # a valid assertion by one client naming another as subject
        if a["jti_val"]:
            payload["jti"] = a["jti_val"]
        lifetime = {"ok": 600, "long": 86400, "expired": -100, "absent": 0}[a["exp"]]
        jwt = JWT(kj, iss=iss, sign_alg=alg, lifetime=lifetime if lifetime else 0, sign=(alg != "none"))
        if a["exp"] == "absent":
            jwt.lifetime = 0
        tok = jwt.pack(payload)
        if cache is not None and "replay_of" in r and r["replay_of"] in cache:
            tok = cache[r["replay_of"]]
        elif a["exp"] == "absent":
            # re-pack without exp
            import json
            from cryptojwt.jws.jws import JWS
            p = dict(payload, iss=iss, iat=clock.CLOCK.t)
            keys = kj.get_signing_key("oct" if alg.startswith("HS") else "EC", iss) if alg != "none" else []
            tok = JWS(json.dumps(p), alg=alg).sign_compact(keys) if alg != "none" else tok
        if cache is not None and idx is not None and "replay_of" not in r:
            cache[idx] = tok
        req["client_assertion"] = tok
        req["client_assertion_type"] = "urn:ietf:params:oauth:client-assertion-type:jwt-bearer"
        # idealised view, computed with cryptojwt (a dependency) and configuration knowledge only
        ctx = E.s.context
        try:
            JWT(ctx.keyjar).unpack(tok)
            unpack = "ok"
        except Exception as e:
            from cryptojwt.exception import Invalid, MissingKey, BadSignature
            unpack = "auth" if isinstance(e, (Invalid, MissingKey, BadSignature)) else "other"
        hs = alg.startswith("HS")
        oct_is = False
        if hs and iss in ctx.cdb and ctx.cdb[iss].get("client_secret"):
            try:
                keys = ctx.keyjar.get("sig", "oct", iss, None)
                oct_is = bool(keys) and keys[0].key == ctx.cdb[iss]["client_secret"].encode()
            except Exception:
                oct_is = False
        targets = {E.url[r["ep"]]} | ({E.issuer} if r["ep"] == "userinfo" else set())
        # allowed_target_uris of the endpoint: configuration knowledge (token endpoint: its own URL; others likewise)
        ep_obj = E.s.get_endpoint(r["ep"])
        targets = ep_obj.allowed_target_uris()
        view["assertion"] = {"unpack": unpack, "hs": hs, "iss": iss, "oct": oct_is, "aud": bool(set(aud) & targets), "jti": a["jti_val"]}
        truth["assertion"] = {"replay": "replay_of" in r, "token": tok, "signer": signer, "alg": alg, "aud_ok": bool(set(aud) & targets), "expired": a["exp"] == "expired", "iss": iss, "jti": a["jti_val"], "kind": k}
    return req, {"headers": headers}, view, truth


FILL = {"token": {"grant_type": "authorization_code", "code": "no-such-code", "redirect_uri": "https://rp.example/cb"},
        "introspection": {"token": "no-such-token"}, "token_revocation": {"token": "no-such-token"}}


def _outcome(E, r, req, http_info):
    """the whole of Endpoint.parse_request up to the endpoint-specific part: what client_authentication returned (or raised) and the
    request the endpoint-specific code is handed (client_id, authenticated) — observed by shadowing two bound methods on the instance"""
    ep = E.s.get_endpoint(r["ep"])
    cap = {}
    if r["ep"] == "userinfo":
        try:
            cap["ai"] = ep.client_authentication(ep.request_cls(**req) if req else ep.request_cls(), http_info, endpoint=ep)
        except Exception as e:
            cap["exc"] = e
    else:
        orig = ep.client_authentication

        def ca(request, http_info=None, **kw):
            cap["ai"] = orig(request, http_info, **kw)
            return cap["ai"]

        def post(request, client_id="", **kw):
            cap["seen"] = [request.get("client_id"), bool(request.get("authenticated")), client_id]
            return request
        ep.client_authentication, ep.do_post_parse_request = ca, post
        try:
            fill = {"grant_type": "client_credentials"} if r.get("cc") else FILL[r["ep"]]
            res = ep.parse_request(dict(fill, **req), http_info)
            if "seen" not in cap:
                cap["verify_error"] = str(res)[:80]
        except Exception as e:
            cap["exc"] = e
        finally:
            del ep.client_authentication, ep.do_post_parse_request
        if r.get("cc") and "seen" in cap:
            # the rest of the endpoint, for real: does a token come out ?
            try:
                out = ep.process_request(res)
                ra = out.get("response_args", out) if isinstance(out, dict) else out
                cap["issued"] = "access_token" in ra
            except Exception:
                cap["issued"] = False
            # forget the session the grant created (the helper cannot serve a second request of the same client)
            sm = E.s.context.session_manager
            for k in [k for k in list(sm.db.db.keys()) if k.startswith("client_credentials")]:
                del sm.db.db[k]
    seen = cap.get("seen")
    if seen is not None and "issued" in cap:
        seen = seen + [cap["issued"]]
    e = cap.get("exc")
    if e is not None:
        if isinstance(e, UnknownClient):
            return ["unknownClient"], None
        if isinstance(e, InvalidClient):
            return ["invalidClient"], None
        if isinstance(e, UnAuthorizedClient):
            return ["nothing"], None
        if isinstance(e, (ClientAuthenticationError, BearerTokenAuthenticationError)):     # incl. InvalidToken (audience, replay)
            return ["authnError"], None
        return ["exc", type(e).__name__], None
    ai = cap.get("ai") or {}
    if ai.get("client_id"):
        return ["accepted", ai["client_id"], ai.get("method")], seen
    return ["nothing"], seen


def impl(c):
    if c["t"] == "fscdb":
        return _fs_impl(c)
    E = env(fresh=True)
    ctx = E.s.context
    ctx.jti_db.clear() if hasattr(ctx.jti_db, "clear") else None
    clock.CLOCK.t = T0
    steps = []
    cache = {}
    for i, r in enumerate(c["reqs"]):
        clock.CLOCK.t += r["tick"]
        if r.get("restart"):
            _restart(E)
            ctx = E.s.context
        req, hi, view, truth = build(E, r, cache, i)
        out, seen = _outcome(E, r, req, hi)
        steps.append({"out": out, "seen": seen, "view": view, "truth": truth, "now": clock.CLOCK.t - T0, "njti": len(ctx.jti_db)})
    return {"steps": steps}


def _opt(x):
    return "none" if x is None else "some:" + enc_str(x)


def model_lines(c, obs):
    if c["t"] == "fscdb":
        return []          # the store under the client database is C13's model; here: the oracle
    E = env()
    lines = []
    for r, st in zip(c["reqs"], obs["steps"]):
        # per request: configure endpoint + clients + clock, keep the replay cache
        ms = ",".join(ENDPOINTS[r["ep"]])
        lines.append(f"ca\tkeepreset\t{ms}\t{st['now'] + T0}")
        epname = E.s.get_endpoint(r["ep"]).endpoint_name
        for cid, cl in E.clients.items():
            al = cl["allowed"].get(epname, cl["allowed"].get("*"))
            lines.append("\t".join(["ca", "client", enc_str(cid), _opt(cl["secret"]), str(cl["exp"]), ",".join(al) if al is not None else "-"]))
        v = st["view"]
        b = "absent" if v["basic"] == "absent" else ("malformed" if v["basic"] == "malformed" else f"pair:{enc_str(v['basic'][1])}:{enc_str(v['basic'][2])}")
        a = "none"
        if v["assertion"]:
            x = v["assertion"]
            a = ":".join([x["unpack"], "1" if x["hs"] else "0", enc_str(x["iss"]), "1" if x["oct"] else "0", "1" if x["aud"] else "0", enc_str(x["jti"]) if x["jti"] else "none"])
        br = "none" if v["bearer"] is None else ("some:none" if v["bearer"][1] is None else "some:" + enc_str(v["bearer"][1]))
        lines.append("\t".join(["ca", "req", b, _opt(v["pid"]), _opt(v["psec"]), a, br]))
    return ["ca\treset\t-\t0"] + lines


def compare(c, obs, outs):
    if c["t"] == "fscdb":
        return []
    req_outs = [o for o in outs if not o.startswith("ok")]
    d = []
    for i, (st, o) in enumerate(zip(obs["steps"], req_outs)):
        f = o.split("\t")
        m = [f[0]] + ([dec_str(f[1]), f[2]] if f[0] == "accepted" else [])
        njti = int(o.rsplit("|", 1)[1])
        if m != st["out"]:
            d.append(f"request {i} {c['reqs'][i]}: outcome model={m} impl={st['out']} view={st['view']}")
            break
        tf = next((x for x in f if x.startswith("T:")), "T:-")
        if c["reqs"][i]["ep"] != "userinfo":
            mt = None if tf == "T:-" else [None if tf.split(":")[1] == "none" else dec_str(tf.split(":")[1]), tf.split(":")[2] == "1"]
            it = None if st.get("seen") is None else st["seen"][:2]
            if mt != it:
                d.append(f"request {i} {c['reqs'][i]}: the endpoint goes on as model={mt} impl={st.get('seen')} (client_id, authenticated)")
                break
        if njti != st["njti"]:
            d.append(f"request {i}: replay cache size model={njti} impl={st['njti']}")
            break
    return d


def oracle(c, obs):
    if c["t"] == "fscdb":
        v = []
        for i, (op, st) in enumerate(zip(c["ops"], obs["steps"])):
            if op[0] == "req" and st[0] == "authenticated" and not st[1]:
                v.append({"cls": "stale-or-wrong-secret-accepted", "step": i, "which": op[1], "endpoint": op[2], "store": "file"})
            if op[0] == "req" and st[0] == "refused" and st[1]:
                v.append({"cls": "current-secret-refused", "step": i, "endpoint": op[2], "store": "file"})
        return v[:3]
    E = env()
    v = []
    seen = set()
    accepted_tokens = set()
    for i, (r, st) in enumerate(zip(c["reqs"], obs["steps"])):
        out, truth = st["out"], st["truth"]
        if out[0] == "accepted":
            X, m = out[1], out[2]
            cl = E.clients.get(X)
            epname = E.s.get_endpoint(r["ep"]).endpoint_name
            if cl is None:
                v.append({"cls": "accepted-unknown-client"}); break
            if m not in ENDPOINTS[r["ep"]]:
                v.append({"cls": "method-not-allowed-by-endpoint", "method": m})
            al = cl["allowed"].get(epname, cl["allowed"].get("*"))
            if al is not None and m not in al:
                v.append({"cls": "method-not-allowed-for-client", "method": m})
            if cl["secret"] and cl["exp"] and st["now"] + T0 > cl["exp"]:
                v.append({"cls": "expired-secret-accepted"})
            if m == "client_secret_basic" and truth.get("basic") != (X, cl["secret"]):
                v.append({"cls": "wrong-secret-accepted", "method": m})
            if m == "client_secret_post" and truth.get("post") != (X, cl["secret"]):
                v.append({"cls": "wrong-secret-accepted", "method": m})
            if m in ("client_secret_jwt", "private_key_jwt"):
                a = truth.get("assertion")
                if not a:
                    v.append({"cls": "jwt-method-without-assertion"})
                else:
                    want = ("secret", X) if m == "client_secret_jwt" else ("key", X)
                    if a["signer"] != want or a["iss"] != X:
                        v.append({"cls": "assertion-not-by-client", "kind": a["kind"], "method": m})
                    if not a["aud_ok"]:
                        v.append({"cls": "wrong-audience-accepted"})
                    if a["expired"]:
                        v.append({"cls": "expired-assertion-accepted"})
                    if a["jti"] and (a["iss"], a["jti"]) in seen:
                        v.append({"cls": "replayed-jti-accepted"})
                    if a["token"] in accepted_tokens:
                        v.append({"cls": "replayed-assertion-accepted", "has_jti": bool(a["jti"])})
                    accepted_tokens.add(a["token"])
        seen_by_ep = st.get("seen")
        if seen_by_ep is not None:
            # whoever the endpoint-specific code acts for must be the client whose credential was accepted
            who = out[1] if out[0] == "accepted" else None
            if len(seen_by_ep) > 3 and seen_by_ep[3] and not (out[0] == "accepted" and out[2] not in ("public", "none")):
                v.append({"cls": "token-without-credential", "grant": "client_credentials", "outcome": out, "client": r["client"]})
            if seen_by_ep[1] and out[0] == "accepted" and out[2] in ("public", "none"):
                v.append({"cls": "unauthenticated-marked-authenticated", "method": out[2], "request_param": r.get("authflag")})
            elif seen_by_ep[1] and (who is None or seen_by_ep[0] != who or seen_by_ep[2] != who):
                v.append({"cls": "treated-as-other-client", "authenticated_as": who, "goes_on_as": seen_by_ep[0], "handed_client_id": seen_by_ep[2],
                          "body_client_id": (r.get("post") or {}).get("id")})
        a = truth.get("assertion")
        if a and a["jti"] and out[0] == "accepted" and out[2] in ("client_secret_jwt", "private_key_jwt"):
            seen.add((a["iss"], a["jti"]))
        if out[0] == "exc":
            v.append({"cls": "unexpected-exception", "e": out[1]})
        if v:
            break
    return v


def known_key(c, v, known):
    return common.known_key(c, v, known)


def classify(c, obs):
    if c["t"] == "fscdb":
        return "fscdb:" + str(sum(1 for o in c["ops"] if o[0] in ("rotate", "expire")))
    acc = sum(1 for s in obs["steps"] if s["out"][0] == "accepted")
    return f"hist:accepted={min(acc, 5)}"


def nontrivial(c, obs):
    if c["t"] == "fscdb":
        return True
    return any(r["assertion"] or (r["basic"] and r["basic"]["kind"] != "right") for r in c["reqs"])


def corpus():
    """structured corners that random histories reach only now and then"""
    def a(jti, **kw):
        return dict({"kind": "own_key", "aud": "endpoint", "exp": "ok", "sub": "iss", "jti": "fresh", "jti_val": jti}, **kw)

    def rq(ep, client, **kw):
        return dict({"ep": ep, "client": client, "basic": None, "post": None, "assertion": None, "bearer": None, "tick": 0}, **kw)
    out = []
    # replay across an export / import into a fresh instance (the replay cache is part of the provider's state)
    for ep in ("token", "introspection"):
        for kind, cl in (("own_key", "cB"), ("own_hs", "cA")):
            first = rq(ep, cl, assertion=a("corpus-%s-%s" % (ep, kind), kind=kind))
            out.append({"t": "hist", "reqs": [first, rq("introspection", "cA", basic={"kind": "right"}),
                                              dict(first, tick=5, replay_of=0, restart=True)]})
    # a long-lived assertion presented again hours later, with other clients' assertions in between (the replay cache must not forget)
    for kind, cl in (("own_key", "cB"), ("own_hs", "cA")):
        first = rq("token", cl, assertion=a("corpus-long-%s" % kind, kind=kind, exp="long"))
        out.append({"t": "hist", "reqs": [first, rq("introspection", "cE", assertion=a("corpus-mid1-%s" % kind, kind="own_hs"), tick=4000),
                                          dict(first, tick=4000, replay_of=0), rq("token", "cE", assertion=a("corpus-mid2-%s" % kind, kind="own_hs"), tick=4000),
                                          dict(first, tick=10, replay_of=0, ep="token")]})
    # authenticated as one client in the header / by assertion, the body names another one
    for ep in ("token", "introspection", "token_revocation"):
        out.append({"t": "hist", "reqs": [rq(ep, "cB", basic={"kind": "right"}, post={"kind": "empty", "id": "cA"}),
                                          rq(ep, "cB", assertion=a("corpus-claim-%s" % ep), post={"kind": "empty", "id": "cA"}),
                                          rq(ep, "cA", assertion=a("corpus-claim2-%s" % ep, kind="own_hs"), post={"kind": "empty", "id": "cB"}),
                                          rq(ep, "cF", basic={"kind": "right"}, post={"kind": "empty", "id": "nobody"})]})
    # an assertion made with another registered client's secret
    for ep in ("token", "introspection"):
        out.append({"t": "hist", "reqs": [rq(ep, "cA", assertion=a("corpus-dyn-%s" % ep, kind="hs_dyn_secret")), rq(ep, "cB", assertion=a("corpus-dyn2-%s" % ep, kind="hs_dyn_secret"))]})
    # a client-credentials request that only names the client (no secret registered, key-only client): no credential, no token
    out.append({"t": "hist", "reqs": [rq("token", "cC", post={"kind": "empty", "id": "cC"}, cc=True), rq("token", "cA", post={"kind": "empty", "id": "cA"}, cc=True),
                                      rq("token", "cA", post={"kind": "right", "id": "cA"}, cc=True), rq("token", "cB", basic={"kind": "right"}, cc=True)]})
    hist_cases = out

    fs = [{"t": "fscdb", "ops": [["req", "current", ep], ["rotate"], ["req", "previous", ep], ["req", "current", ep], ["req", "first", "token"], ["rotate"],
                                  ["req", "previous", "introspection"], ["req", "first", ep], ["expire"], ["req", "current", ep], ["renew"], ["req", "current", ep],
                                  ["tick", 3], ["req", "previous", ep], ["req", "current", ep]]} for ep in FS_EPS]
    return hist_cases + fs