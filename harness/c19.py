"""C19 — dynamic registration admits only well-formed clients and isolates them."""
import re
from urllib.parse import urlparse
import common
from common import enc_str
import opbase

RULE = ("cases: histories of registration requests generated from the metadata schema (every redirect-URI shape: https / http / http loopback "
        "by name and by address / custom scheme / with fragment / with query / upper-case scheme, x application_type web / native / absent x "
        "response_types code / hybrid / implicit / absent; other metadata valid or deliberately inconsistent: http initiate_login_uri, "
        "encryption enc without alg, 'none' as token endpoint signing alg, request_uris with query) interleaved with reads at the "
        "registration-read endpoint for all pairings of issued tokens and client ids. Outcome (registered / error, read / refused) and the "
        "counter discipline compared with the Lean model; oracle: stored only if every URI obeys the rule written from the property, a "
        "rejected request leaves the client database and token map unchanged, ids/secrets/tokens pairwise distinct, echo equals stored. "
        "non-trivial: request with a non-https or fragment-bearing URI, native type, inconsistent metadata, or a cross-client read")
MODELLED = ("modelled: Registration.verify_redirect_uris (admission table), client_registration_setup bookkeeping (fresh id/secret/token, "
            "nothing stored on rejection), RegistrationRead token check. NOT modelled: filter_client_request/match_claim capability matching, "
            "sector_identifier_uri fetch, split_uri/comb_uri echo (oracle only), key loading")
ASSUMPTIONS = ["random_client_id / secret() / rndstr never repeat (freshness; the oracle checks distinctness on every history)"]
_srv = None


def server():
    global _srv
    if _srv is None:
        from idpyoidc.server.oidc.read_registration import RegistrationRead
        _srv = opbase.make_op(more_endpoints={"registration_read": {"path": "registration_api", "class": RegistrationRead,
                                                                   "kwargs": {"client_authn_method": ["bearer_header"]}}})
    return _srv


# ---- a provider that announces narrowed algorithm sets in all places: what a client registers must come from them
CAPS = {
    "subject_types_supported": ["public", "pairwise"],
    "encrypt_request_object_supported": True,
    "request_object_encryption_alg_values_supported": ["RSA-OAEP", "ECDH-ES"], "request_object_encryption_enc_values_supported": ["A128GCM", "A256GCM"],
    "encrypt_id_token_supported": True,
    "id_token_encryption_alg_values_supported": ["RSA-OAEP", "ECDH-ES"], "id_token_encryption_enc_values_supported": ["A128GCM", "A256GCM"],
    "encrypt_userinfo_supported": True,
    "userinfo_encryption_alg_values_supported": ["RSA-OAEP", "ECDH-ES"], "userinfo_encryption_enc_values_supported": ["A128GCM", "A256GCM"],
    "id_token_signing_alg_values_supported": ["RS256", "ES256"], "userinfo_signing_alg_values_supported": ["RS256", "ES256"],
    "request_object_signing_alg_values_supported": ["RS256", "ES256"], "token_endpoint_auth_signing_alg_values_supported": ["RS256", "ES256"],
}
PARAM2SUPPORTED = {
    "request_object_signing_alg": "request_object_signing_alg_values_supported",
    "request_object_encryption_alg": "request_object_encryption_alg_values_supported",
    "request_object_encryption_enc": "request_object_encryption_enc_values_supported",
    "userinfo_signed_response_alg": "userinfo_signing_alg_values_supported",
    "userinfo_encrypted_response_alg": "userinfo_encryption_alg_values_supported",
    "userinfo_encrypted_response_enc": "userinfo_encryption_enc_values_supported",
    "id_token_signed_response_alg": "id_token_signing_alg_values_supported",
    "id_token_encrypted_response_alg": "id_token_encryption_alg_values_supported",
    "id_token_encrypted_response_enc": "id_token_encryption_enc_values_supported",
    "token_endpoint_auth_signing_alg": "token_endpoint_auth_signing_alg_values_supported",
}
OUTSIDE = {"alg_sig": "HS256", "alg_enc": "RSA1_5", "enc": "A128CBC-HS256"}
_capsrv = None


def capserver():
    global _capsrv
    if _capsrv is None:
        _capsrv = opbase.make_op(extra={"capabilities": dict(CAPS)})
    return _capsrv


def caps_cases():
    out = []
    for p in PARAM2SUPPORTED:
        for where in ("inside", "outside"):
            out.append({"t": "caps", "param": p, "where": where})
        # the provider as the other cases use it: no narrowed sets, encryption not switched on (those lists are empty or absent)
        out.append({"t": "caps", "param": p, "where": "outside", "srv": "default"})
    return out


def _caps_impl(c):
    s = capserver() if c.get("srv") != "default" else server()
    pi = s.context.provider_info
    p = c["param"]
    sup = list(pi[PARAM2SUPPORTED[p]]) if PARAM2SUPPORTED[p] in pi else None
    kind = "enc" if p.endswith("_enc") else "alg_enc" if "encrypt" in p else "alg_sig"
    val = sup[-1] if c["where"] == "inside" and sup else OUTSIDE[kind]
    req = {"redirect_uris": ["https://rp.example.org/cb"], p: val}
    if p.endswith("_enc"):
        alg_p = p[:-4] + "_alg"
        req[alg_p] = (pi.get(PARAM2SUPPORTED[alg_p]) or ["RSA-OAEP"])[-1]       # enc comes with an alg: a supported one
    reg = s.get_endpoint("registration")
    try:
        pr = reg.parse_request(req)
        if "error" in pr:
            return {"r": "refused", "announced": sup, "value": val}
        out = reg.process_request(pr)
    except Exception as e:
        return {"r": "refused", "announced": sup, "value": val, "e": type(e).__name__}
    ra = out.get("response_args") if isinstance(out, dict) else None
    if not ra or "client_id" not in ra:
        return {"r": "refused", "announced": sup, "value": val}
    rec = s.context.cdb.get(ra["client_id"], {})
    res = {"r": "registered", "announced": sup, "value": val, "stored": rec.get(p), "echoed": ra.get(p)}
    del s.context.cdb[ra["client_id"]]
    return res


URIS = ["https://rp.example.com/cb", "http://rp.example.com/cb", "http://localhost:8080/cb", "http://127.0.0.1/cb", "myapp://cb", "com.example.app:/oauth",
        "https://rp.example.com/cb#frag", "http://localhost/cb#f", "myapp://cb#frag", "https://rp.example.com/cb?x=1", "HTTPS://rp.example.com/CB",
        "http://[::1]/cb", "https://localhost/cb", "https://rp.example.com/cb2"]
BAD_OTHER = [None, None, None, None, {"initiate_login_uri": "http://rp.example.com/login"}, {"id_token_encrypted_response_enc": "A128CBC-HS256"},
             {"token_endpoint_auth_signing_alg": "none"}, {"request_uris": ["https://rp.example.com/r?x=1"]}]
# further parameters that are fine: the registration goes through (or fails as a whole) whatever their shape
OK_OTHER = [{"request_uris": ["https://rp.example.com/r#frag"]}, {"request_uris": ["https://rp.example.com/r#a#b", "https://rp.example.com/r2"]},
            {"initiate_login_uri": "https://rp.example.com/login"}, {"contacts": ["ops@rp.example.com"]}]


def cases(rng, tier):
    n = {"quick": 40, "thorough": 500, "search": 300}[tier]
    out = []
    # the admission table, exhaustively: every URI shape x application type x response-type list (one registration each)
    RTS = [["code"], ["code", "id_token"], ["id_token"], None, ["code id_token"], ["code", "token"]]
    for app in ("web", "native", None):
        for rt in RTS:
            out.append({"t": "hist", "ops": [["register", [u], app, rt, None] for u in URIS] +
                        [["register", ["https://rp.example.com/cb", u], app, rt, None] for u in URIS[1:6]]})
    # an application_type that is neither of the two values (differing in letter case, padded, another word): refused, whatever the URIs
    for app in ("WEB", "Native", "NATIVE", "Web", "web ", "mobile"):
        out.append({"t": "hist", "ops": [["register", [u], app, rt, None] for u in URIS[:8] for rt in (["code"], ["id_token"])]})
    for other in OK_OTHER:
        out.append({"t": "hist", "ops": [["register", ["https://rp.example.com/cb"], "web", ["code"], other], ["read", 0, 0]]})
    for _ in range(n):
        ops = []
        nreg = 0
        for _ in range(rng.randint(3, 9)):
            if rng.random() < 0.7 or nreg == 0:
                k = rng.choice([1, 1, 1, 2])
                ops.append(["register", rng.sample(URIS, k), rng.choice(["web", "native", None]), rng.choice([["code"], ["code", "id_token"], ["id_token"], None, ["code id_token"]]),
                            rng.choice(BAD_OTHER + OK_OTHER)])
                nreg += 1
            else:
                ops.append(["read", rng.randrange(nreg), rng.randrange(nreg)])
        out.append({"t": "hist", "ops": ops})
    return out + caps_cases()


def eff_rt(rt):
    """response_types as verify_redirect_uris sees them: unsupported values were dropped by the capability filter"""
    if rt is None:
        return None
    sup = server().context.provider_info.get("response_types_supported", [])
    return [x for x in rt if x in sup]


def shape(uri):
    p = urlparse(uri)
    sch = p.scheme if p.scheme in ("http", "https") else "custom"
    return [sch, p.hostname in ("localhost", "127.0.0.1"), bool(p.fragment)]


def impl(c):
    if c.get("t") == "caps":
        return _caps_impl(c)
    s = server()
    ctx = s.context
    for k in [k for k in ctx.cdb if k not in ("client_1", "client_2")]:
        del ctx.cdb[k]
    ctx.registration_access_token.clear()
    reg, rd = s.get_endpoint("registration"), s.get_endpoint("registration_read")
    clients = []    # per register op: None (rejected) or (client_id, secret, token)
    steps = []
    for op in c["ops"]:
        if op[0] == "register":
            req = {"redirect_uris": op[1]}
            if op[2]:
                req["application_type"] = op[2]
            if op[3]:
                req["response_types"] = op[3]
            if op[4]:
                req.update(op[4])
            before = (set(ctx.cdb.keys()), dict(ctx.registration_access_token))
            try:
                pr = reg.parse_request(req)
                out = reg.process_request(pr) if "error" not in pr else pr
            except Exception as e:
                out = {"error": "exc:" + type(e).__name__}
            if "error" in out and "response_args" not in out:
                after = (set(ctx.cdb.keys()), dict(ctx.registration_access_token))
                clients.append(None)
                steps.append({"r": "error", "unchanged": before == after, "left": sorted(after[0] - before[0])})
            else:
                ra = out["response_args"]
                cid = ra["client_id"]
                clients.append((cid, ra.get("client_secret"), ra.get("registration_access_token")))
                stored = ctx.cdb[cid]
                from urllib.parse import urlencode
                stored_uris = [b + ("?" + urlencode(q, doseq=True) if q else "") for b, q in stored.get("redirect_uris", [])]
                echo_ok = sorted(ra.get("redirect_uris", [])) == sorted(stored_uris) and \
                    all(ra[k] == stored[k] for k in ra.keys() if k in stored and k not in ("redirect_uris", "post_logout_redirect_uri", "request_uris"))
                steps.append({"r": "registered", "idx": len(clients) - 1, "echo_ok": echo_ok, "cid": cid, "secret": ra.get("client_secret"), "token": ra.get("registration_access_token"),
                              "stored_uris": [b for b, q in stored.get("redirect_uris", [])]})
        else:
            regd = [x for x in clients if x is not None]
            if not regd:
                steps.append({"r": "skip"}); continue
            tok_owner, target = regd[op[1] % len(regd)], regd[op[2] % len(regd)]
            try:
                pr = rd.parse_request(f"client_id={target[0]}", http_info={"headers": {"authorization": "Bearer " + tok_owner[2]}})
                if "error" in pr:
                    steps.append({"r": "refused", "own": tok_owner[0] == target[0]})
                else:
                    out = rd.process_request(pr)
                    steps.append({"r": "read", "own": tok_owner[0] == target[0], "got": out["response_args"]["client_id"], "t": clients.index(tok_owner), "c": clients.index(target)})
            except Exception as e:
                steps.append({"r": "refused", "own": tok_owner[0] == target[0], "t": clients.index(tok_owner), "c": clients.index(target)})
            if "t" not in steps[-1]:
                steps[-1].update({"t": clients.index(tok_owner), "c": clients.index(target)})
    return {"steps": steps}


def model_lines(c, obs):
    if c.get("t") == "caps":
        # filter_client_request / match_claim for the single-valued parameter, against the table regenerated from the source
        return ["\t".join(["reg", "filter", "gen", c["param"], obs["value"], ",".join(obs["announced"]) if obs["announced"] is not None else "-"])]
    lines = ["reg\treset"]
    regs = []    # register-op index -> model id (or None)
    nxt = 0
    for op, st in zip(c["ops"], obs["steps"]):
        if op[0] == "register":
            other_ok = (op[4] is None or op[4] in OK_OTHER) and op[2] in (None, "web", "native")      # "" is no value at all? see impl: sent as given
            shapes = ";".join(f"{s[0]},{'1' if s[1] else '0'},{'1' if s[2] else '0'}" for s in map(shape, op[1]))
            lines.append("\t".join(["reg", "register", "1" if op[2] == "native" else "0", "1" if eff_rt(op[3]) in (None, ["code"]) else "0", "1" if other_ok else "0", shapes]))
        elif st["r"] != "skip":
            # model ids follow the counter: the k-th successful registration got id 3k
            succ = [i for i, s2 in enumerate(x for x in obs["steps"] if x["r"] in ("registered", "error")) if s2["r"] == "registered"]
            def mid(reg_idx):
                return 3 * succ.index(reg_idx) if reg_idx in succ else 999999
            lines.append(f"reg\tread\t{mid(st['t']) + 2}\t{mid(st['c'])}")
    return lines


def compare(c, obs, outs):
    if c.get("t") == "caps":
        if obs["r"] != "registered":
            return [f"capability matching of {c['param']}={obs['value']}: the registration was refused as a whole ({obs.get('e')}), the model filters the parameter"]
        want = obs["value"] if outs[0].startswith("keep") else None
        return [] if obs["stored"] == want else [f"capability matching of {c['param']}={obs['value']} against {obs['announced']}: model={outs[0]} stored={obs['stored']!r}"]
    d = []
    k = 1
    for op, st in zip(c["ops"], obs["steps"]):
        if st["r"] == "skip":
            continue
        o = outs[k]; k += 1
        if op[0] == "register":
            if o.split(" ")[0] != st["r"]:
                d.append(f"register {op}: model={o} impl={st}"); break
        else:
            if o != st["r"]:
                d.append(f"read {op}: model={o} impl={st}"); break
    return d


def py_rule(uri, app_type, response_types):
    """the property's rule, written on the string (independent of the implementation's parse)"""
    if "#" in uri:
        return False
    m = re.match(r"^([A-Za-z][A-Za-z0-9+.-]*):", uri)
    scheme = m.group(1).lower() if m else ""
    native = app_type == "native"
    host = re.match(r"^[a-z]+://(\[[^\]]*\]|[^/:?#]*)", uri.lower())
    host = host.group(1) if host else ""
    if native:
        return scheme not in ("http", "https") or (scheme == "http" and host in ("localhost", "127.0.0.1"))
    if scheme not in ("http", "https"):
        return False
    if response_types not in (None, ["code"]) and scheme != "https":      # absent: the schema default is ["code"]
        return False
    return True


def oracle(c, obs):
    v = []
    if c.get("t") == "caps":
        if not obs["announced"]:
            return [] if c.get("srv") == "default" else [{"cls": "caps-world-not-as-intended", "param": c["param"]}]
        if obs["r"] == "registered":
            for what in ("stored", "echoed"):
                if obs[what] is not None and obs[what] not in obs["announced"]:
                    v.append({"cls": "unsupported-metadata-" + what, "param": c["param"], "value": obs[what]})
            if c["where"] == "inside" and obs["stored"] != obs["value"]:
                v.append({"cls": "supported-metadata-not-registered", "param": c["param"]})
        return v
    ids, secrets, tokens = set(), set(), set()
    for op, st in zip(c["ops"], obs["steps"]):
        if op[0] == "register":
            if st["r"] == "registered":
                for u in op[1]:
                    if not py_rule(u, op[2], eff_rt(op[3])):
                        v.append({"cls": "inadmissible-uri-stored", "uri": u, "app": op[2], "rt": op[3]})
                if op[4] is not None and op[4] not in OK_OTHER:
                    v.append({"cls": "inconsistent-metadata-stored", "what": list(op[4])[0]})
                if op[2] not in (None, "web", "native", ""):
                    v.append({"cls": "inconsistent-metadata-stored", "what": "application_type", "value": op[2]})
                if st["cid"] in ids or st["secret"] in secrets or st["token"] in tokens:
                    v.append({"cls": "identifier-reused"})
                ids.add(st["cid"]); secrets.add(st["secret"]); tokens.add(st["token"])
                if not st["echo_ok"]:
                    v.append({"cls": "echo-differs-from-stored"})
            elif not st["unchanged"]:
                v.append({"cls": "rejected-registration-left-state", "left": st["left"]})
        elif st["r"] == "read":
            if not st["own"] or st["got"] != st.get("got"):
                v.append({"cls": "read-of-other-client"})
        if v:
            break
    return v


def known_key(c, v, known):
    return common.known_key(c, v, known)


def classify(c, obs):
    if c.get("t") == "caps":
        return "caps:" + c["where"] + ":" + obs["r"]
    return "hist:" + ",".join(sorted({s["r"] for s in obs["steps"]}))


def nontrivial(c, obs):
    if c.get("t") == "caps":
        return True
    return any(op[0] == "read" or op[2] == "native" or op[4] or any(not u.startswith("https://") or "#" in u for u in op[1]) for op in c["ops"])


def generated_obligations():
    """every_alg_param_is_filtered: one kernel-decided membership per algorithm parameter of the regenerated registration schema"""
    import re
    from idpyoidc.message.oidc import RegistrationRequest
    return len([p for p in RegistrationRequest.c_param if re.search(r"_(alg|enc)$", p)])
