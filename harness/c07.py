"""C07 — released user claims are bounded by what the token authorises; history independence."""
import base64
import copy
import json
import common
from common import enc_str, enc_list, dec_list
import opbase
from idpyoidc.message.oidc import AuthorizationRequest
from idpyoidc.server.scopes import SCOPE2CLAIMS

RULE = ("cases: flows (code flow: ID token from the token endpoint + userinfo + JWT access token + introspection by the owner, by another client and "
        "by a client that opted out of audience enforcement, in every order; id_token-only flow; hybrid flows code id_token / id_token token / "
        "code id_token token whose authorization-endpoint ID token is observed as well) on ONE "
        "long-lived provider, over configurations of the four release points (base_claims x add_claims_by_scope x enable_claims_per_client), "
        "three clients (no add_claims / per-client always+by_scope lists / narrower allowed_scopes), random scope sets and claims-parameter "
        "objects with null / essential / value / values requests for attributes the user has, lacks, matches or not. Released attribute set at "
        "each point compared with the Lean restriction/match model; oracle: released subset of the permitted upper bound and equal to the "
        "stored attribute; the same flow on a FRESH provider releases the same set (history independence). "
        "non-trivial: flow with a claims parameter, a per-client configuration, or preceded by an id_token-only flow of the same client")
MODELLED = ("modelled: get_claims_from_request (base / always / by-scope / request claims with dict.update semantics), _client_claims (which rules "
            "apply: per-client or module, primary and secondary release point), the as_if=userinfo decision of the authorization endpoint, "
            "claims_match, get_user_claims, the audience gate of the introspection endpoint. At the interface: scopes_to_claims (computed by the "
            "harness from the configuration it wrote)")
ASSUMPTIONS = ["protocol claims (iss, sub, aud, exp, iat, nonce, at_hash, c_hash, auth_time, acr, sid, jti, scope, client_id, token_class, active, …) are not user attributes"]

USER = {"name": "Diana Krall", "given_name": "Diana", "family_name": "Krall", "nickname": "Dina", "email": "diana@example.org", "email_verified": False,
        "phone_number": "+46 90 7865000", "eduperson_scoped_affiliation": "staff@example.org"}
ATTRS = sorted(USER)
POINTS = {
    "userinfo": {"base_claims": {"eduperson_scoped_affiliation": None}, "add_claims_by_scope": True, "enable_claims_per_client": True},
    "id_token": {"base_claims": {"email": {"essential": True}}, "add_claims_by_scope": False, "enable_claims_per_client": True},
    "access_token": {"base_claims": {}, "add_claims_by_scope": False, "always_add_claims": ["given_name"], "enable_claims_per_client": False},
    "introspection": {"base_claims": {"nickname": None}, "add_claims_by_scope": False, "enable_claims_per_client": False},
}
CLIENTS = {
    "cA": {},
    "cB": {"add_claims": {"always": {"id_token": ["name"], "userinfo": ["nickname", "given_name"]}, "by_scope": {"id_token": True}}},
    "cC": {"allowed_scopes": ["openid", "email"]},
    # explicit opt-OUT of scope-derived claims where the release point's default is on (a False that must not read as "unset")
    "cD": {"add_claims": {"always": {"userinfo": ["nickname"]}, "by_scope": {"userinfo": False, "id_token": False}}},
    # a trusted resource server: audience enforcement at the introspection endpoint is switched off for this client only
    "cRS": {"enforce_audience_restriction": False},
}
FLOW_CLIENTS = ["cA", "cB", "cC", "cD"]
_srv = None


def make_server():
    from idpyoidc.server.authz import AuthzHandling
    # access tokens may be exchanged (RFC 8693): the exchanged token belongs to the client that asked for it
    rules = {"authorization_code": {"supports_minting": ["access_token", "refresh_token", "id_token"], "max_usage": 1},
             "access_token": {"supports_minting": ["access_token"]}, "refresh_token": {"supports_minting": ["access_token", "refresh_token", "id_token"]}}
    s = opbase.make_op(jwt_tokens=True, extra={"authz": {"class": AuthzHandling, "kwargs": {"grant_config": {"usage_rules": rules, "expires_in": 43200}}}})
    ctx = s.context
    ctx.userinfo.db["diana"] = dict(USER)
    s.get_endpoint("userinfo").kwargs.update(copy.deepcopy(POINTS["userinfo"]))
    th = ctx.session_manager.token_handler
    th["id_token"].kwargs.update(copy.deepcopy(POINTS["id_token"]))
    th["access_token"].kwargs.update(copy.deepcopy(POINTS["access_token"]))
    s.get_endpoint("introspection").kwargs.update(copy.deepcopy(POINTS["introspection"]))
    s.get_endpoint("introspection").enforce_aud_restriction = True
    for cid, extra in CLIENTS.items():
        rec = dict(ctx.cdb["client_1"], client_id=cid, redirect_uris=[(f"https://{cid.lower()}.example.com/cb", None)])
        rec.update(copy.deepcopy(extra))
        ctx.cdb[cid] = rec
        ctx.keyjar.add_symmetric(cid, rec["client_secret"])
    return s


def server():
    global _srv
    if _srv is None:
        _srv = make_server()
    return _srv


SPECS = [None, {"essential": True}, {"value": "Diana"}, {"value": "nobody"}, {"values": ["Dina", "x"]}, {"values": ["y"]}, {"essential": True, "value": "diana@example.org"}, {}]


def gen_flow(rng):
    scope = ["openid"] + rng.sample(["profile", "email", "phone", "address"], rng.randint(0, 3))
    claims = None
    if rng.random() < 0.6:
        claims = {}
        for point in rng.sample(["id_token", "userinfo"], rng.randint(1, 2)):
            claims[point] = {a: rng.choice(SPECS) for a in rng.sample(ATTRS + ["birthdate"], rng.randint(1, 3))}
    return {"client": rng.choice(FLOW_CLIENTS), "rt": rng.choice(["code", "code", "code", "id_token", "code id_token", "id_token token", "code id_token token"]),
            "scope": scope, "claims": claims, "intro": rng.sample(["owner", "outsider", "rs"], 3),
            # the user logs out from this client afterwards (the provider lives on: later flows log in again, and out again)
            "logout": rng.random() < 0.35,
            # … or the client hands the access token to the revocation endpoint, with or without a token_type_hint (right, wrong, unknown)
            "revoke_hint": rng.choice(["-", "-", "", "access_token", "refresh_token", "authorization_code", "bogus"]),
            # another client exchanges the access token for one of its own: what that token releases follows THAT client's rules
            "exchange_by": rng.choice([None, None] + [c for c in FLOW_CLIENTS])}


def cases(rng, tier):
    n = {"quick": 50, "thorough": 700, "search": 400}[tier]
    return [{"t": "flows", "flows": [gen_flow(rng) for _ in range(rng.randint(1, 4))]} for _ in range(n)]


def _payload(jwt):
    p = jwt.split(".")[1]
    return json.loads(base64.urlsafe_b64decode(p + "=" * (-len(p) % 4)))


def _user_attrs(d):
    return sorted(k for k in d if k in ATTRS or k == "birthdate")


def run_flow(s, f):
    ctx = s.context
    az, tk, ui, it = (s.get_endpoint(x) for x in ("authorization", "token", "userinfo", "introspection"))
    cid = f["client"]
    red = f"https://{cid.lower()}.example.com/cb"
    args = dict(client_id=cid, redirect_uri=red, scope=f["scope"], state="st", response_type=f["rt"].split(" "), nonce="n0nce")
    if f["claims"] is not None:
        args["claims"] = f["claims"]
    out = {}
    try:
        r = az.process_request(az.parse_request(AuthorizationRequest(**args).to_dict()))
        ra = r["response_args"]
        rts = f["rt"].split(" ")
        if "id_token" in rts:
            # the ID token minted by the authorization endpoint
            out["id_token" if f["rt"] == "id_token" else "id_token_front"] = _user_attrs(_payload(ra["id_token"]))
        at = ra.get("access_token")
        if "code" in rts:
            tr = tk.process_request(tk.parse_request(dict(client_id=cid, client_secret=ctx.cdb[cid]["client_secret"], redirect_uri=red,
                                                          grant_type="authorization_code", code=ra["code"])))["response_args"]
            out["id_token"] = _user_attrs(_payload(tr["id_token"]))
            at = tr["access_token"]
        if at is None:
            return out
        out["access_token"] = _user_attrs(_payload(at))
        u = ui.process_request(ui.parse_request({}, http_info={"headers": {"authorization": "Bearer " + at}}))["response_args"]
        out["userinfo"] = _user_attrs(u)
        out["values_ok"] = all(u[k] == USER[k] for k in u if k in USER)
        outsider = "cA" if cid != "cA" else "cC"
        for who in f.get("intro", ["owner"]):
            asker = {"owner": cid, "outsider": outsider, "rs": "cRS"}[who]
            i = it.process_request(it.parse_request({"token": at, "client_id": asker, "client_secret": ctx.cdb[asker]["client_secret"]}))["response_args"]
            if who == "owner":
                out["introspection"] = _user_attrs(i)
            else:
                out["introspection_" + who] = {"active": bool(i.get("active")), "attrs": _user_attrs(i), "sub": "sub" in i}
        xb = f.get("exchange_by")
        if xb and xb != cid:
            xr = tk.process_request(tk.parse_request(dict(client_id=xb, client_secret=ctx.cdb[xb]["client_secret"],
                                                          grant_type="urn:ietf:params:oauth:grant-type:token-exchange", subject_token=at,
                                                          subject_token_type="urn:ietf:params:oauth:token-type:access_token")))
            xa = xr.get("response_args", {}).get("access_token") if isinstance(xr, dict) else None
            if xa:
                out["x_access_token"] = _user_attrs(_payload(xa))
                xu = ui.process_request(ui.parse_request({}, http_info={"headers": {"authorization": "Bearer " + xa}}))["response_args"]
                out["x_userinfo"] = _user_attrs(xu)
                # (introspection by the exchanging client is gated out by the audience restriction: the exchange grant names no resources)
                out["x_scope"] = xr["response_args"].get("scope")
        if f.get("logout") or f.get("revoke_hint", "-") != "-":
            if f.get("logout"):
                sid = ctx.session_manager.get_session_info_by_token(at, handler_key="access_token")["branch_id"]
                s.get_endpoint("session").logout_from_client(sid)
                out["ended_by"] = "logout"
            else:
                rv = s.get_endpoint("token_revocation")
                rq = {"token": at, "client_id": cid, "client_secret": ctx.cdb[cid]["client_secret"]}
                if f["revoke_hint"]:
                    rq["token_type_hint"] = f["revoke_hint"]
                rr = rv.process_request(rv.parse_request(rq))
                out["ended_by"] = "revocation" + (" (token_type_hint=%s)" % f["revoke_hint"] if f["revoke_hint"] else "")
                if not isinstance(rr, dict) or "error" in rr:
                    out["ended_by"] = None         # the revocation was refused: nothing to conclude
            gone = {}
            try:
                pr = ui.parse_request({}, http_info={"headers": {"authorization": "Bearer " + at}})
                r2 = ui.process_request(pr) if "error" not in pr else pr
                ra = r2.get("response_args", {}) if isinstance(r2, dict) else {}
                gone["userinfo"] = _user_attrs(ra) + (["sub"] if "sub" in ra else [])
            except Exception:
                gone["userinfo"] = []
            try:
                i2 = it.process_request(it.parse_request({"token": at, "client_id": cid, "client_secret": ctx.cdb[cid]["client_secret"]}))["response_args"]
                gone["introspection"] = _user_attrs(i2) + (["sub"] if "sub" in i2 else []) + (["active"] if i2.get("active") else [])
            except Exception:
                gone["introspection"] = []
            if out["ended_by"]:
                out["after_logout"] = gone
    except Exception as e:
        out["exc"] = type(e).__name__ + ":" + str(e)[:100]
    return out


def impl(c):
    s = server()
    aged = [run_flow(s, f) for f in c["flows"]]
    fresh = run_flow(make_server(), c["flows"][-1])      # the last flow alone on a fresh provider
    return {"aged": aged, "fresh_last": fresh}


def point_of(obs_key):
    if obs_key.startswith("x_"):
        return obs_key[2:]
    return "id_token" if obs_key == "id_token_front" else obs_key


def flow_for(obs_key, f, o=None):
    """the flow as the release point sees it: for the exchanged token the client that exchanged, no claims parameter of its own
    (the exchange grant keeps the original authorization request: its claims parameter still applies)"""
    if not obs_key.startswith("x_"):
        return f
    sc = (o or {}).get("x_scope") or f["scope"]
    return dict(f, client=f["exchange_by"], scope=sc if isinstance(sc, list) else sc.split(" "))


def rt_only(obs_key, f):
    """the ID token stands in for userinfo exactly when the response type is id_token alone"""
    return obs_key == "id_token" and f["rt"] == "id_token"


def raw_conf(obs_key, f):
    """the configuration as written by this harness, NOT resolved: module settings, the client's add_claims entries for the point and for
    userinfo (the only secondary point there is), the claims of the allowed scopes, the request's claims for the point"""
    point = point_of(obs_key)
    cfg = POINTS[point]
    cl = CLIENTS[f["client"]]
    ac = cl.get("add_claims", {})
    bs = ac.get("by_scope", {})
    allowed = cl.get("allowed_scopes", ["openid", "profile", "email", "address", "phone", "offline_access"])
    sc = []
    for scp in f["scope"]:
        if scp in allowed:
            sc += SCOPE2CLAIMS.get(scp, [])
    return {"base": cfg.get("base_claims", {}), "m_always": list(cfg.get("always_add_claims", [])), "m_by_scope": bool(cfg.get("add_claims_by_scope", False)),
            "per_client": bool(cfg.get("enable_claims_per_client")), "bs_nonempty": bool(bs), "bs_point": bs.get(point), "bs_sec": bs.get("userinfo"),
            "al_point": list(ac.get("always", {}).get(point, [])), "al_sec": list(ac.get("always", {}).get("userinfo", [])),
            "scope_claims": sc, "requested": (f["claims"] or {}).get(point, {})}


def resolved(obs_key, f):
    """independent statement of the upper bound (oracle): (base, always, byScope, scopeClaims, requested)"""
    r = raw_conf(obs_key, f)
    secondary = rt_only(obs_key, f)
    by_scope, always = r["m_by_scope"], r["m_always"]
    if r["per_client"]:
        if r["bs_nonempty"]:
            v = r["bs_point"]
            if v is None and secondary:
                v = r["bs_sec"] if r["bs_sec"] is not None else False
            if v is None:
                v = r["m_by_scope"]
            by_scope = v
        always = r["al_point"] + (r["al_sec"] if secondary else [])
    return r["base"], always, bool(by_scope), r["scope_claims"], r["requested"]


OBS_POINTS = ("id_token_front", "id_token", "userinfo", "access_token", "introspection", "x_access_token", "x_userinfo")
US = "\x1f"


def _spec(k, v):
    if v is None:
        return US.join([k, "n"])
    keys = set(v)
    if "value" in keys:
        return US.join([k, "v", str(v["value"])]) if "values" not in keys else US.join([k, "x"])
    if "values" in keys:
        return US.join([k, "s"] + [str(x) for x in v["values"]])
    if keys == {"essential"}:
        return US.join([k, "e"])
    return US.join([k, "x"])


def _ob(x):
    return "-" if x is None else ("1" if x else "0")


def model_lines(c, obs):
    lines = []
    info = [US.join([k, str(v)]) for k, v in USER.items()]
    for f, o in zip(c["flows"], obs["aged"]):
        for key in OBS_POINTS:
            if key not in o:
                continue
            r = raw_conf(key, flow_for(key, f, o))
            lines.append("\t".join(["claims", "resolve", enc_list([_spec(k, v) for k, v in r["base"].items()]), enc_list(r["m_always"]), _ob(r["m_by_scope"]),
                                    _ob(r["per_client"]), _ob(r["bs_nonempty"]), _ob(r["bs_point"]), _ob(r["bs_sec"]), enc_list(r["al_point"]),
                                    enc_list(r["al_sec"]), enc_str(point_of(key)), _ob(rt_only(key, f)), enc_list(r["scope_claims"]),
                                    enc_list([_spec(k, v) for k, v in r["requested"].items()]), enc_list(info)]))
        for who, cs in (("outsider", None), ("rs", False)):
            if "introspection_" + who in o:
                lines.append("\t".join(["claims", "audgate", "1", _ob(cs), "0"]))
    return lines


def compare(c, obs, outs):
    d = []
    k = 0
    for f, o in zip(c["flows"], obs["aged"]):
        if "exc" in o:
            d.append(f"flow failed: {o['exc']} {f}"); break
        for key in OBS_POINTS:
            if key not in o:
                continue
            m = sorted(x for x in dec_list(outs[k]) if x != "sub"); k += 1
            got = [x for x in o[key]]
            if m != got:
                d.append(f"{key} of {f}: model={m} impl={got}")
        for who in ("outsider", "rs"):
            if "introspection_" + who in o:
                m = outs[k] == "1"; k += 1
                if m != o["introspection_" + who]["active"]:
                    d.append(f"introspection by {who} of {f}: model passes={m} impl={o['introspection_' + who]}")
        if d:
            break
    return d[:1]


def oracle(c, obs):
    v = []
    for f, o in zip(c["flows"], obs["aged"]):
        for point in OBS_POINTS:
            if point not in o:
                continue
            base, always, by_scope, sc, req = resolved(point, flow_for(point, f, o))
            permitted = set(base) | set(always) | (set(sc) if by_scope else set()) | set(req)
            extra = set(o[point]) - permitted
            if extra:
                v.append({"cls": "released-beyond-permitted", "point": point, "extra": sorted(extra), "rt": f["rt"],
                          "exchange": [f["client"], f.get("exchange_by")] if point.startswith("x_") else None})
        al = o.get("after_logout")
        if al and (al["userinfo"] or al["introspection"]):
            v.append({"cls": "released-for-an-invalid-token", "after": o.get("ended_by", "logout"), "released": al, "client": f["client"]})
        x = o.get("introspection_outsider")
        if x and (x["active"] or x["attrs"] or x["sub"]):
            v.append({"cls": "released-outside-audience", "got": x, "order": f.get("intro")})
        if o.get("values_ok") is False:
            v.append({"cls": "released-value-differs"})
    last, fresh = obs["aged"][-1], obs["fresh_last"]
    for point in OBS_POINTS + ("introspection_outsider", "introspection_rs"):
        if point in last and point in fresh and last[point] != fresh[point]:
            v.append({"cls": "history-dependent-release", "point": point, "aged": last[point], "fresh": fresh[point]})
    return v[:2]


def known_key(c, v, known):
    return common.known_key(c, v, known)


def classify(c, obs):
    return "flows:" + ",".join(sorted({f["client"] + "/" + f["rt"] for f in c["flows"]}))


def nontrivial(c, obs):
    return any(f["claims"] or f["client"] != "cA" for f in c["flows"]) or len(c["flows"]) > 1
