"""C07 — released user claims are bounded by what the token authorises; history independence."""
import base64
import copy
import json
import common
from common import enc_str, enc_list, dec_list
import opbase
from idpyoidc.message.oidc import AuthorizationRequest
from idpyoidc.server.scopes import SCOPE2CLAIMS

RULE = ("cases: flows (code flow: ID token from the token endpoint + userinfo + JWT access token + introspection; id_token-only flow) on ONE "
        "long-lived provider, over configurations of the four release points (base_claims x add_claims_by_scope x enable_claims_per_client), "
        "three clients (no add_claims / per-client always+by_scope lists / narrower allowed_scopes), random scope sets and claims-parameter "
        "objects with null / essential / value / values requests for attributes the user has, lacks, matches or not. Released attribute set at "
        "each point compared with the Lean restriction/match model; oracle: released subset of the permitted upper bound and equal to the "
        "stored attribute; the same flow on a FRESH provider releases the same set (history independence). "
        "non-trivial: flow with a claims parameter, a per-client configuration, or preceded by an id_token-only flow of the same client")
MODELLED = ("modelled: get_claims_from_request (base / always / by-scope / request claims with dict.update semantics), claims_match, get_user_claims. "
            "At the interface: the per-client resolution in _client_claims and scopes_to_claims are computed by the harness from the "
            "configuration it wrote (their aliasing behaviour is what the history-independence oracle watches)")
ASSUMPTIONS = ["protocol claims (iss, sub, aud, exp, iat, nonce, at_hash, c_hash, auth_time, acr, sid, jti, scope, client_id, token_class, active, …) are not user attributes"]

USER = {"name": "Diana Krall", "given_name": "Diana", "family_name": "Krall", "nickname": "Dina", "email": "diana@example.org", "email_verified": False,
        "phone_number": "+46 90 7865000", "eduperson_scoped_affiliation": "staff@example.org"}
ATTRS = sorted(USER)
POINTS = {
    "userinfo": {"base_claims": {"eduperson_scoped_affiliation": None}, "add_claims_by_scope": True, "enable_claims_per_client": True},
    "id_token": {"base_claims": {"email": {"essential": True}}, "add_claims_by_scope": False, "enable_claims_per_client": True},
    "access_token": {"base_claims": {}, "add_claims_by_scope": False, "always_add_claims": ["given_name"], "enable_claims_per_client": False},
    "introspection": {"base_claims": {"nickname": None}, "add_claims_by_scope": False, "enable_claims_per_client": False},
}
CLIENTS = {
    "cA": {},
    "cB": {"add_claims": {"always": {"id_token": ["name"], "userinfo": ["nickname", "given_name"]}, "by_scope": {"id_token": True}}},
    "cC": {"allowed_scopes": ["openid", "email"]},
    # explicit opt-OUT of scope-derived claims where the release point's default is on (a False that must not read as "unset")
    "cD": {"add_claims": {"always": {"userinfo": ["nickname"]}, "by_scope": {"userinfo": False, "id_token": False}}},
}
_srv = None


def make_server():
    s = opbase.make_op(jwt_tokens=True)
    ctx = s.context
    ctx.userinfo.db["diana"] = dict(USER)
    s.get_endpoint("userinfo").kwargs.update(copy.deepcopy(POINTS["userinfo"]))
    th = ctx.session_manager.token_handler
    th["id_token"].kwargs.update(copy.deepcopy(POINTS["id_token"]))
    th["access_token"].kwargs.update(copy.deepcopy(POINTS["access_token"]))
    s.get_endpoint("introspection").kwargs.update(copy.deepcopy(POINTS["introspection"]))
    for cid, extra in CLIENTS.items():
        rec = dict(ctx.cdb["client_1"], client_id=cid, redirect_uris=[(f"https://{cid.lower()}.example.com/cb", None)])
        rec.update(copy.deepcopy(extra))
        ctx.cdb[cid] = rec
        ctx.keyjar.add_symmetric(cid, rec["client_secret"])
    return s


def server():
    global _srv
    if _srv is None:
        _srv = make_server()
    return _srv


SPECS = [None, {"essential": True}, {"value": "Diana"}, {"value": "nobody"}, {"values": ["Dina", "x"]}, {"values": ["y"]}, {"essential": True, "value": "diana@example.org"}, {}]


def gen_flow(rng):
    scope = ["openid"] + rng.sample(["profile", "email", "phone", "address"], rng.randint(0, 3))
    claims = None
    if rng.random() < 0.6:
        claims = {}
        for point in rng.sample(["id_token", "userinfo"], rng.randint(1, 2)):
            claims[point] = {a: rng.choice(SPECS) for a in rng.sample(ATTRS + ["birthdate"], rng.randint(1, 3))}
    return {"client": rng.choice(list(CLIENTS)), "rt": rng.choice(["code", "code", "code", "id_token"]), "scope": scope, "claims": claims}


def cases(rng, tier):
    n = {"quick": 50, "thorough": 700, "search": 400}[tier]
    return [{"t": "flows", "flows": [gen_flow(rng) for _ in range(rng.randint(1, 4))]} for _ in range(n)]


def _payload(jwt):
    p = jwt.split(".")[1]
    return json.loads(base64.urlsafe_b64decode(p + "=" * (-len(p) % 4)))


def _user_attrs(d):
    return sorted(k for k in d if k in ATTRS or k == "birthdate")


def run_flow(s, f):
    ctx = s.context
    az, tk, ui, it = (s.get_endpoint(x) for x in ("authorization", "token", "userinfo", "introspection"))
    cid = f["client"]
    red = f"https://{cid.lower()}.example.com/cb"
    args = dict(client_id=cid, redirect_uri=red, scope=f["scope"], state="st", response_type=f["rt"].split(" "), nonce="n0nce")
    if f["claims"] is not None:
        args["claims"] = f["claims"]
    out = {}
    try:
        r = az.process_request(az.parse_request(AuthorizationRequest(**args).to_dict()))
        ra = r["response_args"]
        if f["rt"] == "id_token":
            out["id_token"] = _user_attrs(_payload(ra["id_token"]))
            return out
        tr = tk.process_request(tk.parse_request(dict(client_id=cid, client_secret=ctx.cdb[cid]["client_secret"], redirect_uri=red,
                                                      grant_type="authorization_code", code=ra["code"])))["response_args"]
        out["id_token"] = _user_attrs(_payload(tr["id_token"]))
        at = tr["access_token"]
        out["access_token"] = _user_attrs(_payload(at))
        u = ui.process_request(ui.parse_request({}, http_info={"headers": {"authorization": "Bearer " + at}}))["response_args"]
        out["userinfo"] = _user_attrs(u)
        out["values_ok"] = all(u[k] == USER[k] for k in u if k in USER)
        i = it.process_request(it.parse_request({"token": at, "client_id": cid, "client_secret": ctx.cdb[cid]["client_secret"]}))["response_args"]
        out["introspection"] = _user_attrs(i)
    except Exception as e:
        out["exc"] = type(e).__name__ + ":" + str(e)[:100]
    return out


def impl(c):
    s = server()
    aged = [run_flow(s, f) for f in c["flows"]]
    fresh = run_flow(make_server(), c["flows"][-1])      # the last flow alone on a fresh provider
    return {"aged": aged, "fresh_last": fresh}


def resolved(point, f):
    """(base, always, byScope, scopeClaims, requested) as the configuration says — for the CONFIGURED client record"""
    cfg = POINTS[point]
    cl = CLIENTS[f["client"]]
    by_scope = cfg.get("add_claims_by_scope", False)
    always = list(cfg.get("always_add_claims", []))
    secondary = "userinfo" if (point == "id_token" and f["rt"] == "id_token") else ""
    if cfg.get("enable_claims_per_client"):
        ac = cl.get("add_claims", {})
        bs = ac.get("by_scope", {})
        if bs:
            v = bs.get(point)
            if v is None and secondary:
                v = bs.get(secondary, False)
            if v is None:
                v = cfg.get("add_claims_by_scope", {})
            by_scope = v
        always = list(ac.get("always", {}).get(point, []))
        if secondary:
            always += ac.get("always", {}).get(secondary, [])
    allowed = cl.get("allowed_scopes", ["openid", "profile", "email", "address", "phone", "offline_access"])
    sc = []
    for scp in f["scope"]:
        if scp in allowed:
            sc += SCOPE2CLAIMS.get(scp, [])
    requested = (f["claims"] or {}).get(point, {})
    return cfg.get("base_claims", {}), always, bool(by_scope), sc, requested


US = "\x1f"


def _spec(k, v):
    if v is None:
        return US.join([k, "n"])
    keys = set(v)
    if "value" in keys:
        return US.join([k, "v", str(v["value"])]) if "values" not in keys else US.join([k, "x"])
    if "values" in keys:
        return US.join([k, "s"] + [str(x) for x in v["values"]])
    if keys == {"essential"}:
        return US.join([k, "e"])
    return US.join([k, "x"])


def model_lines(c, obs):
    lines = []
    info = [US.join([k, str(v)]) for k, v in USER.items()]
    for f, o in zip(c["flows"], obs["aged"]):
        for point in ("id_token", "userinfo", "access_token", "introspection"):
            if point not in o:
                continue
            base, always, by_scope, sc, req = resolved(point, f)
            lines.append("\t".join(["claims", "release", enc_list([_spec(k, v) for k, v in base.items()]), enc_list(always), "1" if by_scope else "0",
                                    enc_list(sc), enc_list([_spec(k, v) for k, v in req.items()]), enc_list(info)]))
    return lines


def compare(c, obs, outs):
    d = []
    k = 0
    for f, o in zip(c["flows"], obs["aged"]):
        if "exc" in o:
            d.append(f"flow failed: {o['exc']} {f}"); break
        for point in ("id_token", "userinfo", "access_token", "introspection"):
            if point not in o:
                continue
            m = sorted(x for x in dec_list(outs[k]) if x != "sub"); k += 1
            got = [x for x in o[point]]
            if m != got:
                d.append(f"{point} of {f}: model={m} impl={got}")
        if d:
            break
    return d[:1]


def oracle(c, obs):
    v = []
    for f, o in zip(c["flows"], obs["aged"]):
        for point in ("id_token", "userinfo", "access_token", "introspection"):
            if point not in o:
                continue
            base, always, by_scope, sc, req = resolved(point, f)
            permitted = set(base) | set(always) | (set(sc) if by_scope else set()) | set(req)
            extra = set(o[point]) - permitted
            if extra:
                v.append({"cls": "released-beyond-permitted", "point": point, "extra": sorted(extra)})
        if o.get("values_ok") is False:
            v.append({"cls": "released-value-differs"})
    last, fresh = obs["aged"][-1], obs["fresh_last"]
    for point in ("id_token", "userinfo", "access_token", "introspection"):
        if point in last and point in fresh and last[point] != fresh[point]:
            v.append({"cls": "history-dependent-release", "point": point, "aged": last[point], "fresh": fresh[point]})
    return v[:2]


def known_key(c, v, known):
    return common.known_key(c, v, known)


def classify(c, obs):
    return "flows:" + ",".join(sorted({f["client"] + "/" + f["rt"] for f in c["flows"]}))


def nontrivial(c, obs):
    return any(f["claims"] or f["client"] != "cA" for f in c["flows"]) or len(c["flows"]) > 1
