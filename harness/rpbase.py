"""Relying-party side helpers: a StandAloneClient without a live provider (C08), token factory with controllable signer."""
import base64
import json
from cryptojwt.jwk.hmac import SYMKey
from cryptojwt.jws.jws import JWS
from cryptojwt.key_jar import build_keyjar
from idpyoidc.client.oauth2.stand_alone_client import StandAloneClient

ISS = "https://op.example.org"
ISSJ = "https://other-op.example.net"
CID = "client_1"
SECRET = "a-very-secret-client-secret-0123456789"
KD = [{"type": "RSA", "use": ["sig"]}, {"type": "EC", "crv": "P-256", "use": ["sig"]}]
_kj = {}


def keys(who):
    """key jars of the expected issuer ('op'), another issuer the RP also knows ('j') and a stranger ('foreign')"""
    if who not in _kj:
        _kj[who] = build_keyjar(KD)
    return _kj[who]


def provider_info(iss=ISS):
    return {"issuer": iss, "authorization_endpoint": iss + "/authorization", "token_endpoint": iss + "/token", "userinfo_endpoint": iss + "/userinfo",
            "jwks_uri": iss + "/jwks.json", "subject_types_supported": ["public"],
            "response_types_supported": ["code", "id_token", "code id_token", "id_token token", "code id_token token", "code token"],
            "id_token_signing_alg_values_supported": ["RS256", "ES256", "HS256", "none"]}


def make_rp(sigalg=None, allow_none=False, skew=None, missing_kid=False, reg="static", iss=ISS, cid=CID, httpc=None, extra=None):
    conf = {"base_url": "https://rp.example.com", "client_id": cid, "client_type": "oidc", "client_secret": SECRET,
            "redirect_uris": ["https://rp.example.com/cb"], "issuer": iss, "provider_info": provider_info(iss),
            "token_endpoint_auth_method": "client_secret_post"}
    if skew is not None:
        conf["clock_skew"] = skew
    if sigalg and reg == "static":
        # static registration: the preference; matching it with the provider's capabilities gives what the client uses
        conf["id_token_signing_alg_values_supported"] = [sigalg]
    if missing_kid:
        conf["allow"] = {"missing_kid": True}
    if extra:
        conf.update(extra)
    rp = StandAloneClient(config=conf, httpc=httpc)
    rp.do_provider_info()
    rp.do_client_registration()
    if reg == "dynamic":
        # what a dynamic registration leaves behind: the registration response
        from idpyoidc.message.oidc import RegistrationResponse
        rr = RegistrationResponse(client_id=cid, client_secret=SECRET, redirect_uris=["https://rp.example.com/cb"])
        if sigalg:
            rr["id_token_signed_response_alg"] = sigalg
        rp.get_context().registration_response = rr
    if allow_none:
        # the application's explicit choice (there is no configuration key for it)
        rp.get_context().set_usage("verify_args", {"allow_sign_alg_none": True})
    kj = rp.get_attribute("keyjar")
    kj.import_jwks(keys("op").export_jwks(), ISS)
    kj.import_jwks(keys("j").export_jwks(), ISSJ)
    return rp


def b64(d):
    return base64.urlsafe_b64encode(json.dumps(d).encode()).decode().rstrip("=")


def unb64(s):
    return json.loads(base64.urlsafe_b64decode(s + "=" * (-len(s) % 4)))


def sign(claims, signer, kid="ok", header_alg=None):
    """signer: op-rsa op-ec j-rsa j-ec foreign-rsa foreign-ec secret pub-as-hmac unsigned;
    kid: ok / absent / wrong; header_alg: rewrite the header's alg afterwards (the signature no longer matches), or 'none'"""
    body = json.dumps(claims)
    if signer == "unsigned":
        tok = JWS(body, alg="none").sign_compact([])
    else:
        if signer == "secret":
            k, alg = SYMKey(key=SECRET, kid=""), "HS256"
        elif signer == "pub-as-hmac":
            pub = keys("op").get_signing_key("RSA", "")[0]
            pem = json.dumps(pub.serialize(private=False), sort_keys=True)
            k, alg = SYMKey(key=pem, kid=pub.kid), "HS256"
        else:
            who, typ = signer.split("-")
            k = keys(who).get_signing_key("RSA" if typ == "rsa" else "EC", "")[0]
            alg = "RS256" if typ == "rsa" else "ES256"
        tok = JWS(body, alg=alg).sign_compact([k])
        h, p, s = tok.split(".")
        hd = unb64(h)
        if kid == "absent":
            hd.pop("kid", None)
        elif kid == "wrong":
            hd["kid"] = "no-such-kid"
        if kid != "ok":
            # re-sign with the edited header: the signature covers the header
            j = JWS(body, alg=alg)
            if kid == "absent":
                tok = j.sign_compact([_nokid(k)])
            else:
                tok = j.sign_compact([_withkid(k, "no-such-kid")])
    if header_alg:
        h, p, s = tok.split(".")
        hd = unb64(h)
        hd["alg"] = header_alg
        tok = ".".join([b64(hd), p, "" if header_alg == "none-strip" else s])
        if header_alg == "none-strip":
            hd["alg"] = "none"
            tok = ".".join([b64(hd), p, ""])
    return tok


def _nokid(k):
    import copy
    k2 = copy.copy(k)
    k2.kid = ""
    return k2


def _withkid(k, kid):
    import copy
    k2 = copy.copy(k)
    k2.kid = kid
    return k2
