"""C02 — authorization codes: single use, client-bound, redirect-bound, expiring; all interleavings of parse/process."""
import itertools
import random
import common
import prov

RULE = ("cases: (il) ALL interleavings of the parse_request/process_request steps of 2 (6 schedules) and 3 (90 schedules) concurrent redemptions of "
        "one code, on the OIDC and OAuth2 token endpoints with opaque and JWT handlers, optionally with a clock advance past the code lifetime "
        "between steps; (hist) generated histories over several users/clients/codes with replays, cross-client presentation, altered or missing "
        "redirect_uri and clock advance. Outcome and token projection compared with the Lean model after every step; an independent oracle "
        "counts deliveries per code and checks the client/redirect/expiry bindings and the OIDC replay revocation. "
        "non-trivial: at least two presentations of the same code")
MODELLED = prov.__doc__ + " modelled: AccessTokenHelper.post_parse_request/process_request (oauth2+oidc), Grant.mint_token, counter arithmetic incl. `used -= 1`"
ASSUMPTIONS = ["interleaving granularity is the API step (parse_request / process_request), as the property states; thread-level interleaving inside one call is not modelled",
               "ID-token signing never fails (so the `failed id_token keeps code live` path is unreachable in the harness)"]
RED = "https://client_1.example.com/cb"


def schedules(k):
    """all interleavings of k parse->process pairs"""
    seen = set()
    for perm in set(itertools.permutations([i for i in range(k) for _ in (0, 1)])):
        seen.add(perm)
    return sorted(seen)


def il_case(k, sched, oidc, jwt, tick_at=None, tick=301, wrong=None):
    return {"t": "il", "k": k, "sched": list(sched), "oidc": oidc, "jwt": jwt, "tick_at": tick_at, "tick": tick, "wrong": wrong}


def _il_ops(c):
    ops = [["authorize", "diana", "client_1", ["openid", "offline_access", "email"], RED]]
    started, pend = set(), []     # pend: request ids in pending-list order
    for pos, r in enumerate(c["sched"]):
        if c["tick_at"] == pos:
            ops.append(["tick", c["tick"]])
        if r not in started:
            started.add(r)
            cl, red = "client_1", RED
            if c["wrong"] in ("client", "claim") and r == 0:
                cl = "client_2"       # "claim": client_2 authenticates in the Authorization header, the body names client_1
            if c["wrong"] == "redirect" and r == 0:
                red = RED + "/x"
            if c["wrong"] == "noredirect" and r == 0:
                red = None
            ops.append(["tokenParse", cl, 1, red] + (["client_1"] if c["wrong"] == "claim" and r == 0 else []))
            pend.append(r)          # optimistic; if the parse fails the process below names a missing index -> refused on both sides
        else:
            idx = pend.index(r) if r in pend else 99
            ops.append(["tokenProcess", idx])
            if r in pend:
                pend.remove(r)
    ops.append(["introspect", "client_1", 2])
    return ops


def cases(rng, tier):
    out = []
    combos = [(True, False), (False, False), (True, True), (False, True)]
    for oidc, jwt in combos:
        for s in schedules(2):
            out.append(il_case(2, s, oidc, jwt))
    s3 = schedules(3)
    if tier == "quick":
        pick = rng.sample(s3, 24)
        for i, s in enumerate(pick):
            oidc, jwt = combos[i % 4]
            out.append(il_case(3, s, oidc, jwt))
    else:
        for oidc, jwt in combos:
            for s in s3:
                out.append(il_case(3, s, oidc, jwt))
    for _ in range(12 if tier == "quick" else 150):
        oidc, jwt = rng.choice(combos)
        k = rng.choice([2, 3])
        s = rng.choice(schedules(k))
        out.append(il_case(k, s, oidc, jwt, tick_at=rng.randrange(len(s)), tick=rng.choice([299, 300, 301, 5000]),
                           wrong=rng.choice([None, None, "client", "claim", "redirect", "noredirect"])))
    # binding clauses on each endpoint/handler combination: one redemption with a wrong client / altered / missing redirect_uri, then the right one
    for oidc, jwt in combos:
        for wrong in ("client", "claim", "redirect", "noredirect"):
            out.append(il_case(2, (0, 0, 1, 1), oidc, jwt, wrong=wrong))
            out.append(il_case(2, (0, 1, 0, 1), oidc, jwt, wrong=wrong))
    for oidc, jwt in combos:
        for order in (0, 1):
            out.append({"t": "sso", "oidc": oidc, "jwt": jwt, "order": order, "offline": rng.random() < 0.5})
    # PKCE add-on in front of the token endpoint: the used code is presented again with the right / a wrong / no verifier
    for oidc, jwt in combos:
        for rep in ("right", "wrong", "none"):
            out.append({"t": "pkce", "oidc": oidc, "jwt": jwt, "replay": rep})
    n = {"quick": 30, "thorough": 600, "search": 400}[tier]
    W = dict(authorize=14, redeem=22, parse=14, process=14, refresh=4, userinfo=3, introspect=3, revokeEp=2, revokeTok=3,
             revokeGrant=2, revokeClient=1, revokeUser=0.5, remove=1, tick=8)
    for _ in range(n):
        out.append({"t": "hist", "oidc": rng.random() < 0.6, "jwt": rng.random() < 0.3, "gen_seed": rng.getrandbits(48),
                    "n": rng.randint(8, 24 if tier == "quick" else 40), "w": W})
    # grants without a lifetime of their own: what bounds a code is then its own lifetime alone
    for _ in range(max(4, n // 5)):
        out.append({"t": "hist", "oidc": rng.random() < 0.6, "jwt": rng.random() < 0.3, "usage": "nogrant", "gen_seed": rng.getrandbits(48),
                    "n": rng.randint(8, 20), "w": dict(W, tick=16)})
    out += _rmit_cases(rng, tier)
    return out


def _ops_for(c):
    if c["t"] == "il":
        return _il_ops(c)
    if "ops" in c:
        return c["ops"]
    ops, _ = prov.gen_adaptive(random.Random(c["gen_seed"]), c["n"], oidc=c["oidc"], jwt=c["jwt"], weights=c.get("w"), usage=c.get("usage"))
    return ops


def _sso_impl(c):
    """the user returns with the provider's session cookie, the client uses its other redirect_uri: the new code is redeemable with THAT one only"""
    R2 = "https://client_1.example.com/cb2"
    R = prov.Runner(c["oidc"], c["jwt"])
    ops, steps = [], []

    def do(o):
        r = R.op(o)
        ops.append(o)
        steps.append({"out": prov.canon_outcome(r), "raw": r, "proj": R.projection(), "now": prov.clock.CLOCK.t - prov.T0})
        return r
    sc = ["openid", "email"] + (["offline_access"] if c.get("offline") else [])
    r1 = do(["authorize", "diana", "client_1", sc, RED])
    r2 = do(["authorize", "diana", "client_1", sc, R2, "sso"])
    if r1[0] == "code" and r2[0] == "code":
        for code, red in ((r2[1], RED), (r2[1], R2), (r1[1], R2), (r1[1], RED)) if c.get("order") else ((r1[1], R2), (r2[1], RED), (r1[1], RED), (r2[1], R2)):
            x = do(["tokenParse", "client_1", code, red])
            if x[0] == "parsed":
                do(["tokenProcess", 0])
    return {"ops": ops, "steps": steps}


def _pkce_impl(c):
    """authorize with a code_challenge, redeem with the verifier, present the used code again; then ask introspection about the first access token"""
    V = "v" * 50
    R = prov.Runner(c["oidc"], c["jwt"], pkce=True)
    ops, steps = [], []

    def do(o):
        r = R.op(o)
        ops.append(o)
        steps.append({"out": prov.canon_outcome(r), "raw": r, "proj": R.projection(), "now": prov.clock.CLOCK.t - prov.T0})
        return r
    R.auth_extra = {"code_challenge": V, "code_challenge_method": "plain"}
    do(["authorize", "diana", "client_1", ["openid", "offline_access", "email"], RED])
    R.auth_extra = {}
    R.token_extra = {"code_verifier": V}
    do(["tokenParse", "client_1", 1, RED]); do(["tokenProcess", 0])
    R.token_extra = {"right": {"code_verifier": V}, "wrong": {"code_verifier": "w" * 50}, "none": {}}[c["replay"]]
    do(["tokenParse", "client_1", 1, RED])
    R.token_extra = {}
    do(["introspect", "client_1", 2])
    return {"ops": ops, "steps": steps}


def impl(c):
    if c["t"] == "pkce":
        return _pkce_impl(c)
    if c["t"] == "sso":
        return _sso_impl(c)
    ops = _ops_for(c)
    R = prov.Runner(c["oidc"], c["jwt"], **(c.get("runner") or ({"usage": c["usage"]} if c.get("usage") else {})))
    steps = []
    for o in ops:
        r = R.op(o)
        steps.append({"out": prov.canon_outcome(r), "raw": r, "proj": R.projection(), "now": prov.clock.CLOCK.t - prov.T0})
    return {"ops": ops, "steps": steps}


def model_lines(c, obs):
    if c.get("runner"):
        return []          # configuration variants outside the driver's fixed rule table: oracle only
    return [prov.cfg_line(c["oidc"], c["jwt"], c.get("usage"))] + [prov.model_line(o) for o in obs["ops"]]


def compare(c, obs, outs):
    if c.get("runner"):
        return []
    return prov.compare_history(obs["ops"], obs["steps"], outs)


def oracle(c, obs):
    v = []
    ops = obs["ops"]
    issued = {}       # code handle -> (client, redirect, issued_at, lifetime)
    delivered = {}    # code -> list of step indices
    pending = []      # (client, code, redirect) in pending order, mirrors Runner.pending
    minted_from = {}  # code -> set of token handles delivered for it
    life = c.get("code_lifetime", 300)
    replayed_dead = set()      # tokens delivered for a code that was presented again afterwards
    for i, st in enumerate(obs["steps"]):
        o, r = ops[i], st["raw"]
        if o[0] == "userinfo" and o[1] in replayed_dead and r[0] == "userinfo":
            v.append({"cls": "replay-does-not-revoke", "step": i, "token": o[1], "seen_at": "userinfo"})
        if o[0] == "introspect" and o[2] in replayed_dead and r[0] == "introspect" and r[1]:
            v.append({"cls": "replay-does-not-revoke", "step": i, "token": o[2], "seen_at": "introspection"})
        if o[0] == "authorize" and r[0] == "code":
            issued[r[1]] = (o[2], o[4], st["now"], life)
        elif o[0] == "tokenParse":
            if r[0] == "parsed":
                pending.append((o[1], o[2], o[3], st["now"]))
            elif c["oidc"] and o[2] in delivered:
                # second presentation after a delivery: everything minted from the first must now be revoked
                toks = {t[0]: t for t in st["proj"]["toks"]}
                for h in minted_from.get(o[2], ()):
                    if h in toks and not toks[h][5]:
                        v.append({"cls": "replay-does-not-revoke", "step": i, "token": h})
                replayed_dead.update(minted_from.get(o[2], ()))
        elif o[0] == "tokenProcess":
            req = pending.pop(o[1]) if o[1] < len(pending) else None
            if r[0] == "tokens":
                if req is None:
                    v.append({"cls": "delivery-without-request", "step": i}); continue
                cl, code, red, parsed_at = req
                delivered.setdefault(code, []).append(i)
                minted_from.setdefault(code, set()).update(x for x in r[1:4] if x >= 0)
                if len(delivered[code]) > 1:
                    v.append({"cls": "redeemed-twice", "code": code, "steps": delivered[code]})
                if code in issued:
                    icl, ired, iat, lt = issued[code]
                    if cl != icl:
                        v.append({"cls": "wrong-client-redeemed", "step": i})
                    if ired is not None and red != ired:
                        v.append({"cls": "redirect-mismatch-redeemed", "step": i})
                    if lt and st["now"] > iat + lt:
                        v.append({"cls": "expired-code-redeemed", "step": i, "age": st["now"] - iat, "lifetime": lt})
                else:
                    v.append({"cls": "unknown-code-redeemed", "step": i})
        if v:
            break
    return v


def known_key(c, v, known):
    return common.known_key(c, v, known)


def classify(c, obs):
    nd = sum(1 for s in obs["steps"] if s["raw"][0] == "tokens")
    return f"{c['t']}:{'oidc' if c['oidc'] else 'oauth2'}:{'jwt' if c['jwt'] else 'opaque'}:deliveries={min(nd, 3)}"


def nontrivial(c, obs):
    codes = [o[2] for o in obs["ops"] if o[0] == "tokenParse"]
    return len(codes) != len(set(codes))


def corpus():
    R2 = "https://client_1.example.com/cb2"
    sso = []
    for oidc, jwt in ((True, False), (False, False), (True, True)):
        # the user returns with the session cookie and the client uses its OTHER redirect_uri: the new code is bound to that one
        sso.append({"t": "hist", "oidc": oidc, "jwt": jwt,
                    "ops": [["authorize", "diana", "client_1", ["openid", "email"], RED], ["authorize", "diana", "client_1", ["openid", "email"], R2, "sso"],
                            ["tokenParse", "client_1", 3, RED], ["tokenProcess", 0], ["tokenParse", "client_1", 3, R2], ["tokenProcess", 0],
                            ["tokenParse", "client_1", 1, R2], ["tokenProcess", 0], ["tokenParse", "client_1", 1, RED], ["tokenProcess", 0]]})
    return sso + _corpus0() + _corpus_nogrant()


def _corpus_nogrant():
    return [{"t": "hist", "oidc": oidc, "jwt": False, "usage": "nogrant",
             "ops": [["authorize", "diana", "client_1", ["openid"], RED], ["tick", 301], ["tokenParse", "client_1", 1, RED], ["tokenProcess", 0],
                     ["authorize", "diana", "client_1", ["openid"], RED], ["tick", 299], ["tokenParse", "client_1", 3, RED], ["tokenProcess", 0]]}
            for oidc in (True, False)]


def _rmit_cases(rng, tier):
    """session_params.remove_inactive_token: the housekeeping option must not change what a replayed code does to the tokens minted from it"""
    out = []
    for jwt in (False, True):
        out.append({"t": "hist", "oidc": True, "jwt": jwt, "runner": {"usage": "rmit"},
                    "ops": [["authorize", "diana", "client_1", ["openid", "offline_access"], RED], ["tokenParse", "client_1", 1, RED], ["tokenProcess", 0],
                            ["userinfo", 2], ["tokenParse", "client_1", 1, RED], ["userinfo", 2], ["introspect", "client_1", 2], ["introspect", "client_1", 3],
                            ["refresh", "client_1", 3, None], ["userinfo", 2]]})
        out.append({"t": "hist", "oidc": True, "jwt": jwt, "runner": {"usage": "rmit"},
                    "ops": [["authorize", "bob", "client_2", ["openid", "offline_access", "email"], "https://client_2.example.com/cb"],
                            ["tokenParse", "client_2", 1, "https://client_2.example.com/cb"], ["tokenProcess", 0], ["refresh", "client_2", 3, None],
                            ["tokenParse", "client_2", 1, "https://client_2.example.com/cb"], ["userinfo", 2], ["userinfo", 5], ["introspect", "client_2", 5], ["introspect", "client_2", 6]]})
    for _ in range({"quick": 6, "thorough": 60, "search": 40}[tier]):
        seed = rng.getrandbits(48)
        ops, _ = prov.gen_adaptive(random.Random(seed), rng.randint(8, 20), oidc=True, jwt=False, runner=prov.Runner(True, False, usage="rmit"),
                                   weights={"redeem": 30, "userinfo": 14, "introspect": 12})
        out.append({"t": "hist", "oidc": True, "jwt": False, "runner": {"usage": "rmit"}, "ops": ops})
    return out


def _corpus0():
    # F-C02-a: authz configuration without authorization_code.expires_in; the code handler's lifetime (600 s) must then bound the code
    return [{"t": "hist", "oidc": True, "jwt": False, "runner": {"usage": "no_code_expiry"}, "code_lifetime": 600,
             "ops": [["authorize", "diana", "client_1", ["openid"], RED], ["tick", 20000], ["tokenParse", "client_1", 1, RED], ["tokenProcess", 0]]}]
