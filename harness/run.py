#!/venv/bin/python
"""Entry point: ./check Cxx [--tier quick|thorough] [--replay file]

Pipeline (DESIGN.md 1.3): extract -> prove (lake build + audit [+ leanchecker]) -> replay corpus and
known-finding witnesses -> correspondence (real code vs Lean driver) -> oracle -> decide.
exit 0 = held on everything explored; 1 = VIOLATION line printed; 2 = harness problem/timeout.
"""
import argparse
import importlib
import json
import os
import random
import subprocess
import sys
import time
import traceback

sys.path.insert(0, os.path.dirname(os.path.abspath(__file__)))
import logging
logging.disable(logging.CRITICAL)
import common
from common import VERIF, LEAN


def write_replay(prop, payload):
    d = os.path.join(VERIF, "replays")
    os.makedirs(d, exist_ok=True)
    p = os.path.join(d, f"{prop}-{os.getpid()}-{int(time.time())}.json")
    json.dump(payload, open(p, "w"), indent=1, default=str)
    return p


def main():
    ap = argparse.ArgumentParser()
    ap.add_argument("prop")
    ap.add_argument("--tier", default=os.environ.get("VERIF_TIER", "quick"))
    ap.add_argument("--replay")
    a = ap.parse_args()
    prop, tier = a.prop.upper(), a.tier
    if tier not in ("quick", "thorough"):
        tier = "quick"
    t0 = time.perf_counter()
    mod = importlib.import_module(prop.lower())
    seed = common.seed()
    rng = random.Random(f"{prop}:{seed}")

    if a.replay:
        rp = json.load(open(a.replay))
        fails = []
        for c in rp.get("cases", []):
            obs = mod.impl(c)
            v = mod.oracle(c, obs)
            print(json.dumps({"case": c, "obs": obs, "oracle": v}, default=str)[:4000])
            fails += v
        print("REPLAY", "fails" if fails else "passes")
        return 1 if fails else 0

    # 1 extract
    ex = subprocess.run(["/venv/bin/python", os.path.join(VERIF, "tools", "extract.py")], capture_output=True, text=True)
    extract_ok = ex.returncode == 0
    if not extract_ok:
        print("extract failed:", ex.stderr[-2000:])

    # 2 prove
    lean_module = f"IdpyVerif.Props.{prop}"
    b = common.lake_build([lean_module, "idpydriver"])
    proof_ok = b.ok and extract_ok
    broken = []
    if not b.ok:
        # which target broke?
        b1 = common.lake_build([lean_module])
        b2 = common.lake_build(["idpydriver"])
        if not b1.ok:
            broken.append({"kind": "proof", "what": lean_module, "log": b1.log[-3000:]})
        if not b2.ok:
            broken.append({"kind": "driver-build", "what": "idpydriver (model does not compile against regenerated tables)", "log": b2.log[-3000:]})
        driver_ok = b2.ok
    else:
        driver_ok = True
    audit_ok, arep = (False, {"theorems": [], "axioms": {}})
    if b.ok or not any(x["kind"] == "proof" for x in broken):
        audit_ok, arep = common.audit(lean_module)
        if not audit_ok:
            broken.append({"kind": "audit", "what": lean_module, "report": arep})
            proof_ok = False
    checker = None
    if tier == "thorough" and proof_ok:
        ok, out = common.leanchecker(arep["modules"])
        checker = {"ok": ok, "tail": out[-400:]}
        if not ok:
            broken.append({"kind": "leanchecker", "what": lean_module, "log": out})
            proof_ok = False

    # 3 replay corpus + known findings
    known = common.known_for(prop)
    known_lines = []
    for f in known:
        try:
            obs = mod.impl(f["witness"])
            v = mod.oracle(f["witness"], obs)
        except Exception as e:
            v = [f"witness raised {type(e).__name__}: {e}"]
        if v:
            known_lines.append(f"KNOWN-FINDING: property={prop} {f['key']} {f['text']}")
        else:
            print(f"note: known finding {f['key']} no longer reproduces on its witness")
    for l in known_lines:
        print(l)

    # 4 correspondence + oracle
    stats = {"evaluations": 0, "nontrivial": set(), "kinds": {}, "samples": []}
    violations, disagreements = [], []

    def explore(cases, use_model):
        outs = None
        lines, spans = [], []
        observations = [mod.impl(c) for c in cases]
        if use_model:
            for c, obs in zip(cases, observations):
                ls = mod.model_lines(c, obs)
                spans.append((len(lines), len(lines) + len(ls)))
                lines += ls
            outs = common.run_driver(lines) if lines else []
        for i, c in enumerate(cases):
            obs = observations[i]
            stats["evaluations"] += 1
            kind = mod.classify(c, obs)
            stats["kinds"][kind] = stats["kinds"].get(kind, 0) + 1
            if mod.nontrivial(c, obs):
                stats["nontrivial"].add(common.h([c, obs]))
            if len(stats["samples"]) < 6 and (i % max(1, len(cases) // 6) == 0):
                stats["samples"].append({"case": c, "impl": obs})
            for v in mod.oracle(c, obs):
                fk = mod.known_key(c, v, known) if hasattr(mod, "known_key") else None
                if fk is None:
                    violations.append({"case": c, "obs": obs, "what": v})
            if use_model:
                s, e = spans[i]
                d = mod.compare(c, obs, outs[s:e])
                if d:
                    disagreements.append({"case": c, "impl": obs, "model": outs[s:e], "diff": d})

    try:
        corpus = mod.corpus() if hasattr(mod, "corpus") else []
        # witnesses of repaired defects stay as regression cases (a fixed entry suppresses nothing)
        corpus = [f["witness"] for f in common.load_findings() if f["property"] == prop and f["status"] == "fixed"] + corpus
        # inputs on which an earlier version of the code failed (harvested from the replays of seeded changes): they run first, on every run
        cp = os.path.join(VERIF, "corpus", prop + ".json")
        if os.path.exists(cp):
            corpus = corpus + [e["case"] for e in json.load(open(cp))]
        cases = corpus + mod.cases(rng, tier)
        explore(cases, driver_ok)
        if hasattr(mod, "extra_checks"):
            for v in mod.extra_checks(rng, tier, stats):
                violations.append(v)
    except Exception:
        traceback.print_exc()
        print(f"HARNESS-ERROR property={prop}")
        return 2

    # 5 decide
    rc = 0
    replay = None
    if violations:
        replay = write_replay(prop, {"property": prop, "seed": seed, "kind": "oracle", "cases": [v["case"] for v in violations[:5]],
                                     "violations": violations[:5]})
        print(f"VIOLATION property={prop} replay={replay}")
        rc = 1
    elif broken or disagreements:
        # search for a concrete failing input with the oracle only, bigger budget
        found = []
        try:
            neigh = []
            for d in disagreements[:50]:
                neigh += mod.neighbours(d["case"], rng) if hasattr(mod, "neighbours") else []
            save = (violations, disagreements)
            violations = []
            n0 = len(disagreements)
            explore(neigh, False)
            rng2 = random.Random(f"{prop}:{seed}:search")
            explore(mod.cases(rng2, "search"), False)
            found = violations
            disagreements = save[1][:n0]
        except Exception:
            traceback.print_exc()
        what = [x["what"] for x in broken] + ([f"correspondence {prop}: {len(disagreements)} disagreement(s) between Lean model and implementation"] if disagreements else [])
        payload = {"property": prop, "seed": seed, "no_longer_checks": what, "broken": broken, "disagreements": disagreements[:5]}
        if found:
            payload.update({"kind": "oracle", "cases": [v["case"] for v in found[:5]], "violations": found[:5]})
            replay = write_replay(prop, payload)
            print(f"VIOLATION property={prop} replay={replay}")
        else:
            payload.update({"kind": "no-failing-input-found", "cases": [d["case"] for d in disagreements[:5]]})
            replay = write_replay(prop, payload)
            print(f"VIOLATION property={prop} replay={replay} no-failing-input-found")
        rc = 1

    # evidence
    gen_obl = mod.generated_obligations() if hasattr(mod, "generated_obligations") else 0
    n_thm = len(arep.get("theorems", []))
    obligations = n_thm + arep.get("helper_theorems", 0) + gen_obl
    ev = {
        "property_id": prop, "tier": tier, "seed": seed, "level": "proof",
        "coverage": {
            "obligations": max(obligations, 1),
            "discharged": obligations if proof_ok else 0,
            "property_theorems": arep.get("theorems", []),
            "helper_lemmas": arep.get("helper_theorems", 0),
            "generated_table_obligations": gen_obl,
            "axioms": arep.get("axioms", {}),
            "checker_cmd": f"cd lean && lake build {lean_module} idpydriver && lake env lean Audit/<generated #print axioms>" + (" && lake env leanchecker <modules>" if tier == "thorough" else ""),
            "leanchecker": checker,
            "trusted_base": common.TRUSTED_BASE + getattr(mod, "TRUSTED_EXTRA", []),
            "evaluations": stats["evaluations"],
            "distinct_nontrivial": len(stats["nontrivial"]),
            "rule": getattr(mod, "RULE", ""),
            "samples": stats["samples"],
            "input_distribution": stats["kinds"],
            "disagreements_checked": stats["evaluations"] if driver_ok else 0,
            "disagreements": len(disagreements),
            "known_findings_reproduced": [l for l in known_lines],
            "exhaustive": False,
            "modelled_vs_verified": getattr(mod, "MODELLED", ""),
        },
        "assumptions": getattr(mod, "ASSUMPTIONS", []),
        "wall_s": round(time.perf_counter() - t0, 2),
        "violations": 1 if rc == 1 else 0,
    }
    if hasattr(mod, "evidence_extra"):
        ev["coverage"].update(mod.evidence_extra())
    os.makedirs(os.path.join(VERIF, "evidence"), exist_ok=True)
    json.dump(ev, open(os.path.join(VERIF, "evidence", f"{prop}.json"), "w"), indent=1, default=str)
    print(f"{prop} tier={tier} seed={seed} theorems={n_thm}+{arep.get('helper_theorems', 0)} proof_ok={proof_ok} cases={stats['evaluations']} nontrivial={len(stats['nontrivial'])} disagreements={len(disagreements)} violations={len(violations)} wall={ev['wall_s']}s rc={rc}")
    return rc


if __name__ == "__main__":
    sys.exit(main())
