"""Deep structural snapshots and alias graphs of Python object graphs (C20)."""
import importlib
import inspect
import pkgutil
import types

ATOMS = (str, bytes, int, float, bool, type(None))


def canon(v, depth=0, seen=None):
    """a canonical, comparable rendering of a value: containers structurally, objects by their attribute dict, callables/classes by name"""
    if seen is None:
        seen = set()
    if isinstance(v, ATOMS):
        return v if not isinstance(v, bytes) else "b:" + v.hex()
    if isinstance(v, type):
        return "class:" + v.__module__ + "." + v.__qualname__
    if isinstance(v, (types.FunctionType, types.BuiltinFunctionType, types.MethodType)):
        return "fn:" + getattr(v, "__qualname__", repr(v))
    if id(v) in seen or depth > 12:
        return "<cycle-or-deep:%s>" % type(v).__name__
    seen = seen | {id(v)}
    if isinstance(v, dict):
        return {"__dict__": sorted(([repr(k), canon(x, depth + 1, seen)] for k, x in v.items()), key=lambda e: e[0])}
    if isinstance(v, (list, tuple)):
        return {"__%s__" % type(v).__name__: [canon(x, depth + 1, seen) for x in v]}
    if isinstance(v, (set, frozenset)):
        return {"__set__": sorted(repr(canon(x, depth + 1, seen)) for x in v)}
    try:
        from idpyoidc.message import Message
        if isinstance(v, Message):
            return {"__msg__": type(v).__name__, "d": canon(v.to_dict(), depth + 1, seen)}
    except Exception:
        pass
    return "obj:" + type(v).__module__ + "." + type(v).__qualname__


def reachable_containers(roots, skip=lambda o: False, max_depth=14, follow=lambda o: False):
    """ids (with a path for reporting) of all dict / list / set objects reachable from the roots through containers, Messages and
    object attributes named in `follow_attrs`"""
    out = {}
    stack = [(r, p, 0) for p, r in roots]
    while stack:
        v, path, d = stack.pop()
        if isinstance(v, ATOMS) or isinstance(v, type) or callable(v) and not hasattr(v, "__dict__"):
            continue
        if d > max_depth or skip(v):
            continue
        if isinstance(v, (dict, list, set)):
            if id(v) in out:
                continue
            out[id(v)] = (path, v)
            items = v.items() if isinstance(v, dict) else enumerate(v) if isinstance(v, list) else ()
            for k, x in items:
                stack.append((x, f"{path}[{k!r}]", d + 1))
            continue
        if isinstance(v, tuple):
            for i, x in enumerate(v):
                stack.append((x, f"{path}[{i}]", d + 1))
            continue
        try:
            from idpyoidc.message import Message
            if isinstance(v, Message):
                if id(v._dict) not in out:
                    stack.append((v._dict, path + "._dict", d + 1))
                continue
        except Exception:
            pass
        if follow(v) and hasattr(v, "__dict__"):
            if id(v.__dict__) not in out:
                for k, x in vars(v).items():
                    stack.append((x, f"{path}.{k}", d + 1))
    return out


def message_tables():
    """every Message subclass's class-level tables (static schema)"""
    import idpyoidc
    from idpyoidc.message import Message
    for m in pkgutil.walk_packages(idpyoidc.__path__, "idpyoidc."):
        try:
            importlib.import_module(m.name)
        except Exception:
            pass
    roots = []
    seen = set()
    todo = [Message]
    while todo:
        c = todo.pop()
        if c in seen:
            continue
        seen.add(c)
        todo += c.__subclasses__()
        for t in ("c_param", "c_default", "c_allowed_values"):
            if t in c.__dict__:
                roots.append((f"{c.__module__}.{c.__qualname__}.{t}", c.__dict__[t]))
    roots.sort(key=lambda e: e[0])
    return roots


def module_constants():
    """module-level UPPER_CASE dict / list / set / tuple objects of the package"""
    import sys
    roots = []
    for name, mod in sorted(sys.modules.items()):
        if not name.startswith("idpyoidc") or mod is None:
            continue
        for k, v in sorted(vars(mod).items()):
            if k.isupper() and isinstance(v, (dict, list, set, tuple)) and getattr(sys.modules.get(getattr(v, "__module__", name), mod), k, v) is v:
                roots.append((f"{name}.{k}", v))
    return roots
