"""C14 — session database: codec correspondence, tree-operation histories, oracle."""
import json
import re
import common
from common import enc_str, enc_list, dec_list, dec_str
import opbase
from idpyoidc.server.util import lv_pack, lv_unpack
from idpyoidc.server.session.database import Database
from idpyoidc.server.session.grant import Grant, ExchangeGrant
from idpyoidc.server.session.info import NodeInfo, UserSessionInfo, ClientSessionInfo
from idpyoidc.server.constant import DIVIDER

RULE = ("cases: (a) lv_pack/lv_unpack and key join/split on hostile strings, (b) session ids: encrypt->decrypt of a path, "
        "(c) histories of create/exchange/revoke(level)/remove/delete(depth)/delete_sub_tree/flush over 2-4 users x 2-4 clients with "
        "plain and hostile identifiers; after every step the canonical db dump is compared with the Lean model. "
        "non-trivial: codec case whose text contains a separator/digit/colon/whitespace, or history with >=3 ops that changed the db")
MODELLED = ("modelled: lv_pack/lv_unpack, Database.branch_key/unpack_branch_key/set/delete/delete_sub_tree/flush, GrantManager._setup_branch/"
            "add_grant/add_exchange_grant/_revoke_tree/revoke_sub_tree/remove_branch; Fernet is idealised (decrypt(encrypt m)=rstrip(m))")
ASSUMPTIONS = ["uuid1 grant ids are fresh", "Python int() leniencies in a length prefix (sign, underscore, non-ASCII digits) are outside the model domain"]

_server = None
_mirror = None


def mirror_server():
    global _mirror
    if _mirror is None:
        _mirror = opbase.make_op()
    return _mirror


def server():
    global _server
    if _server is None:
        _server = opbase.make_op()
    return _server


def guard_ok(ident):
    """identifier guard of the theorems: no ';;', no trailing ';', no trailing whitespace, (non-empty for tree oracle)"""
    return ";;" not in ident and not ident.endswith(";") and ident == ident.rstrip() and ident != ""


def lv_domain(txt):
    """is raw text inside the model's domain of exactness? every length prefix met while scanning must be ASCII digits or clearly bad"""
    t = txt.strip()
    while t:
        if ":" not in t:
            return True
        l, v = t.split(":", 1)
        if not re.fullmatch(r"[0-9]+", l):
            # python int() may accept: only sure to raise if no digit-like char at all
            return not any(ch.isdigit() or ch in "+-_" or ch.isspace() for ch in l) or l == ""
        t = v[int(l):]
    return True


def cases(rng, tier):
    n = {"quick": 1, "thorough": 12, "search": 10}[tier]
    out = []
    for _ in range(400 * n):
        k = rng.randint(0, 4)
        xs = [common.rnd_ident(rng) if rng.random() < 0.5 else common.rnd_text(rng, 20, "019:;| \tabc") for _ in range(k)]
        out.append({"t": "lv", "xs": xs})
    for _ in range(300 * n):
        txt = common.rnd_text(rng, 16, "0123:ab ;")
        if rng.random() < 0.5:
            txt = lv_pack(*[common.rnd_text(rng, 5, "01:a ") for _ in range(rng.randint(0, 3))]) + rng.choice(["", " ", "x", "2:a", ":"])
        if lv_domain(txt):
            out.append({"t": "unpack", "txt": txt})
    for _ in range(400 * n):
        k = rng.randint(1, 4)
        out.append({"t": "key", "path": [common.rnd_text(rng, 6, "ab;; :1") if rng.random() < 0.6 else common.rnd_ident(rng) for _ in range(k)]})
    for _ in range(150 * n):
        # session ids handed out by create_session always end in a uuid1 grant id
        out.append({"t": "sid", "path": [common.rnd_ident(rng), common.rnd_ident(rng), "%032x" % rng.getrandbits(128)]})
    for _ in range(120 * n):
        hostile = rng.random() < 0.3
        pool_u = [common.rnd_ident(rng) for _ in range(2)] if hostile else []
        # sibling names in a prefix relation (diana/dianalena, c1/c10) exercise key-prefix confusions
        users = rng.sample(["diana", "dianalena", "bob", "u3", "d"], rng.randint(2, 4)) + pool_u
        clients = rng.sample(["c1", "c10", "c2", "https://rp.example/cb", "https://rp.example/cb2"], rng.randint(2, 4)) + ([common.rnd_ident(rng)] if hostile else [])
        ops, grants = [], []   # grants: (u, c, gi)
        for _ in range(rng.randint(3, 14 if tier == "quick" else 30)):
            r = rng.random()
            if r < 0.4 or not grants:
                u, c = rng.choice(users), rng.choice(clients)
                grants.append((u, c, len(grants)))
                ops.append(["create" if rng.random() < 0.8 else "exchange", u, c, len(grants) - 1])
            elif r < 0.55:
                u, c, g = rng.choice(grants)
                ops.append(["revoke", u, c, g, rng.choice([0, 1, 2, 2])])
            elif r < 0.7:
                u, c, g = rng.choice(grants)
                ops.append(["remove", u, c, g])
            elif r < 0.85:
                u, c, g = rng.choice(grants)
                d = rng.choice([1, 2, 3])
                ops.append(["delete", u, c, g, d])
            elif r < 0.95:
                u, c, g = rng.choice(grants)
                # delete_sub_tree is an internal helper that by design does not unlink the node from its
                # parent; only the root level is a removal operation in the property's sense
                ops.append(["deletesub", u, c, g, 1])
            else:
                ops.append(["flush"])
        # a second, LIVE session manager kept in step by export / import after every operation (a worker re-synchronised from the
        # other worker's dump): what it holds must be the exported tree, nothing more
        out.append({"t": "hist", "ops": ops, "mirror": rng.random() < 0.4})
    # the tree as the ENDPOINTS build it: logins (authorization + code redemption), token exchange by the owning or by another client
    # (which adds an exchange grant under that client), exchange of exchanged tokens, client-session revocation
    for _ in range(12 * n):
        ops, ntok = [], 0
        for _ in range(rng.randint(3, 9)):
            r = rng.random()
            if r < 0.35 or ntok == 0:
                ops.append(["login", rng.choice(EP_USERS), rng.choice(EP_CLIENTS)])
                ntok += 1
            elif r < 0.85:
                ops.append(["xchg", rng.randrange(ntok), rng.choice(EP_CLIENTS)])
                ntok += 1          # slot for the exchanged token (stays empty when the exchange is refused)
            else:
                ops.append(["logout", rng.choice(EP_USERS), rng.choice(EP_CLIENTS)])
        out.append({"t": "ephist", "ops": ops})
    return out


EP_USERS = ["diana", "bob"]
EP_CLIENTS = ["client_1", "client_2", "client_3"]


def corpus():
    return [{"t": "ephist", "ops": [["login", "diana", "client_1"], ["xchg", 0, "client_2"], ["xchg", 1, "client_2"], ["xchg", 1, "client_3"],
                                    ["login", "diana", "client_2"], ["logout", "diana", "client_2"], ["xchg", 0, "client_1"]]}]


def _ephist(c):
    """the session tree after every endpoint-level step + the model operations the step stands for"""
    import prov
    R = prov.Runner(oidc=True, jwt=False, usage="exchange")
    sm = R.sm
    toks = []          # slot -> (access token handle, user, client whose grant holds it) | None
    gids = {}          # real grant id (as it appears in a KEY) -> index
    steps, mops = [], []

    def canon(x):
        for real, i in gids.items():
            x = x.replace(real, f"g{i}")
        return x

    def dump():
        for k in sm.db.db:
            p = k.split(DIVIDER)
            if len(p) == 3 and p[2] not in gids:
                gids[p[2]] = len(gids)
        rows, extra = [], []
        seen = {}
        for k, nd in sm.db.db.items():
            if isinstance(nd, ExchangeGrant):
                kind, subs = "X", []
            elif isinstance(nd, Grant):
                kind, subs = "G", []
            elif isinstance(nd, UserSessionInfo):
                kind, subs = "U", list(nd.subordinate)
            elif isinstance(nd, ClientSessionInfo):
                kind, subs = "C", list(nd.subordinate)
            else:
                kind, subs = "?", list(getattr(nd, "subordinate", []))
            rows.append([canon(k), kind, 1 if nd.revoked else 0, [canon(x) for x in subs]])
            if isinstance(nd, Grant) and nd.id != k.split(DIVIDER)[-1]:
                extra.append(["node-id-differs-from-key", canon(k), canon(nd.id)])
            if id(nd) in seen:
                extra.append(["one-object-under-two-keys", seen[id(nd)], canon(k)])
            seen[id(nd)] = canon(k)
            if isinstance(nd, Grant):
                for t in nd.issued_token:
                    try:
                        info = sm.get_session_info_by_token(t.value, grant=True, handler_key=t.token_class if t.token_class in sm.token_handler.handler else None)
                        if DIVIDER.join([info["user_id"], info["client_id"], info["grant"].id]) != k or info["grant"] is not nd:
                            extra.append(["token-resolves-elsewhere", canon(k), t.token_class])
                    except Exception as e:
                        extra.append(["token-does-not-resolve", canon(k), t.token_class, type(e).__name__])
        return rows, extra

    for op in c["ops"]:
        k = op[0]
        mop = None
        try:
            if k == "login":
                u, cl = op[1], op[2]
                r = R.op(["authorize", u, cl, ["openid", "profile"], f"https://{cl}.example.com/cb"])
                tok = None
                if r[0] == "code":
                    ng = len(gids)
                    mop = ["create", u, cl, ng]
                    R.op(["tokenParse", cl, r[1], f"https://{cl}.example.com/cb"])
                    r2 = R.op(["tokenProcess", 0])
                    if r2[0] == "tokens" and r2[1] >= 0:
                        tok = (r2[1], u, cl)
                toks.append(tok)
            elif k == "xchg":
                src, cl = toks[op[1]], op[2]
                tok = None
                if src is not None:
                    r = R.op(["exchange", cl, src[0], "access", "access", None])
                    if r[0] == "exchanged" and r[1] >= 0:
                        if cl != src[2]:
                            mop = ["exchange", src[1], cl, len(gids)]
                        tok = (r[1], src[1], cl)
                toks.append(tok)
            elif k == "logout":
                u, cl = op[1], op[2]
                if DIVIDER.join([u, cl]) in sm.db.db:
                    sm.revoke_sub_tree(sm.encrypted_branch_id(u, cl, "none"), 1)
                    mop = ["revoke", u, cl, "none", 1]
            rows, extra = dump()
            steps.append({"r": "ok", "db": rows, "extra": extra, "mop": mop})
        except Exception as e:
            steps.append({"r": "exc", "cls": type(e).__name__, "mop": mop})
            break
    return {"steps": steps, "n": len(steps)}



class _H:
    """runs a history on a real SessionManager and records dumps"""

    def __init__(self):
        self.sm = server().context.session_manager
        self.sm.flush()
        self.gid = {}      # handle index -> real grant id
        self.seen = set()

    def canon(self, s):
        for i, real in self.gid.items():
            s = s.replace(real, f"g{i}")
        return s

    def dump(self):
        rows = []
        for k, n in self.sm.db.db.items():
            if isinstance(n, ExchangeGrant):
                kind, subs = "X", []
            elif isinstance(n, Grant):
                kind, subs = "G", []
            elif isinstance(n, UserSessionInfo):
                kind, subs = "U", list(n.subordinate)
            elif isinstance(n, ClientSessionInfo):
                kind, subs = "C", list(n.subordinate)
            else:
                kind, subs = "?", list(getattr(n, "subordinate", []))
            rows.append([self.canon(k), kind, 1 if n.revoked else 0, [self.canon(s) for s in subs]])
        return rows

    def path(self, u, c, g, depth=3):
        return [u, c, self.gid.get(g, f"missing{g}")][:depth]

    def do(self, op):
        sm = self.sm
        k = op[0]
        if k in ("create", "exchange"):
            before = {id(v) for v in sm.db.db.values()}
            if k == "create":
                sm.create_session(authn_event=None, auth_req={}, user_id=op[1], client_id=op[2])
            else:
                sm.add_exchange_grant(exchange_request=None, original_branch_id="x", path=[op[1], op[2]])
            new = [v for v in sm.db.db.values() if id(v) not in before and isinstance(v, Grant)]
            self.gid[op[3]] = new[0].id
        elif k == "revoke":
            sid = sm.encrypted_branch_id(*self.path(*op[1:4]))
            sm.revoke_sub_tree(sid, op[4])
        elif k == "remove":
            sm.remove_session(sm.encrypted_branch_id(*self.path(*op[1:4])))
        elif k == "delete":
            sm.delete(self.path(op[1], op[2], op[3], op[4]))
        elif k == "deletesub":
            sm.delete_sub_tree(DIVIDER.join(self.path(op[1], op[2], op[3], op[4])))
        elif k == "flush":
            sm.flush()


def impl(c):
    t = c["t"]
    if t == "lv":
        p = lv_pack(*c["xs"])
        try:
            u = lv_unpack(p)
        except Exception as e:
            u = "exc"
        return {"pack": p, "unpack": u}
    if t == "unpack":
        try:
            return {"unpack": lv_unpack(c["txt"])}
        except Exception:
            return {"unpack": "exc"}
    if t == "key":
        k = Database.branch_key(*c["path"])
        return {"join": k, "split": Database.unpack_branch_key(k)}
    if t == "sid":
        sm = server().context.session_manager
        sid = sm.encrypted_branch_id(*c["path"])
        try:
            return {"resolve": sm.decrypt_branch_id(sid)}
        except Exception:
            return {"resolve": "exc"}
    if t == "ephist":
        return _ephist(c)
    if t == "hist":
        hh = _H()
        steps = []
        m2 = None
        if c.get("mirror"):
            m2 = mirror_server().context.session_manager
            m2.flush()
        for op in c["ops"]:
            try:
                hh.do(op)
                steps.append({"r": "ok", "db": hh.dump()})
                if m2 is not None:
                    m2.load(hh.sm.dump())
                    sm1, hh.sm = hh.sm, m2
                    try:
                        steps[-1]["mirror"] = hh.dump()
                    finally:
                        hh.sm = sm1
            except Exception as e:
                steps.append({"r": "exc", "cls": type(e).__name__})
                break
        return {"steps": steps, "n": len(steps)}


RND = "r" * 32


def _mpath(op, depth=3):
    return [op[1], op[2], f"g{op[3]}"][:depth]


def model_lines(c, obs=None):
    t = c["t"]
    if t == "lv":
        return ["lv\tpack\t" + enc_list(c["xs"]), "lv\tunpack\t" + enc_str(lv_pack(*c["xs"]))]
    if t == "unpack":
        return ["lv\tunpack\t" + enc_str(c["txt"])]
    if t == "key":
        return ["lv\tjoin\t" + enc_list(c["path"]), "lv\tsplit\t" + enc_str(DIVIDER.join(c["path"]))]
    if t == "sid":
        return ["lv\tsid\t" + enc_str(RND) + "\t" + enc_list(c["path"])]
    if t == "ephist":
        return _ep_lines(obs)
    if t == "hist":
        ls = ["sdb\treset"]
        for op in c["ops"]:
            k = op[0]
            if k in ("create", "exchange"):
                ls.append(f"sdb\t{k}\t{enc_str(op[1])}\t{enc_str(op[2])}\t{enc_str('g%d' % op[3])}")
            elif k == "revoke":
                ls.append(f"sdb\trevokesid\t{enc_list(_mpath(op))}\t{op[4]}")
            elif k == "remove":
                ls.append(f"sdb\tremovesid\t{enc_list(_mpath(op))}")
            elif k == "delete":
                ls.append(f"sdb\tdelete\t{enc_list(_mpath(op, op[4]))}")
            elif k == "deletesub":
                ls.append(f"sdb\tdeletesub\t{enc_str(DIVIDER.join(_mpath(op, op[4])))}")
            elif k == "flush":
                ls.append("sdb\tflush")
        return ls


def _ep_lines(obs):
    ls = ["sdb\treset"]
    for st in obs["steps"]:
        m = st.get("mop")
        if m is None:
            continue
        if m[0] in ("create", "exchange"):
            ls.append(f"sdb\t{m[0]}\t{enc_str(m[1])}\t{enc_str(m[2])}\t{enc_str('g%d' % m[3])}")
        elif m[0] == "revoke":
            ls.append(f"sdb\trevokesid\t{enc_list([m[1], m[2], m[3]])}\t{m[4]}")
    return ls


def _parse_dump(s):
    rows = []
    if not s:
        return rows
    for ent in s.split(" "):
        k, kind, rev, subs = ent.split("|")
        rows.append([dec_str(k), kind, int(rev), dec_list(subs)])
    return rows


def compare(c, obs, outs):
    t = c["t"]
    if t == "lv":
        d = []
        if dec_str(outs[0]) != obs["pack"]:
            d.append("pack differs")
        m = "exc" if outs[1] == "exc" else dec_list(outs[1].split("\t", 1)[1] if "\t" in outs[1] else "")
        if m != obs["unpack"]:
            d.append(f"unpack differs: model={m!r}")
        return d
    if t == "unpack":
        m = "exc" if outs[0] == "exc" else dec_list(outs[0].split("\t", 1)[1] if "\t" in outs[0] else "")
        return [] if m == obs["unpack"] else [f"unpack differs: model={m!r}"]
    if t == "key":
        d = []
        if dec_str(outs[0]) != obs["join"]:
            d.append("join differs")
        if dec_list(outs[1]) != obs["split"]:
            d.append(f"split differs: model={dec_list(outs[1])!r}")
        return d
    if t == "sid":
        m = "exc" if outs[0] == "exc" else dec_list(outs[0].split("\t", 1)[1] if "\t" in outs[0] else "")
        return [] if m == obs["resolve"] else [f"sid resolve differs: model={m!r}"]
    if t == "ephist":
        d, j, last = [], 0, []
        for i, st in enumerate(obs["steps"]):
            if st["r"] != "ok":
                d.append(f"step {i}: the endpoints raised {st['cls']}")
                break
            if st.get("mop") is not None:
                j += 1
                o = outs[j]
                if not o.startswith("ok"):
                    d.append(f"step {i}: model {o}, impl ok")
                    break
                last = sorted(_parse_dump(o.split("\t", 1)[1] if "\t" in o else ""))
            if last != sorted(st["db"]):
                d.append(f"step {i} ({c['ops'][i][0]}): session tree differs: model={last!r} impl={sorted(st['db'])!r}")
                break
        return d
    if t == "hist":
        d = []
        for i, st in enumerate(obs["steps"]):
            o = outs[i + 1]
            if st["r"] == "exc":
                if o != "exc":
                    d.append(f"step {i}: impl raised {st['cls']}, model ok")
                break
            if o == "exc" or not o.startswith("ok"):
                d.append(f"step {i}: model {o}, impl ok")
                break
            m = _parse_dump(o.split("\t", 1)[1] if "\t" in o else "")
            if sorted(m) != sorted(st["db"]):
                d.append(f"step {i}: db differs: model={sorted(m)!r} impl={sorted(st['db'])!r}")
                break
        return d


def oracle(c, obs):
    """the property, stated directly on the real outcome"""
    t = c["t"]
    v = []
    # lv / unpack / key cases are codec lemmas: correspondence only, no property clause of their own
    if t == "sid":
        if obs["resolve"] != list(c["path"]):
            p = c["path"]
            cls = "sid-resolve"
            if any(";;" in x or x.endswith(";") for x in p[:-1]) or ";;" in p[-1]:
                cls = "sid-separator"
            elif p[-1] != p[-1].rstrip():
                cls = "sid-trailing-ws"
            v.append({"cls": cls})
    if t == "ephist":
        for i, st in enumerate(obs["steps"]):
            if st["r"] != "ok":
                break
            for e in st["extra"]:
                v.append({"cls": e[0], "step": i, "op": c["ops"][i][0]})
            db = {r[0]: r for r in st["db"]}
            for k, r in db.items():
                path = k.split(DIVIDER)
                if len(path) > 1:
                    par = DIVIDER.join(path[:-1])
                    if par not in db:
                        v.append({"cls": "orphan", "step": i, "key": k, "op": c["ops"][i][0]})
                    elif k not in db[par][3]:
                        v.append({"cls": "unlinked", "step": i, "key": k})
                for s in r[3]:
                    if s not in db:
                        v.append({"cls": "dangling-subordinate", "step": i, "key": k, "sub": s, "op": c["ops"][i][0]})
            if v:
                break
        return v
    if t == "hist":
        for i, st in enumerate(obs["steps"]):
            if "mirror" in st and sorted(map(json.dumps, st["mirror"])) != sorted(map(json.dumps, st["db"])):
                a, b = {r[0] for r in st["db"]}, {r[0] for r in st["mirror"]}
                v.append({"cls": "imported-tree-differs", "step": i, "op": c["ops"][i][0], "only_in_import": sorted(b - a)[:3], "missing_in_import": sorted(a - b)[:3]})
                return v
        idents = set()
        for op in c["ops"]:
            if len(op) > 2:
                idents.update([op[1], op[2]])
        if not all(guard_ok(x) for x in idents):
            return v   # hostile identifiers: covered by the sid/key clauses and by correspondence
        prev = None
        for i, st in enumerate(obs["steps"]):
            if st["r"] != "ok":
                break
            db = {r[0]: r for r in st["db"]}
            for k, r in db.items():
                path = k.split(DIVIDER)
                if len(path) > 1:
                    par = DIVIDER.join(path[:-1])
                    if par not in db:
                        v.append({"cls": "orphan", "step": i, "key": k, "op": c["ops"][i][0], "depth": c["ops"][i][4] if c["ops"][i][0] in ("delete", "deletesub") else None})
                    elif k not in db[par][3]:
                        v.append({"cls": "unlinked", "step": i, "key": k})
                for s in r[3]:
                    if s not in db:
                        v.append({"cls": "dangling-subordinate", "step": i, "key": k, "sub": s,
                                  "op": c["ops"][i][0], "depth": c["ops"][i][4] if c["ops"][i][0] in ("delete", "deletesub") else None})
            # locality: an op on user u leaves every key not under u unchanged
            op = c["ops"][i]
            if prev is not None and op[0] != "flush":
                u = op[1]
                for k, r in prev.items():
                    if not (k == u or k.startswith(u + DIVIDER)):
                        if db.get(k) != r:
                            v.append({"cls": "non-local", "step": i, "key": k})
            prev = db
            if v:
                break
    return v


def known_key(c, v, known):
    return common.known_key(c, v, known)


def classify(c, obs):
    if c["t"] == "ephist":
        return "ephist:" + ("x" if any(st.get("mop") and st["mop"][0] == "exchange" for st in obs["steps"]) else "plain")
    if c["t"] == "hist":
        return "hist:" + ("exc" if obs["steps"] and obs["steps"][-1]["r"] == "exc" else "ok")
    return c["t"]


def nontrivial(c, obs):
    if c["t"] in ("hist", "ephist"):
        return len(obs["steps"]) >= 3
    s = " ".join(c.get("xs", []) + c.get("path", []) + [c.get("txt", "")])
    return any(ch in s for ch in ";:| \t0123456789")
