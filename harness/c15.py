"""C15 — PKCE binds the code to the party that started the flow."""
import base64
import hashlib
import os
import common
from common import enc_str, enc_list, dec_str
import opbase
from idpyoidc.message.oidc import AuthorizationRequest

RULE = ("cases: (flow) authorization request with / without code_challenge, method present / absent / unknown, then a token request with the "
        "right verifier, a near-miss (one character, case, '=' padding, trailing newline), none, a non-ASCII one, lengths 0..200; provider "
        "configurations essential on/off x per-client pkce_essential true/false/absent x configured method subsets; both legs through the real "
        "authorization and token endpoints. (rp) challenge/verifier pairs produced by the real client add-on for every client method, "
        "offered to the provider. The hash values are computed by the harness with hashlib (independent of both add-ons). "
        "non-trivial: challenge present and verifier differs from the right one, or essential/override/method combination not the default")
MODELLED = "modelled: server post_authn_parse, verify_code_challenge, post_token_parse; client add_code_challenge/add_code_verifier (transform agreement); NOT modelled: SHA-2/base64 (parameter H)"
ASSUMPTIONS = ["the code resolves to its grant (C04) and the token helper behaves as in C02 once PKCE passes"]

SRV = {}
HASH = {"S256": hashlib.sha256, "S384": hashlib.sha384, "S512": hashlib.sha512}
METHOD_SETS = {"all": None, "s256": ["S256"], "plain_s256": ["plain", "S256"], "s384_512": ["S384", "S512"]}
RED = "https://client_1.example.com/cb"


def hval(m, v):
    if m == "plain":
        return v
    if m not in HASH:
        return "?"
    try:
        return base64.urlsafe_b64encode(HASH[m](v.encode("ascii")).digest()).decode().rstrip("=")
    except UnicodeEncodeError:
        return "?"


def server(essential, mset):
    k = (essential, mset)
    if k not in SRV:
        kw = {"essential": essential}
        if METHOD_SETS[mset] is not None:
            from idpyoidc.server.oauth2.add_on.pkce import CC_METHOD
            kw["code_challenge_methods"] = {m: CC_METHOD[m] for m in METHOD_SETS[mset]}
        s = opbase.make_op(extra={"add_on": {"pkce": {"function": "idpyoidc.server.oauth2.add_on.pkce.add_support", "kwargs": kw}}})
        ctx = s.context
        ctx.cdb["cl_ess"] = dict(ctx.cdb["client_1"], client_id="cl_ess", pkce_essential=True)
        ctx.cdb["cl_noess"] = dict(ctx.cdb["client_1"], client_id="cl_noess", pkce_essential=False)
        for c in ("cl_ess", "cl_noess"):
            ctx.cdb[c]["redirect_uris"] = [(RED, None)]
            ctx.keyjar.add_symmetric(c, ctx.cdb[c]["client_secret"])
        SRV[k] = s
    return SRV[k]


UNRES = "abcdefghijklmnopqrstuvwxyzABCDEFGHIJKLMNOPQRSTUVWXYZ0123456789-._~"


def cases(rng, tier):
    n = {"quick": 1, "thorough": 12, "search": 8}[tier]
    out = []
    for _ in range(260 * n):
        m = rng.choice(["plain", "S256", "S256", "S384", "S512", None, "S1", "s256"])
        ln = rng.choice([0, 1, 42, 43, 64, 128, 129, 200])
        v = "".join(rng.choice(UNRES if rng.random() < 0.9 else UNRES + " +/=é") for _ in range(ln))
        has_ch = rng.random() < 0.8
        tv = rng.choice(["right", "right", "flip", "case", "pad", "nl", "none", "nonascii", "trunc", "other_method"])
        out.append({"t": "flow", "essential": rng.random() < 0.5, "mset": rng.choice(list(METHOD_SETS)), "client": rng.choice(["client_1", "cl_ess", "cl_noess"]),
                    "method": m, "challenge_method": m or "plain", "verifier": v, "has_challenge": has_ch, "tv": tv,
                    # the challenge as the authorization request carries it: the transform, or an altered / padded / re-encoded one
                    "chmut": rng.choice([None, None, None, "pad", "pad2", "trunc", "flip", "b64std", "space", "veq"]),
                    "replay": rng.choice([None, "right", "wrong", "none"]),
                    "via": rng.choice(["query", "query", "request", "request_uri"])})
    # two flows of ONE user agent that overlap: request A, then — before code A is redeemed — request B with the provider's session
    # cookie (same client; same or different scope / redirect URI; its own challenge, or none), then both codes with every verifier
    for _ in range(16 * n):
        out.append({"t": "sso2", "essential": False, "mset": "all", "client": rng.choice(["client_1", "cl_noess"]),
                    "mA": rng.choice(["S256", "plain", "S512"]), "mB": rng.choice(["S256", "plain", None]), "b_has": rng.random() < 0.7,
                    "same_scope": rng.random() < 0.7, "cookie": rng.random() < 0.85, "vA": "".join(rng.choice(UNRES) for _ in range(50)),
                    "vB": "".join(rng.choice(UNRES) for _ in range(50))})
    # an INTERACTIVE provider: the request is suspended for the login page and resumed from what the page's signed token carries
    # (UserPassJinja2: verify / unpack_token / create_session / authz_part2 — the way the example applications resume a flow)
    for _ in range(14 * n):
        m = rng.choice(["S256", "S256", "plain", "S512", None])
        out.append({"t": "ilogin", "essential": rng.random() < 0.5, "mset": "all", "client": "client_1", "method": m, "has_challenge": rng.random() < 0.85,
                    "verifier": "".join(rng.choice(UNRES) for _ in range(rng.choice([43, 64, 128]))),
                    "tv": rng.choice(["right", "right", "flip", "none", "trunc", "case"])})
    for _ in range(40 * n):
        out.append({"t": "rp", "method": rng.choice(["S256", "S384", "S512"]), "len": rng.choice([43, 64, 128]), "mset": rng.choice(["all", "s256", "s384_512"]),
                    "essential": rng.random() < 0.5})
    return out


def _token_verifier(c):
    v, tv = c["verifier"], c["tv"]
    if tv == "right":
        return v
    if tv == "flip":
        return (("A" if v[:1] != "A" else "B") + v[1:]) if v else "A"
    if tv == "case":
        return v.swapcase()
    if tv == "pad":
        return v + "="
    if tv == "nl":
        return v + "\n"
    if tv == "none":
        return None
    if tv == "nonascii":
        return v + "é"
    if tv == "trunc":
        return v[:-1]
    if tv == "other_method":
        return hval("S256", v)     # offering the challenge itself as verifier
    return v


class _Fetched:
    def __init__(self, text):
        self.status_code, self.status, self.text, self.headers = 200, 200, text, {"content-type": "application/jwt"}


def _run(s, client, challenge, method, verifier, replay=None, via="query"):
    """via: how the authorization request travels — plain parameters, or inside a signed request object passed by value / by reference
    (the provider fetches it): the PKCE values are then inside the object only"""
    az, tk = s.get_endpoint("authorization"), s.get_endpoint("token")
    args = dict(client_id=client, redirect_uri=RED, scope=["openid"], state="st", response_type="code", nonce="n")
    if challenge is not None:
        args["code_challenge"] = challenge
    if method is not None:
        args["code_challenge_method"] = method
    o = {}
    if via != "query":
        from cryptojwt.jwt import JWT
        from cryptojwt.key_jar import KeyJar
        kj = KeyJar()
        kj.add_symmetric(client, s.context.cdb[client]["client_secret"])
        ro = JWT(key_jar=kj, iss=client, sign_alg="HS256", lifetime=300).pack(dict(args), aud=s.context.issuer)
        args = dict(client_id=client, response_type="code", scope=["openid"], redirect_uri=RED)
        if via == "request":
            args["request"] = ro
        else:
            uri = "https://%s.example.com/request_objects/1" % client.replace("_", "-")
            args["request_uri"] = uri
            s.context.httpc = lambda method, url, **kw: _Fetched(ro) if url == uri else _Fetched("")
    try:
        pr = az.parse_request(AuthorizationRequest(**args).to_dict())
    except Exception as e:
        return {"authz": "exc", "e": type(e).__name__}
    if "error" in pr:
        return {"authz": "error"}
    out = az.process_request(pr)
    code = out.get("response_args", {}).get("code")
    if not code:
        return {"authz": "error"}
    o["authz"] = "ok"
    g = s.context.session_manager.get_session_info_by_token(code, grant=True, handler_key="authorization_code")["grant"]
    ar = g.authorization_request
    o["stored"] = [ar.get("code_challenge"), ar.get("code_challenge_method")] if "code_challenge" in ar else None
    req = dict(client_id=client, client_secret=s.context.cdb[client]["client_secret"], redirect_uri=RED, grant_type="authorization_code", code=code)
    if verifier is not None:
        req["code_verifier"] = verifier
    try:
        tp = tk.parse_request(req)
        if "error" in tp:
            o["token"] = "error"
        else:
            r = tk.process_request(tp)
            o["token"] = "tokens" if "response_args" in r and "access_token" in r["response_args"] else "error"
            if o["token"] == "tokens" and replay is not None:
                # the used code is presented again (with the right, a wrong or no verifier): whatever the PKCE outcome of the replay, the OIDC
                # token endpoint must invalidate what was minted from the code the first time
                at = r["response_args"]["access_token"]
                rq = dict(req)
                rq.pop("code_verifier", None)
                if replay == "right" and verifier is not None:
                    rq["code_verifier"] = verifier
                elif replay == "wrong":
                    rq["code_verifier"] = "B" * 43
                try:
                    rp_ = tk.parse_request(rq)
                    o["replay"] = "refused" if "error" in rp_ else "parsed"
                except Exception:
                    o["replay"] = "refused"
                it = s.get_endpoint("introspection")
                ir = it.process_request(it.parse_request({"token": at, "client_id": client, "client_secret": s.context.cdb[client]["client_secret"]}))
                o["first_token_active_after_replay"] = bool(ir["response_args"].get("active"))
    except Exception as e:
        o["token"] = "exc"
    return o


def _sso2(s, c):
    az, tk = s.get_endpoint("authorization"), s.get_endpoint("token")
    client = c["client"]
    legs = {}
    cookie = None
    for leg, (m, ver, has, scope) in (("A", (c["mA"], c["vA"], True, ["openid"])),
                                      ("B", (c["mB"], c["vB"], c["b_has"], ["openid"] if c["same_scope"] else ["openid", "email"]))):
        args = dict(client_id=client, redirect_uri=RED, scope=scope, state="st-" + leg, response_type="code", nonce="n-" + leg)
        ch = hval(m or "plain", ver) if has else None
        if ch is not None:
            args["code_challenge"] = ch
            if m is not None:
                args["code_challenge_method"] = m
        hi = {"cookie": cookie} if (cookie and c["cookie"]) else None
        try:
            pr = az.parse_request(AuthorizationRequest(**args).to_dict(), http_info=hi)
            out = az.process_request(pr, http_info=hi) if "error" not in pr else pr
        except Exception as e:
            out = {"error": type(e).__name__}
        code = out.get("response_args", {}).get("code") if isinstance(out, dict) and "response_args" in out else None
        if isinstance(out, dict) and out.get("cookie"):
            cookie = out["cookie"]
        legs[leg] = {"code": code, "challenge": ch, "method": m, "ver": ver}
    # each code with each verifier; the RIGHT one last (a code is single use)
    tries = []
    for leg, order in (("A", ["B", "none", "A"]), ("B", ["A", "none", "B"])):
        L = legs[leg]
        if not L["code"]:
            continue
        for who in order:
            ver = None if who == "none" else legs[who]["ver"]
            req = dict(client_id=client, client_secret=s.context.cdb[client]["client_secret"], redirect_uri=RED, grant_type="authorization_code", code=L["code"])
            if ver is not None:
                req["code_verifier"] = ver
            try:
                tp = tk.parse_request(req)
                if "error" in tp:
                    r = "error"
                else:
                    rr = tk.process_request(tp)
                    r = "tokens" if "response_args" in rr and "access_token" in rr["response_args"] else "error"
            except Exception:
                r = "exc"
            tries.append([leg, who, ver, r])
            if r == "tokens":
                break
    return {"authz": "ok", "legs": legs, "tries": tries}


_ISRV = {}


def iserver(essential):
    """provider with the PKCE add-on and a user-name / password login page"""
    if essential not in _ISRV:
        import os, json as _json, re
        from idpyoidc.server.user_authn.user import UserPassJinja2
        from idpyoidc.server.util import JSONDictDB
        from idpyoidc.server.user_authn.authn_context import INTERNETPROTOCOLPASSWORD
        tdir = os.path.join(opbase.BASEDIR, "template")
        os.makedirs(tdir, exist_ok=True)
        open(os.path.join(tdir, "user_pass.jinja2"), "w").write(
            '<form action="{{ action }}" method="post"><input type="hidden" name="token" value="{{ token }}">'
            '<input name="username"><input type="password" name="password"></form>')
        pw = os.path.join(opbase.BASEDIR, "passwd_c15.json")
        _json.dump({"diana": "krall"}, open(pw, "w"))
        sv = opbase.make_op(extra={
            "authentication": {"user": {"acr": INTERNETPROTOCOLPASSWORD, "class": UserPassJinja2,
                                        "kwargs": {"template": "user_pass.jinja2", "verify_endpoint": "verify/user",
                                                   "db": {"class": JSONDictDB, "kwargs": {"filename": pw}}}}},
            "template_dir": tdir,
            "add_on": {"pkce": {"function": "idpyoidc.server.oauth2.add_on.pkce.add_support", "kwargs": {"essential": essential}}}})
        sv.context.cdb["client_1"]["redirect_uris"] = [(RED, None)]
        _ISRV[essential] = sv
    return _ISRV[essential]


def _ilogin(c):
    import re
    sv = iserver(c["essential"])
    az, tk = sv.get_endpoint("authorization"), sv.get_endpoint("token")
    ch = hval(c["method"] or "plain", c["verifier"]) if c["has_challenge"] else None
    args = dict(client_id="client_1", redirect_uri=RED, scope=["openid"], state="st-i", response_type="code", nonce="n-i")
    if ch is not None:
        args["code_challenge"] = ch
        if c["method"] is not None:
            args["code_challenge_method"] = c["method"]
    o = {"challenge": ch}
    try:
        pr = az.parse_request(AuthorizationRequest(**args).to_urlencoded())
        if "error" in pr:
            return dict(o, authz="error")
        resp = az.process_request(pr, http_info={})
        page = resp.get("http_response") if isinstance(resp, dict) else None
        mt = re.search(r'name="token" value="([^"]+)"', page or "")
        if not mt:
            return dict(o, authz="error", how="no-login-page")
        method = sv.context.authn_broker.get_method_by_id("user")
        username = method.verify(username="diana", password="krall", token=mt.group(1))
        aa = method.unpack_token(mt.group(1))
        areq = AuthorizationRequest().from_urlencoded(aa["query"])
        sid = az.create_session(areq, username, aa["authn_class_ref"], aa["iat"], method)
        out = az.authz_part2(request=areq, session_id=sid)
        code = out["response_args"]["code"]
    except Exception as e:
        return dict(o, authz="exc", e=type(e).__name__)
    o["authz"] = "ok"
    ver = _token_verifier(c) or None
    req = dict(client_id="client_1", client_secret=sv.context.cdb["client_1"]["client_secret"], redirect_uri=RED, grant_type="authorization_code", code=code)
    if ver is not None:
        req["code_verifier"] = ver
    try:
        tp = tk.parse_request(req)
        if "error" in tp:
            o["token"] = "error"
        else:
            r = tk.process_request(tp)
            o["token"] = "tokens" if "response_args" in r and "access_token" in r["response_args"] else "error"
    except Exception:
        o["token"] = "exc"
    return o


def impl(c):
    if c["t"] == "ilogin":
        return _ilogin(c)
    s = server(c["essential"], c["mset"])
    if c["t"] == "sso2":
        return _sso2(s, c)
    if c["t"] == "flow":
        ver0 = c["verifier"] + "=" if c.get("chmut") == "veq" else c["verifier"]       # "veq": plain-style verifier that itself ends in '='
        ch = hval(c["challenge_method"], ver0) if c["has_challenge"] else None
        if ch == "?":
            ch = "unknown-method-challenge"
        cm = c.get("chmut")
        if ch and cm:
            ch = {"pad": ch + "=", "pad2": ch + "==", "trunc": ch[:-1], "flip": ("A" if ch[:1] != "A" else "B") + ch[1:],
                  "b64std": ch.replace("-", "+").replace("_", "/"), "space": ch + " ", "veq": ch}[cm]
        ch = ch or None            # a blank parameter is not part of a message at all
        o = _run(s, c["client"], ch, c["method"], _token_verifier(c) or None, replay=c.get("replay"), via=c.get("via", "query"))
        o["challenge"] = ch
        return o
    # relying-party add-on produces the pair
    from idpyoidc.client.defaults import DEFAULT_OAUTH2_SERVICES
    from idpyoidc.client.entity import Entity
    from idpyoidc.client.oauth2.add_on import do_add_ons
    from idpyoidc.client.oauth2.add_on.pkce import add_code_challenge, add_code_verifier
    config = {"client_id": "client_1", "client_secret": "x" * 32, "redirect_uris": [RED],
              "add_ons": {"pkce": {"function": "idpyoidc.client.oauth2.add_on.pkce.add_support",
                                   "kwargs": {"code_challenge_length": c["len"], "code_challenge_method": c["method"]}}}}
    ent = Entity(config=config, services=DEFAULT_OAUTH2_SERVICES, client_type="oauth2")
    do_add_ons(config["add_ons"], ent.get_services())
    svc = ent.get_service("authorization")
    st = ent.get_context().cstate.create_state(iss="Issuer")
    ra, _ = add_code_challenge({"state": st}, svc)
    ver = add_code_verifier({}, svc, state=st)["code_verifier"]
    o = _run(s, "client_1", ra["code_challenge"], ra["code_challenge_method"], ver)
    o.update({"challenge": ra["code_challenge"], "verifier": ver, "rp_method": ra["code_challenge_method"]})
    return o


def _opt(x):
    return "none" if x is None else "some:" + enc_str(x)


def _methods(mset):
    return METHOD_SETS[mset] if METHOD_SETS[mset] is not None else ["plain", "S256", "S384", "S512"]


def model_lines(c, obs):
    if c["t"] == "ilogin":
        # the model's two legs on what the REQUEST carried (the grant must still hold it after the login page)
        ch, meth, ver = obs.get("challenge"), c["method"], _token_verifier(c) or None
        lines = ["\t".join(["pkce", "authz", enc_list(_methods("all")), "1" if c["essential"] else "0", "none", _opt(ch), _opt(meth)])]
        if obs.get("authz") == "ok":
            m = meth or "plain"
            hv = hval(m, ver) if (ch is not None and ver is not None) else "?"
            lines.append("\t".join(["pkce", "token", "1" if ch is not None else "0", enc_str(ch) if ch is not None else "-", enc_str(m) if ch is not None else "-", _opt(ver), enc_str(hv)]))
        return lines
    if c["t"] == "sso2":
        # every redemption attempt against the challenge THIS code's request carried (what was sent, not what the grant holds now)
        lines = []
        for leg, who, ver, r in obs["tries"]:
            L = obs["legs"][leg]
            m = L["method"] or "plain"
            has = L["challenge"] is not None
            hv = hval(m, ver) if (has and ver is not None) else "?"
            lines.append("\t".join(["pkce", "token", "1" if has else "0", enc_str(L["challenge"]) if has else "-", enc_str(m) if has else "-", _opt(ver), enc_str(hv)]))
        return lines
    ovr = {"client_1": "none", "cl_ess": "1", "cl_noess": "0"}[c.get("client", "client_1")]
    if c["t"] == "flow":
        ch, meth, ver = obs.get("challenge"), c["method"], _token_verifier(c) or None
    else:
        ch, meth, ver = obs["challenge"], obs["rp_method"], obs["verifier"]
    lines = ["\t".join(["pkce", "authz", enc_list(_methods(c["mset"])), "1" if c["essential"] else "0", ovr, _opt(ch), _opt(meth)])]
    if obs.get("authz") == "ok":
        st = obs["stored"]
        hv = hval(st[1], ver) if (st and ver is not None) else "?"
        lines.append("\t".join(["pkce", "token", "1" if st else "0", enc_str(st[0]) if st else "-", enc_str(st[1]) if st else "-", _opt(ver), enc_str(hv)]))
    return lines


def compare(c, obs, outs):
    if c["t"] == "ilogin":
        a = outs[0].split("\t")
        if a[0] == "error":
            return [] if obs["authz"] != "ok" else ["interactive login: model refuses the authorization request, implementation issues a code"]
        if obs["authz"] != "ok":
            return [f"interactive login: model=ok impl={obs}"]
        want = {"pass": "tokens", "error": "error", "exc": "exc"}[outs[1]]
        return [] if want == obs["token"] else [f"interactive login, token leg: model={outs[1]} impl={obs['token']} (case {c})"]
    if c["t"] == "sso2":
        d = []
        for (leg, who, ver, r), t in zip(obs["tries"], outs):
            want = {"pass": "tokens", "error": "error", "exc": "exc"}[t]
            if want != r and not (want == "tokens" and r == "error" and who != leg):
                d.append(f"overlapping flows, code {leg} with verifier of {who}: model={t} impl={r}")
        return d
    d = []
    a = outs[0].split("\t")
    if a[0] == "error":
        if obs["authz"] == "ok":
            d.append(f"authz: model=error impl=ok")
        return d
    if obs["authz"] != "ok":
        return [f"authz: model=ok impl={obs}"]
    mst = None if a[1] == "none" else [dec_str(a[1]), dec_str(a[2])]
    if mst != obs["stored"]:
        d.append(f"stored challenge/method: model={mst} impl={obs['stored']}")
    t = outs[1]
    want = {"pass": "tokens", "error": "error", "exc": "exc"}[t]
    if want != obs["token"]:
        d.append(f"token leg: model={t} impl={obs['token']} (case {c})")
    return d


def oracle(c, obs):
    v = []
    if c["t"] == "ilogin":
        if obs.get("authz") == "ok":
            if c["essential"] and obs["challenge"] is None:
                v.append({"cls": "essential-not-enforced", "flow": "interactive"})
            if obs.get("token") == "tokens" and obs["challenge"] is not None:
                ver = _token_verifier(c) or None
                if ver is None or hval(c["method"] or "plain", ver) != obs["challenge"]:
                    v.append({"cls": "wrong-verifier-accepted", "tv": c["tv"], "method": c["method"] or "plain", "flow": "interactive"})
            if obs.get("token") != "tokens" and c["tv"] == "right" and obs["challenge"] is not None:
                v.append({"cls": "right-verifier-refused", "flow": "interactive"})
        return v
    if c["t"] == "sso2":
        for leg, who, ver, r in obs["tries"]:
            L = obs["legs"][leg]
            if r == "tokens" and L["challenge"] is not None and (ver is None or hval(L["method"] or "plain", ver) != L["challenge"]):
                v.append({"cls": "wrong-verifier-accepted", "flows": "overlapping", "code_of": leg, "verifier_of": who})
            if r != "tokens" and who == leg and L["code"]:
                v.append({"cls": "right-verifier-refused", "flows": "overlapping", "code_of": leg})
        return v
    methods = _methods(c["mset"])
    if c["t"] == "rp":
        if c["method"] in methods and obs.get("token") != "tokens":
            v.append({"cls": "rp-pair-refused", "method": c["method"]})
        return v
    essential = {"client_1": c["essential"], "cl_ess": True, "cl_noess": False}[c["client"]]
    has_ch = obs.get("challenge") is not None
    if obs["authz"] == "ok":
        if essential and not has_ch:
            v.append({"cls": "essential-not-enforced"})
        if has_ch and (c["method"] or "plain") not in methods:
            v.append({"cls": "unsupported-method-accepted", "method": c["method"]})
        if obs.get("first_token_active_after_replay"):
            v.append({"cls": "replay-does-not-revoke", "replay_verifier": c.get("replay"), "replay_outcome": obs.get("replay")})
        if obs.get("token") == "tokens" and has_ch:
            ver = _token_verifier(c) or None
            rec = c["method"] or "plain"
            if ver is None or hval(rec, ver) != obs["challenge"]:
                v.append({"cls": "wrong-verifier-accepted", "tv": c["tv"], "method": rec})
    return v


def known_key(c, v, known):
    return common.known_key(c, v, known)


def classify(c, obs):
    if c["t"] == "ilogin":
        return f"ilogin:{obs.get('authz')}:{obs.get('token')}"
    if c["t"] == "sso2":
        return "sso2:" + ("cookie" if c["cookie"] else "no-cookie") + ":" + ("same" if c["same_scope"] else "other-scope")
    return f"{c['t']}:{c.get('via', '-')}:{obs['authz']}:{obs.get('token')}"


def nontrivial(c, obs):
    return c["t"] in ("rp", "sso2", "ilogin") or (c["has_challenge"] and c["tv"] != "right") or c["client"] != "client_1" or c["mset"] != "all"


def generated_obligations():
    return 3
