"""This library's relying party against this library's provider, in one process (C12, C20, C13 RP side).

The RP's HTTP client is a bridge that hands the request to the provider's endpoint objects; the harness plays the browser between
`init_authorization` and `finalize`."""
import html
import json
import os
import re
from urllib.parse import urlsplit, parse_qs
import opbase
from idpyoidc.client.oauth2.stand_alone_client import StandAloneClient

ISSUER = "https://example.com/"
RP_BASE = "https://rp.example.org"


class Resp:
    def __init__(self, status, text, headers=None):
        self.status_code = status
        self.text = text
        self.headers = headers or {"content-type": "application/json"}
        self.url = ""


def make_bridge(server, log, files=None):
    """httpc(method, url, data=None, headers=None, **kw) -> response object, served by the provider's endpoints"""
    def httpc(method, url, data=None, headers=None, **kw):
        base = url.split("?")[0]
        if files is not None and base in files:
            return Resp(200, files[base], {"content-type": "application/jwt"})
        ep = None
        for e in server.endpoint.values():
            if e.full_path and e.full_path == base:
                ep = e
                break
        if base.rstrip("/").endswith("jwks.json"):
            return Resp(200, json.dumps(server.keyjar.export_jwks()), {"content-type": "application/json"})
        if ep is None:
            log.append([method, "404", base])
            return Resp(404, "{}")
        log.append([method, ep.name])
        http_info = {"headers": {k.lower(): v for k, v in (headers or {}).items()}, "url": url, "method": method}
        req = data if method == "POST" else (urlsplit(url).query or None)
        try:
            pr = ep.parse_request(req, http_info=http_info)
            if hasattr(pr, "keys") and "error" in pr:
                return Resp(400, pr.to_json() if hasattr(pr, "to_json") else json.dumps(dict(pr)))
            out = ep.process_request(pr, http_info=http_info)
            if "error" in out and "response_args" not in out and "http_response" not in out:
                return Resp(400, out.to_json() if hasattr(out, "to_json") else json.dumps(dict(out)))
            if "http_response" in out:
                # the web layer's part of the contract (as in the library's example provider): the body is given
                return Resp(200, json.dumps(out["http_response"]), {"content-type": "application/json"})
            r = ep.do_response(**out, request=pr)
        except Exception as e:
            log.append(["EXC", ep.name, type(e).__name__, str(e)[:150]])
            return Resp(500, json.dumps({"error": "server_error", "error_description": type(e).__name__ + ": " + str(e)[:200]}))
        hdrs = {k.lower(): v for k, v in r.get("http_headers", [])}
        return Resp(200, r["response"], {"content-type": hdrs.get("content-type", "application/json")})
    return httpc


def browser(server, url, log, cookies=None):
    """follow the authorization request: returns the parameters delivered to the RP's redirect_uri (query, fragment or form_post)"""
    ep = server.get_endpoint("authorization")
    q = urlsplit(url).query
    http_info = {"headers": {}, "url": url, "method": "GET"}
    if cookies:
        http_info["cookie"] = cookies
    pr = ep.parse_request(q, http_info=http_info)
    if hasattr(pr, "keys") and "error" in pr:
        return {"__error__": dict(pr)}, None
    out = ep.process_request(pr, http_info=http_info)
    if "error" in out and "response_args" not in out:
        return {"__error__": dict(out)}, None
    r = ep.do_response(**out, request=pr)
    log.append(["GET", "authorization", r.get("response_placement", "")])
    body = r["response"]
    how = None
    if isinstance(body, str) and body.lstrip().lower().startswith(("<!doctype", "<html")) or "<form" in str(body):
        how = "form_post"
        params = {m.group(1): html.unescape(m.group(2)) for m in re.finditer(r'name="([^"]+)"\s+value="([^"]*)"', body)}
    else:
        sp = urlsplit(body)
        if sp.fragment:
            how = "fragment"
            params = {k: v[0] for k, v in parse_qs(sp.fragment).items()}
        else:
            how = "query"
            params = {k: v[0] for k, v in parse_qs(sp.query).items()}
    return params, {"how": how, "location": body if how != "form_post" else None, "cookie": out.get("cookie")}


def make_pair(op_kwargs=None, rp_conf=None, op_post=None):
    """a provider and a relying party that discovered and registered with it through the bridge"""
    server = opbase.make_op(**(op_kwargs or {}))
    if op_post:
        op_post(server)
    server.context.set_provider_info()
    log = []
    files = {}
    conf = {
        "base_url": RP_BASE, "issuer": ISSUER, "client_type": "oidc",
        # one callback per response mode (with a flat redirect_uris list the RP only has a callback for the default mode of its response types)
        "callback_uris": {"redirect_uris": {"query": [RP_BASE + "/cb"], "fragment": [RP_BASE + "/cb_frag"], "form_post": [RP_BASE + "/cb_form"]}},
        "redirect_uris": [RP_BASE + "/cb", RP_BASE + "/cb_frag", RP_BASE + "/cb_form"],
        "application_type": "web", "contacts": ["ops@example.org"],
        "response_types_supported": ["code"],
        "scopes_supported": ["openid", "profile", "email", "offline_access"],
        "token_endpoint_auth_methods_supported": ["client_secret_basic"],
        "key_conf": {"key_defs": opbase.KEYDEFS},
    }
    if rp_conf:
        conf.update(rp_conf)
    rp = StandAloneClient(config=conf, httpc=make_bridge(server, log, files))
    # the provider fetches request_uri / jwks_uri of the client through the same kind of bridge
    server.context.httpc = lambda method, url, **kw: Resp(200, files[url.split("#")[0]], {"content-type": "application/jwt"}) if url.split("#")[0] in files else Resp(404, "")
    rp.do_provider_info()
    rp.do_client_registration()
    return server, rp, log, files
