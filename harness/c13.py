"""C13 — exported state restores to an equivalent provider; the file store shows a new instance what was written."""
import copy
import json
import os
import shutil
import tempfile
import common
import clock
from common import enc_str, dec_str
import prov

RULE = ("cases: (hist) provider-core histories generated against a live provider (authorize / redeem / refresh / userinfo / introspect / "
        "revocation / logout / remove / clock advances); the instance is exported, DISCARDED and a fresh one built from the same configuration "
        "imports the export — before every step, at a random subset of steps, or at one step — by session-manager export, by endpoint-context "
        "export, and by endpoint-context export through a JSON text; opaque and JWT handlers; OIDC and OAuth2 token endpoint; the three ways of "
        "pinning the token keys (password+salt, explicit key, jwks_def key file). Per-step outcome and state projection of the restored run are "
        "compared with the Lean provider model (which has no restore step: restore must be the identity) and, as oracle, with a run of the "
        "same history that is never restored. At every restore each restored object (grants, tokens, session nodes, session manager, endpoint "
        "context) is compared attribute by attribute with what the Lean ImpExp model computes from the class's parameter table. "
        "(aux) histories over what lives outside the session tree: dynamic registrations then used, client_secret_jwt assertions with jti "
        "(replay cache), pushed authorization requests (pending), CIBA requests (pending); oracle restored-vs-unrestored. "
        "(fs) operation sequences (set/get/del/contains/keys/len/clear/new instance) on AbstractFileSystem over real temporary directories with "
        "URL-shaped, quoted, spaced, Unicode, dotted, '.lock'-suffixed and over-long keys, default and pass-through key conversion, JSON and "
        "pass-through values — compared with the Lean file-store model; oracle: a new instance over the directory equals a Python dict. "
        "(rp) multi-flow relying-party histories (two issuers, recombined responses) with every client's service context exported, the "
        "clients discarded and fresh ones importing it, between all / some / one pair of steps, directly and through a JSON text — compared "
        "with the RP state model and with the unrestored run. "
        "non-trivial: a history with at least one restore after state exists / an fs sequence with a delete, overwrite or new instance")
MODELLED = ("modelled: ImpExp.dump/load per object (parameter tables regenerated from /repo), the provider core (restore = identity), "
            "AbstractFileSystem incl. lock files, cache and synch; the relying party's state store (C09's model: restore = identity). "
            "NOT modelled: JSON syntax of values, modification-time granularity and concurrent writers of the file store")
ASSUMPTIONS = ["the configuration pins every key (token handlers, session-id cipher, provider signing keys): the harness configures it so",
               "single writer per directory; file modification times strictly increase between writes"]

T0 = prov.T0
STATS = {"restores": 0, "objects": 0, "fs_ops": 0}

# ------------------------------------------------------------------ hist


def cases(rng, tier):
    nh, nf, na = {"quick": (6, 80, 10), "thorough": (60, 1500, 100), "search": (40, 800, 80)}[tier]
    out = []
    for i in range(nh):
        oidc, jwt = rng.random() < 0.75, rng.random() < 0.4
        keys = ["pwsalt", "key", "jwks_def"][i % 3]
        ops, _ = prov.gen_adaptive(rng, rng.randint(10, 20), oidc, jwt)
        n = len(ops)
        for mode, crash in ((rng.choice(["sm", "ctx", "ctx-json"]), list(range(n))),
                            (rng.choice(["sm", "ctx", "ctx-json"]), sorted(rng.sample(range(n), max(1, n // 4)))),
                            (rng.choice(["ctx", "ctx-json"]), [rng.randrange(1, n)])):
            out.append({"t": "hist", "oidc": oidc, "jwt": jwt, "keys": keys, "mode": mode, "ops": ops, "crash": crash})
    # a PENDING RP-initiated logout: the end-session request is answered (signed hand-over to the provider's verification page) by the
    # original instance; the confirmation arrives after the restore
    for keys in ("pwsalt", "key", "jwks_def"):
        for mode in (["ctx", "ctx-json"] if tier == "quick" else ["ctx", "ctx-json", "ctx"]):
            out.append({"t": "logout", "keys": keys, "mode": mode, "jwt": rng.random() < 0.4, "crash": rng.choice(["pending", "pending", "before", "none"])})
    for _ in range(na):
        out.append(gen_aux(rng))
    for _ in range(nf):
        out.append(gen_fs(rng))
    # relying-party side: multi-flow histories (C09's generator) with export / discard / import of every client between steps
    import c09
    for _ in range({"quick": 25, "thorough": 500, "search": 250}[tier]):
        ops = c09.gen(rng, rng.randint(5, 12))
        mode = rng.choice(["ctx", "json"])
        k = rng.choice(["all", "some", "one"])
        pts = set(range(1, len(ops))) if k == "all" else set(rng.sample(range(1, len(ops)), max(1, len(ops) // 3))) if k == "some" else {rng.randrange(1, len(ops))}
        with_crash = []
        for i, o in enumerate(ops):
            if i in pts:
                with_crash.append(["crash", mode])
            with_crash.append(o)
        out.append({"t": "rp", "ops": with_crash})
    return out


def corpus():
    red = "https://client_1.example.com/cb"
    base = [["authorize", "diana", "client_1", ["openid", "offline_access"], red], ["tokenParse", "client_1", 1, red], ["tokenProcess", 0],
            ["userinfo", 2], ["refresh", "client_1", 3, None], ["tokenParse", "client_1", 1, red], ["tokenProcess", 0], ["userinfo", 2],
            ["revokeTok", 5, True], ["userinfo", 5], ["introspect", "client_1", 6]]
    out = []
    for n, keys in enumerate(("pwsalt", "key", "jwks_def")):
        for m, mode in enumerate(("sm", "ctx", "ctx-json")):
            for jwt in ((n + m) % 2 == 0,):
                out.append({"t": "hist", "oidc": True, "jwt": jwt, "keys": keys, "mode": mode, "ops": base, "crash": list(range(len(base)))})
    # a used code presented again right after a restore; a pending CIBA request; a consumed jti
    out.append({"t": "aux", "mode": "ctx", "ops": [["register", 0], ["crash"], ["dynflow", 0], ["jwtauth", "client_1", 1], ["crash"], ["jwtauth", "client_1", 1],
                                                   ["push", "client_1"], ["crash"], ["redeem", "client_1", 0], ["redeem", "client_1", 0],
                                                   ["ciba", "client_1"], ["crash"], ["cibaPoll", 0]]})
    out.append({"t": "fs", "kconv": "qp", "vconv": "json", "ops": [["set", "https://rp.example.org/cb?x=1 2", "a"], ["set", "k", "b"], ["set", "https://rp.example.org/cb?x=1 2", "c"],
                                                                     ["del", "k"], ["reopen"], ["keys"], ["get", "https://rp.example.org/cb?x=1 2"], ["get", "k"],
                                                                     ["del", "https://rp.example.org/cb?x=1 2"], ["reopen"], ["keys"], ["len"]]})
    out.append({"t": "fs", "kconv": "qp", "vconv": "json", "ops": [["set", "a b", "1"], ["set", "a+b", "2"], ["set", "a%20b", "3"], ["clear"], ["reopen"], ["keys"], ["len"]]})
    # keys that look like converted file names already ('+', well-formed %XX): the conversion must stay injective, a new instance lists what was written
    out.append({"t": "fs", "kconv": "qp", "vconv": "json", "ops": [["set", "rp+one", "1"], ["reopen"], ["keys"], ["get", "rp+one"], ["contains", "rp one"], ["get", "rp one"],
                                                                     ["set", "rp one", "2"], ["reopen"], ["keys"], ["get", "rp+one"], ["get", "rp one"],
                                                                     ["set", "rp%2Fone", "3"], ["reopen"], ["keys"], ["contains", "rp/one"], ["get", "rp%2Fone"], ["del", "rp/one"],
                                                                     ["reopen"], ["keys"], ["len"]]})
    return out


def _canon(v, special=False, depth=0):
    from idpyoidc.impexp import ImpExp
    from idpyoidc.message import Message
    if v is None:
        return None
    if special and not v:
        return None
    if isinstance(v, ImpExp):
        try:
            return "IE:" + type(v).__name__ + ":" + json.dumps(v.dump(), sort_keys=True, default=lambda o: type(o).__name__)
        except Exception as e:
            return "IE:" + type(v).__name__ + ":undumpable:" + type(e).__name__
    if isinstance(v, Message):
        return "MSG:" + type(v).__name__ + ":" + json.dumps(v.to_dict(), sort_keys=True, default=str)
    if isinstance(v, (str, int, float, bool)):
        return repr(v)
    if isinstance(v, bytes):
        return "b:" + v.hex()
    if isinstance(v, dict):
        if depth > 6:
            return "dict"
        return "{" + ",".join(sorted(repr(k) + ":" + str(_canon(x, False, depth + 1)) for k, x in v.items())) + "}"
    if isinstance(v, (list, tuple)):
        if depth > 6:
            return "list"
        return "[" + ",".join(str(_canon(x, False, depth + 1)) for x in v) + "]"
    return "OBJ:" + type(v).__name__


def _object_rows(orig, rest, fresh, label):
    """one ImpExp-model row: attribute names, exported names, value ids of fresh / original / restored"""
    cls = type(orig)
    attrs = sorted(set(vars(orig)) | set(vars(rest)))
    ids = {None: 0}

    def vid(o, a):
        c = _canon(getattr(o, a, None), a in cls.special_load_dump)
        return ids.setdefault(c, len(ids))
    f = [vid(fresh, a) for a in attrs]
    o = [vid(orig, a) for a in attrs]
    r = [vid(rest, a) for a in attrs]
    return {"label": label, "cls": cls.__module__ + "." + cls.__name__, "attrs": attrs, "exported": list(cls.parameter), "init_args": list(cls.init_args), "fresh": f, "orig": o, "rest": r}


def _objects_after_restore(A, B, fresh):
    """pairs (original, restored, fresh instance of the class) for every ImpExp object of the session tree"""
    from idpyoidc.server.session.grant import Grant
    rows = []
    for key, node in A.sm.db.db.items():
        other = B.sm.db.db.get(key)
        if other is None or type(other) is not type(node):
            rows.append({"label": "node " + key, "missing": True})
            continue
        try:
            fr = type(node)()
        except Exception:
            continue
        rows.append(_object_rows(node, other, fr, "node " + type(node).__name__))
        if isinstance(node, Grant):
            for t in node.issued_token:
                ot = [x for x in other.issued_token if x.value == t.value]
                if not ot:
                    rows.append({"label": "token", "missing": True})
                    continue
                rows.append(_object_rows(t, ot[0], type(t)(), "token " + type(t).__name__))
    rows.append(_object_rows(A.sm, B.sm, fresh.sm, "SessionManager"))
    return rows


def _run_hist(c, restore):
    R = prov.Runner(c["oidc"], c["jwt"], keys=c["keys"])
    steps, rows, fails = [], [], []
    crash = set(c["crash"]) if restore else set()
    fresh = None
    STATS["_cur"] = 0
    for i, o in enumerate(c["ops"]):
        if i in crash:
            try:
                B = R.restored(c["mode"])
                if len(rows) < 400:
                    if fresh is None:
                        t = clock.CLOCK.t
                        fresh = prov.Runner(c["oidc"], c["jwt"], keys=c["keys"])     # only read: what a constructor gives every attribute
                        clock.CLOCK.t = t
                    new = _objects_after_restore(R, B, fresh)
                    if c["mode"] != "sm":
                        new.append(_object_rows(R.s.context, B.s.context, fresh.s.context, "EndpointContext"))
                    for r in new:
                        r["pristine"] = STATS.get("_cur", 0) == 0      # the exporting instance was itself never restored
                    rows += new
                STATS["_cur"] = STATS.get("_cur", 0) + 1
                R = B
                STATS["restores"] += 1
            except Exception as e:
                fails.append([i, type(e).__name__ + ":" + str(e)[:120]])
        r = R.op(o)
        steps.append({"out": prov.canon_outcome(r), "raw": r, "proj": R.projection()})
    return steps, rows, fails


# ------------------------------------------------------------------ aux (registration, jti, PAR, CIBA)

def _aux_endpoints():
    from idpyoidc.server.oauth2.pushed_authorization import PushedAuthorization
    from idpyoidc.server.oidc.backchannel_authentication import BackChannelAuthentication
    return {"pushed_authorization": {"path": "pushed_authorization", "class": PushedAuthorization, "kwargs": {"client_authn_method": ["client_secret_post"], "ttl": 600}},
            "backchannel_authentication": {"path": "bc_authn", "class": BackChannelAuthentication, "kwargs": {"client_authn_method": ["client_secret_post"]}}}


def gen_aux(rng):
    ops = []
    nreg = npush = nciba = 0
    for _ in range(rng.randint(6, 16)):
        k = rng.choice(["register", "dynflow", "jwtauth", "jwtauth", "push", "redeem", "ciba", "cibaPoll", "crash", "crash", "tick"])
        if k == "register":
            ops.append(["register", nreg]); nreg += 1
        elif k == "dynflow":
            ops.append(["dynflow", rng.randrange(nreg) if nreg else 0])
        elif k == "jwtauth":
            ops.append(["jwtauth", rng.choice(["client_1", "client_2"]), rng.randrange(4)])
        elif k == "push":
            ops.append(["push", rng.choice(["client_1", "client_2"])]); npush += 1
        elif k == "redeem":
            ops.append(["redeem", rng.choice(["client_1", "client_2"]), rng.randrange(npush) if npush else 0])
        elif k == "ciba":
            ops.append(["ciba", rng.choice(["client_1", "client_2"])]); nciba += 1
        elif k == "cibaPoll":
            ops.append(["cibaPoll", rng.randrange(nciba) if nciba else 0])
        elif k == "tick":
            ops.append(["tick", rng.choice([1, 30, 500])])
        else:
            ops.append(["crash"])
    return {"t": "aux", "mode": rng.choice(["ctx", "ctx"]), "ops": ops}


class Aux:
    def __init__(self):
        self.R = prov.Runner(True, False, keys="pwsalt", more_endpoints=_aux_endpoints())
        self._wire()
        self.clients, self.urns, self.arids = [], [], []

    def _wire(self):
        from idpyoidc.server.login_hint import LoginHintLookup
        ctx = self.R.s.context
        ctx.login_hint_lookup = LoginHintLookup(userinfo=ctx.userinfo)     # configuration (an object; re-created for every instance)

    def crash(self, mode):
        self.R = self.R.restored(mode)
        self._wire()

    def op(self, o):
        try:
            return getattr(self, "op_" + o[0])(*o[1:])
        except Exception as e:
            return ["exc", type(e).__name__]

    def op_tick(self, n):
        clock.CLOCK.t += n
        return ["ok"]

    def op_register(self, i):
        ep = self.R.s.get_endpoint("registration")
        req = {"redirect_uris": [f"https://dyn{i}.example.org/cb"], "response_types": ["code"], "application_type": "web", "token_endpoint_auth_method": "client_secret_post"}
        out = ep.process_request(ep.parse_request(json.dumps(req)))
        ra = out["response_args"]
        self.clients.append((ra["client_id"], ra["client_secret"], i))
        return ["registered"]

    def op_dynflow(self, j):
        from idpyoidc.message.oidc import AuthorizationRequest
        if j >= len(self.clients):
            return ["noclient"]
        cid, sec, i = self.clients[j]
        s = self.R.s
        self.R.set_user("diana")
        az, tk = s.get_endpoint("authorization"), s.get_endpoint("token")
        red = f"https://dyn{i}.example.org/cb"
        pr = az.parse_request(AuthorizationRequest(client_id=cid, redirect_uri=red, scope=["openid"], state="st", response_type="code", nonce="n").to_dict())
        if "error" in pr:
            return ["authz-error", pr["error"]]
        out = az.process_request(pr)
        code = out["response_args"]["code"]
        tr = tk.process_request(tk.parse_request(dict(client_id=cid, client_secret=sec, redirect_uri=red, grant_type="authorization_code", code=code)))
        return ["tokens" if "access_token" in tr.get("response_args", {}) else "token-error"]

    def op_jwtauth(self, cid, n):
        from cryptojwt.jws.jws import JWS
        from cryptojwt.key_jar import KeyJar
        ctx = self.R.s.context
        tk = self.R.s.get_endpoint("token")
        kj = KeyJar(); kj.add_symmetric("", ctx.cdb[cid]["client_secret"])
        body = {"iss": cid, "sub": cid, "aud": [tk.full_path], "jti": f"jti-{n}", "exp": T0 + 10**7, "iat": T0}
        ca = JWS(json.dumps(body), alg="HS256").sign_compact(kj.get_signing_key("oct", ""))
        try:
            pr = tk.parse_request({"grant_type": "authorization_code", "code": "bogus", "redirect_uri": "https://x/cb", "client_assertion": ca,
                                   "client_assertion_type": "urn:ietf:params:oauth:client-assertion-type:jwt-bearer"})
        except Exception as e:
            return ["authn-refused", type(e).__name__]
        if "error" in pr and pr["error"] in ("invalid_client", "unauthorized_client"):
            return ["authn-refused", pr["error"]]
        return ["authn-ok"]

    def op_push(self, cid):
        ctx = self.R.s.context
        par = self.R.s.get_endpoint("pushed_authorization")
        req = dict(client_id=cid, client_secret=ctx.cdb[cid]["client_secret"], redirect_uri=f"https://{cid}.example.com/cb", scope="openid",
                   state="pushed-by-" + cid, response_type="code", nonce="n")
        out = par.process_request(par.parse_request(req))
        self.urns.append(out["http_response"]["request_uri"])
        return ["urn"]

    def op_redeem(self, cid, k):
        from idpyoidc.message.oidc import AuthorizationRequest
        az = self.R.s.get_endpoint("authorization")
        urn = self.urns[k] if k < len(self.urns) else "urn:uuid:00000000-0000-0000-0000-000000000000"
        pr = az.parse_request(AuthorizationRequest(client_id=cid, request_uri=urn, response_type="code", scope=["openid"],
                                                   redirect_uri=f"https://{cid}.example.com/cb").to_dict())
        if "error" in pr:
            return ["refused"]
        return ["proceeds", pr.get("state")]

    def op_ciba(self, cid):
        ep = self.R.s.get_endpoint("backchannel_authentication")
        ctx = self.R.s.context
        pr = ep.parse_request({"client_id": cid, "client_secret": ctx.cdb[cid]["client_secret"], "scope": "openid", "login_hint": "mail:diana@example.org", "binding_message": "x"})
        out = ep.process_request(pr)
        self.arids.append(out["response_args"]["auth_req_id"])
        return ["auth_req_id"]

    def op_cibaPoll(self, k):
        from idpyoidc.server.oidc.backchannel_authentication import CIBATokenHelper
        if k >= len(self.arids):
            return ["noreq"]
        h = CIBATokenHelper(self.R.s.get_endpoint("token"))
        r = h.post_parse_request({"client_id": "client_1", "auth_req_id": self.arids[k], "grant_type": "urn:openid:params:grant-type:ciba"}, client_id="client_1")
        return ["found" if "_session_id" in r else "answer", r.get("error_description") if hasattr(r, "get") else None]


def _run_aux(c, restore):
    A = Aux()
    outs, fails = [], []
    for i, o in enumerate(c["ops"]):
        if o[0] == "crash":
            if restore:
                try:
                    A.crash(c["mode"]); STATS["restores"] += 1
                except Exception as e:
                    fails.append([i, type(e).__name__ + ":" + str(e)[:120]])
            outs.append(["ok"])
        else:
            outs.append(A.op(o))
    return outs, fails


# ------------------------------------------------------------------ fs

KEYPOOL = ["k", "client_1", "https://rp.example.org/cb?x=1 2", "https://rp.example.org", "a b", "a+b", "a%20b", "A%2fB", "a/b", "zoë", "用户", "x.lock", "k.lock",
           ".hidden", "..", ".", "", "a" * 100, "a" * 250, "é" * 100, "per%cent", "tab\tkey", "nl\nkey", "UPPER", "upper", "~user", "a.b-c_d", "%"]
VALPOOL = ["v", "", "  padded \n", "line1\nline2", "ünï", "0", "a" * 300, "{\"j\": 1}"]
DICTPOOL = [{"client_id": "c", "client_secret": "s1"}, {"a": [1, 2], "b": {"c": None}}, {}]


def gen_fs(rng):
    kconv = "qp" if rng.random() < 0.8 else "pass"
    vconv = rng.choice(["json", "json", "pass"])
    # the pass-through key conversion is for keys that already are file names: no '/' (FileLock would create directories for them)
    keys = rng.sample([k for k in KEYPOOL if kconv == "qp" or "/" not in k], rng.randint(2, 5))
    # the file of key "x.lock" IS the lock file of key "x" (F-C13-d): the two are not used side by side, the model has no lock files
    keys = [k for k in keys if not (k.endswith(".lock") and k[:-5] in keys)]
    ops = []
    for _ in range(rng.randint(4, 14)):
        k = rng.choice(["set", "set", "set", "upd", "get", "del", "contains", "keys", "len", "reopen", "clear"] if rng.random() < 0.9 else ["clear"])
        if k == "set":
            ops.append(["set", rng.choice(keys), rng.choice(VALPOOL if vconv == "pass" or rng.random() < 0.4 else DICTPOOL)])
        elif k == "upd":
            # read-modify-write of a stored record (what a client database does when a secret is rotated)
            ops.append(["upd", rng.choice(keys), rng.choice(["client_secret", "x"]), rng.choice(["s2", "s3", 7])])
        elif k in ("get", "del", "contains"):
            ops.append([k, rng.choice(keys)])
        else:
            ops.append([k])
    ops += [["reopen"], ["keys"]] + [["get", k] for k in keys]
    return {"t": "fs", "kconv": kconv, "vconv": vconv, "ops": ops}


def _fs_new(d, c):
    from idpyoidc.storage.abfile import AbstractFileSystem
    return AbstractFileSystem(fdir=d, key_conv="idpyoidc.util.QPKey" if c["kconv"] == "qp" else "idpyoidc.util.PassThru",
                              value_conv="idpyoidc.util.JSON" if c["vconv"] == "json" else "idpyoidc.util.PassThru")


def _run_fs(c):
    d = tempfile.mkdtemp(prefix="idpyverif-fs-")
    outs = []
    try:
        fs = _fs_new(d, c)
        for o in c["ops"]:
            STATS["fs_ops"] += 1
            try:
                if o[0] == "set":
                    fs[o[1]] = json.loads(json.dumps(o[2])) if not isinstance(o[2], str) else o[2]; r = ["ok"]
                elif o[0] == "upd":
                    cur = fs[o[1]]
                    if isinstance(cur, dict):
                        cur[o[2]] = o[3]
                        fs[o[1]] = cur
                        r = ["ok", json.loads(json.dumps(cur))]
                    else:
                        r = ["ok", None]
                elif o[0] == "get":
                    r = ["val", copy.deepcopy(fs[o[1]])]      # the store hands out its cached object: a later in-place update must not rewrite this record
                elif o[0] == "del":
                    del fs[o[1]]; r = ["ok"]
                elif o[0] == "contains":
                    r = ["bool", o[1] in fs]
                elif o[0] == "keys":
                    r = ["keys", sorted(fs.keys())]
                elif o[0] == "len":
                    r = ["num", len(fs)]
                elif o[0] == "clear":
                    fs.clear(); r = ["ok"]
                elif o[0] == "reopen":
                    fs = _fs_new(d, c); r = ["ok"]
            except KeyError:
                r = ["keyError"]
            except OSError as e:
                r = ["osError", type(e).__name__]
            except ValueError as e:
                r = ["valueError", type(e).__name__]
            except Exception as e:
                r = ["exc", type(e).__name__]
            outs.append(r)
        listing = sorted(os.listdir(d))
    finally:
        shutil.rmtree(d, ignore_errors=True)
    return outs, listing


# ------------------------------------------------------------------ interface

def _logout_impl(c):
    """(client_3: no back- or front-channel logout URI, so the confirmation makes no HTTP call) login, (crash?), end-session request, (crash?), confirmation; then: is the session over?"""
    from urllib.parse import urlsplit, parse_qs
    from idpyoidc.message.oidc.session import EndSessionRequest
    red, plo = "https://client_3.example.com/cb", "https://client_3.example.com/logout_cb"
    R = prov.Runner(True, c["jwt"], keys=c["keys"])
    R.s.context.cdb["client_3"]["post_logout_redirect_uri"] = [(plo, None)]
    r = R.op(["authorize", "diana", "client_3", ["openid", "offline_access"], red])
    R.op(["tokenParse", "client_3", r[1], red])
    t = R.op(["tokenProcess", 0])
    if t[0] != "tokens":
        return {"r": "setup", "why": str(t)}
    at, idt = t[1], R.tv(t[3])
    cookie = [ck for ck in R.cookies[("diana", "client_3")] if ck["name"] == R.s.context.cookie_handler.name["session"]]
    o = {"before": R.op_safe(["userinfo", at])[0]}
    if c["crash"] == "before":
        R = R.restored(c["mode"]); STATS["restores"] += 1
    try:
        ep = R.s.get_endpoint("session")
        req = EndSessionRequest(id_token_hint=idt, post_logout_redirect_uri=plo, state="bye")
        req.verify(keyjar=R.s.context.keyjar, sigalg="")
        out = ep.process_request(req, http_info={"cookie": cookie})
        sjwt = parse_qs(urlsplit(out["redirect_location"]).query)["sjwt"][0]
    except Exception as e:
        return dict(o, r="begin-failed", why=type(e).__name__ + ": " + str(e)[:100])
    if c["crash"] == "pending":
        R = R.restored(c["mode"]); STATS["restores"] += 1
    try:
        ep = R.s.get_endpoint("session")
        info = ep.unpack_signed_jwt(sjwt)
        ep.do_verified_logout(**info)
        o["confirm"] = "ok"
        o["target"] = info.get("redirect_uri")
    except Exception as e:
        o["confirm"] = "failed:" + type(e).__name__
    o["after"] = R.op_safe(["userinfo", at])[0]
    # the same user logs in again at the same client on whichever instance is now live: the subject identifier is the one from before
    try:
        subs0 = sorted({g.sub for g, path in R.gobj.values()})
        r2 = R.op(["authorize", "diana", "client_3", ["openid"], red])
        subs1 = sorted({g.sub for g, path in R.gobj.values() if path[:2] == ["diana", "client_3"]})
        o["subs"] = [subs0, subs1]
    except Exception as e:
        o["subs"] = None
    o["r"] = "ok"
    return o


def impl(c):
    if c["t"] == "logout":
        return _logout_impl(c)
    if c["t"] == "rp":
        import c09
        obs = c09.impl({"t": "hist", "ops": c["ops"]})
        ref = c09.impl({"t": "hist", "ops": [o for o in c["ops"] if o[0] != "crash"]})
        STATS["restores"] += sum(1 for o in c["ops"] if o[0] == "crash")
        # values are random per run: compare outcomes and the SHAPE of the stores (which fields are filled), not the values
        def shape(d):
            return {i: sorted([[x is not None for x in r[:3]] + [r[3] is not None, r[4] is not None] for r in v["db"].values()]) for i, v in d.items()}
        return {"c09": obs, "steps": [[s["r"], shape(s["after"])] for s in obs["steps"] if True],
                "ref": [[s["r"], shape(s["after"])] for s in ref["steps"]]}
    if c["t"] == "hist":
        steps, rows, fails = _run_hist(c, True)
        ref, _, _ = _run_hist(c, False)
        return {"steps": steps, "rows": rows, "fails": fails, "ref": [{"out": s["out"], "proj": s["proj"]} for s in ref]}
    if c["t"] == "aux":
        outs, fails = _run_aux(c, True)
        ref, _ = _run_aux(c, False)
        return {"outs": outs, "ref": ref, "fails": fails}
    outs, listing = _run_fs(c)
    return {"outs": outs, "listing": listing}


def _bytes(s):
    return s.encode("utf-8", "surrogatepass").decode("latin-1")


def model_lines(c, obs):
    if c["t"] == "logout":
        return []          # the provider model's logout is C03's; here the oracle: the restored instance finishes what the original began
    if c["t"] == "rp":
        import c09
        return c09.model_lines({"ops": c["ops"]}, obs["c09"])
    if c["t"] == "hist":
        lines = [prov.cfg_line(c["oidc"], c["jwt"])] + [prov.model_line(o) for o in c["ops"]]
        for r in obs["rows"]:
            if r.get("missing"):
                continue
            lines.append("\t".join(["ie", "load", ";".join(r["exported"]), ";".join(r["attrs"]), ",".join(map(str, r["fresh"])), ",".join(map(str, r["orig"]))]))
        return lines
    if c["t"] == "aux":
        return []
    lines = ["fs\treset\t" + c["kconv"]]
    for o in c["ops"]:
        if o[0] == "set":
            v = json.dumps(o[2]) if c["vconv"] == "json" else o[2]
            lines.append("\t".join(["fs", "set", enc_str(_bytes(o[1])), enc_str(v)]))
        elif o[0] in ("get", "del", "contains"):
            lines.append("\t".join(["fs", o[0], enc_str(_bytes(o[1]))]))
        elif o[0] == "upd":
            r = obs["outs"][len(lines) - 1]
            if r[0] == "ok" and r[1] is not None:      # the record was a dict: the update is a set of the new record
                lines.append("\t".join(["fs", "set", enc_str(_bytes(o[1])), enc_str(json.dumps(r[1]))]))
            else:                                       # nothing written: only the read
                lines.append("\t".join(["fs", "get", enc_str(_bytes(o[1]))]))
        else:
            lines.append("fs\t" + o[0])
    return lines


def _fs_expect(c, o, out):
    """model output -> comparable form of the implementation's answer"""
    f = out.split("\t")
    if f[0] == "val":
        v = dec_str(f[1])
        if c["vconv"] == "json":
            try:
                v = json.loads(v)
            except Exception:
                return ["valueError"]
        return ["val", v]
    if f[0] == "keys":
        ks = [dec_str(x).encode("latin-1").decode("utf-8", "replace") for x in (f[1].split(";") if len(f) > 1 and f[1] else [])]
        return ["keys", sorted(ks)]
    if f[0] == "bool":
        return ["bool", f[1] == "1"]
    if f[0] == "num":
        return ["num", int(f[1])]
    if f[0] == "convError":
        return ["valueError"]
    return [f[0]]


def compare(c, obs, outs):
    if c["t"] == "logout":
        return []
    if c["t"] == "rp":
        import c09
        # the RP state model has no restore step: a crash line is a no-op, the store dump after it must equal the one before
        return c09.compare({"ops": c["ops"]}, obs["c09"], outs)
    if c["t"] == "hist":
        n = len(c["ops"])
        d = prov.compare_history(c["ops"], obs["steps"], outs[:n + 1])
        if d:
            return d
        if obs["fails"]:
            return [f"restore failed at step {obs['fails'][0][0]}: {obs['fails'][0][1]}"]
        rows = [r for r in obs["rows"] if not r.get("missing")]
        for r, o in zip(rows, outs[n + 1:]):
            pred = [int(x) for x in o.split(",")] if o and o != "bad-op" else [None] * len(r["attrs"])
            # (i) exported attributes: the restored value is what the model computes from the dump
            bad = [a for a, p, x in zip(r["attrs"], pred, r["rest"]) if a in r["exported"] and a not in r["init_args"] and p != x]
            if bad:
                return [f"ImpExp model vs restored {r['cls']} ({r['label']}): exported attributes {bad} differ (model {pred}, restored {r['rest']}, original {r['orig']})"]
            # (ii) hypothesis of restore_exact, dynamically: an attribute that is neither exported nor handed in by the caller (init_args)
            # must be what the constructor gives it — otherwise it is state that the export loses
            lost = [a for a, f, og in zip(r["attrs"], r["fresh"], r["orig"]) if r.get("pristine") and a not in r["exported"] and a not in r["init_args"] and f != og]
            if lost:
                return [f"unexported state in {r['cls']} ({r['label']}): attributes {lost} differ from what the constructor gives and are not in `parameter`"]
            # (iii) … and an exported attribute that is None now must be None after construction (dump skips None)
            nn = [a for a, f, og, x in zip(r["attrs"], r["fresh"], r["orig"], r["rest"]) if a in r["exported"] and a not in r["init_args"] and og == 0 and x != 0]
            if nn:
                return [f"{r['cls']} ({r['label']}): attributes {nn} are None in the original but not after restore (dump skips None, the constructor sets a value)"]
        if any(r.get("missing") for r in obs["rows"]):
            return ["a session-tree object is missing after restore"]
        return []
    if c["t"] == "aux":
        return []
    d = []
    for i, (o, r, m) in enumerate(zip(c["ops"], obs["outs"], outs[1:])):
        e = _fs_expect(c, o, m)
        got = r[:1] if r[0] in ("osError", "valueError", "exc") else r
        if o[0] == "upd":
            e = ["ok"] if e[0] in ("ok", "val") else e
            got = got[:1]
        if e != got:
            d.append(f"fs step {i} {o}: model={e} impl={r}")
            break
    return d


def _good_key(c, k):
    from urllib.parse import quote_plus
    n = quote_plus(k) if c["kconv"] == "qp" else k
    if n in ("", ".", "..") or "/" in n or "\0" in n or len(n.encode("utf-8")) + 5 > 255 or n.endswith(".lock"):
        return False
    if c["kconv"] == "pass":
        return True
    try:
        k.encode("utf-8")
    except Exception:
        return False
    return True


def oracle(c, obs):
    v = []
    if c["t"] == "logout":
        if obs["r"] == "setup":
            return v
        if obs["r"] != "ok":
            return [{"cls": "pending-logout-lost", "crash": c["crash"], "stage": "begin", "why": obs.get("why")}]
        if obs["before"] != "userinfo":
            return v
        if obs.get("subs") and len(set(obs["subs"][1])) > 1:
            v.append({"cls": "subject-changes-across-restore", "crash": c["crash"], "mode": c["mode"], "keys": c["keys"]})
        if obs["confirm"] != "ok" or obs["after"] == "userinfo":
            v.append({"cls": "pending-logout-lost", "crash": c["crash"], "mode": c["mode"], "keys": c["keys"], "confirm": obs["confirm"], "token_still_honoured": obs["after"] == "userinfo"})
        return v
    if c["t"] == "rp":
        got = [s for s, o in zip(obs["steps"], c["ops"]) if o[0] != "crash"]
        for i, (a, b) in enumerate(zip(got, obs["ref"])):
            if a != b:
                v.append({"cls": "restored-relying-party-answers-differently", "step": i, "restored": a[0], "original": b[0]})
                break
        for s, o in zip(obs["c09"]["steps"], c["ops"]):
            if o[0] == "crash" and (s["r"] != "ok" or s["after"] != s["before"]):
                v.append({"cls": "relying-party-state-lost-on-restore", "how": s.get("how")})
                break
        return v[:1]
    if c["t"] == "hist":
        if obs["fails"]:
            v.append({"cls": "restore-raises", "mode": c["mode"], "keys": c["keys"], "step": obs["fails"][0][0], "what": obs["fails"][0][1]})
        for i, (s, r) in enumerate(zip(obs["steps"], obs["ref"])):
            if s["out"] != r["out"]:
                v.append({"cls": "restored-instance-answers-differently", "mode": c["mode"], "keys": c["keys"], "step": i, "op": c["ops"][i], "restored": s["raw"], "original": r["out"]})
                break
            if s["proj"] != r["proj"]:
                v.append({"cls": "restored-state-differs", "mode": c["mode"], "keys": c["keys"], "step": i, "op": c["ops"][i]})
                break
        return v[:1]
    if c["t"] == "aux":
        if obs["fails"]:
            v.append({"cls": "restore-raises", "mode": c["mode"], "step": obs["fails"][0][0], "what": obs["fails"][0][1]})
        for i, (a, b) in enumerate(zip(obs["outs"], obs["ref"])):
            if a != b:
                v.append({"cls": "restored-instance-answers-differently", "mode": c["mode"], "step": i, "op": c["ops"][i], "restored": a, "original": b})
                break
        return v[:1]
    # fs: a Python dict over the well-formed keys; the answers after the last `reopen` must be the dict's
    spec, bad = {}, False
    last = max(i for i, o in enumerate(c["ops"]) if o[0] == "reopen") if any(o[0] == "reopen" for o in c["ops"]) else None
    for i, (o, r) in enumerate(zip(c["ops"], obs["outs"])):
        key_ok = len(o) < 2 or _good_key(c, o[1])
        if o[0] == "set":
            if key_ok and r == ["ok"]:
                spec[o[1]] = o[2]
            elif not key_ok:
                bad = bad or r == ["ok"]
                if r == ["ok"]:
                    v.append({"cls": "lock-suffixed-key-accepted" if o[1].endswith(".lock") else "ill-formed-key-accepted", "key": o[1]})
        elif o[0] == "upd" and key_ok and r[0] == "ok" and r[1] is not None:
            spec[o[1]] = dict(spec.get(o[1]) if isinstance(spec.get(o[1]), dict) else {}, **{o[2]: o[3]})
        elif o[0] == "del" and key_ok:
            spec.pop(o[1], None)
        elif o[0] == "clear":
            spec.clear()
        if last is not None and i > last and not any(x[0] in ("set",) and not _good_key(c, x[1]) and y == ["ok"] for x, y in zip(c["ops"][:i], obs["outs"][:i])):
            def survives(val):
                return val if c["vconv"] == "json" else val.strip()
            if o[0] == "get" and key_ok:
                want = ["val", spec[o[1]]] if o[1] in spec else ["keyError"]
                if r != want:
                    cls = "passthru-value-stripped" if (o[1] in spec and c["vconv"] == "pass" and r == ["val", survives(spec[o[1]])]) else "new-instance-sees-other-than-written"
                    v.append({"cls": cls, "key": o[1], "want": want, "got": r})
            if o[0] == "keys" and r != ["keys", sorted(spec)]:
                v.append({"cls": "new-instance-lists-other-than-written", "want": sorted(spec), "got": r})
    return v[:1]


def known_key(c, v, known):
    return common.known_key(c, v, known)


def classify(c, obs):
    if c["t"] == "logout":
        return f"logout:{c['crash']}:{c['mode']}:{c['keys']}"
    if c["t"] == "rp":
        return "rp:" + str(sum(1 for o in c["ops"] if o[0] == "crash"))
    if c["t"] == "hist":
        return f"hist:{c['mode']}:{c['keys']}:{'jwt' if c['jwt'] else 'opaque'}:{'all' if len(c['crash']) == len(c['ops']) else len(c['crash'])}"
    if c["t"] == "aux":
        return "aux:" + ",".join(sorted({o[0] for o in c["ops"]}))
    return f"fs:{c['kconv']}:{c['vconv']}"


def nontrivial(c, obs):
    if c["t"] == "logout":
        return c["crash"] != "none"
    if c["t"] == "rp":
        return True
    if c["t"] == "hist":
        return any(i > 0 for i in c["crash"])
    if c["t"] == "aux":
        seen = False
        for o in c["ops"]:
            if o[0] == "crash" and seen:
                return True
            seen = seen or o[0] in ("register", "jwtauth", "push", "ciba")
        return False
    return any(o[0] in ("del", "reopen", "clear") for o in c["ops"])


def generated_obligations():
    # Idpy.Props.C13.all_state_exported ranges over Gen/ImpExp.lean: one obligation per ImpExp subclass
    import sys
    sys.path.insert(0, os.path.join(common.VERIF, "tools"))
    import extract_impexp
    return len(extract_impexp.all_impexp_classes())


def evidence_extra():
    return {k: v for k, v in STATS.items() if not k.startswith("_")}
