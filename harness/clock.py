import sys, time, datetime as _dt
class Clock:
    def __init__(self, t0=1_800_000_000): self.t = t0
    def __call__(self): return self.t
CLOCK = Clock()
def install():
    import idpyoidc.time_util as tu, cryptojwt.jwt as cj
    real_dt = _dt.datetime
    class FakeDT(real_dt):
        @classmethod
        def now(cls, tz=None): return real_dt.fromtimestamp(CLOCK.t, tz)
        @classmethod
        def utcnow(cls): return real_dt.utcfromtimestamp(CLOCK.t)
    tu.datetime = FakeDT
    time.time = lambda: float(CLOCK.t)
    n = 0
    for name, mod in list(sys.modules.items()):
        if not (name.startswith("idpyoidc") or name.startswith("cryptojwt")): continue
        for attr in ("utc_time_sans_frac", "time_sans_frac"):
            if hasattr(mod, attr):
                setattr(mod, attr, lambda: int(CLOCK.t)); n += 1
    return n
