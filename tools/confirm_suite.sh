#!/bin/bash
# confirm_suite.sh <seeded id>: apply the seeded patch to a scratch copy of /repo and run the repo's test suite there
ID=$1
D=$(mktemp -d /var/tmp/idpy-seeded.XXXXXX)
trap 'rm -rf "$D"' EXIT
cp -r /repo/. "$D"/ && cd "$D" && git checkout -q -- . && git apply /verif/seeded/$ID/patch.diff || { echo "$ID: patch does not apply"; exit 1; }
PYTHONPATH="$D/src" /venv/bin/python -m pytest -q --color=no -p no:cacheprovider --timeout=900 tests 2>&1 | tail -1 | sed "s/^/$ID suite: /"
