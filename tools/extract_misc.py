"""Translator plug-in: Gen/Reg.lean — the table the registration endpoint uses to decide which registration parameters are held against the
provider's metadata (register2preferred of the server's claims class, read off the live object), the algorithm parameters of the
registration request schema and the parameter names of the provider metadata schema (reflection)."""
import re


def generate(emit, lstr, lname, llist):
    from idpyoidc.message.oidc import RegistrationRequest, ProviderConfigurationResponse
    from idpyoidc.server.claims.oidc import Claims
    table = Claims.register2preferred
    out = ["namespace Idpy.Gen", ""]
    out.append("/-- `Claims.register2preferred` (server, OIDC): registration parameter ↦ provider metadata parameter -/")
    out.append("def register2preferred : List (String × String) := " + llist(f"({lname(k)}, {lname(v)})" for k, v in table.items()))
    out.append("/-- the algorithm parameters of `RegistrationRequest` (names ending in _alg / _enc) -/")
    out.append("def regAlgParams : List String := " + llist(lname(p) for p in RegistrationRequest.c_param if re.search(r"_(alg|enc)$", p)))
    out.append("def providerMetadataParams : List String := " + llist(lname(p) for p in ProviderConfigurationResponse.c_param))
    out += ["", "end Idpy.Gen", ""]
    emit("Reg", "\n".join(out))
