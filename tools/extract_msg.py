"""Message schemas and verify-override chains -> Gen/Schemas.lean"""
import ast
import importlib
import inspect
import pkgutil
import textwrap
import typing


def all_message_classes():
    import idpyoidc
    from idpyoidc.message import Message
    seen = {}
    for m in pkgutil.walk_packages(idpyoidc.__path__, "idpyoidc."):
        try:
            mod = importlib.import_module(m.name)
        except Exception:
            continue
        for n, o in inspect.getmembers(mod, inspect.isclass):
            if issubclass(o, Message) and o.__module__ == mod.__name__:
                seen[o.__module__ + "." + n] = o
    return dict(sorted(seen.items()))


def triple(spec):
    t, req, ser, deser, na = spec

    def tname(t):
        if isinstance(t, list):
            return "[" + tname(t[0]) + "]"
        if isinstance(t, tuple):
            return "(" + ",".join(tname(x) for x in t) + ")"
        if t is typing.Any:
            return "Any"
        return getattr(t, "__name__", repr(t))
    return (tname(t), getattr(ser, "__name__", "None"), getattr(deser, "__name__", "None"))


KIND = {
    ("str", "None", "None"): "str",
    ("int", "None", "None"): "int",
    ("bool", "None", "None"): "bool",
    ("[str]", "list_serializer", "list_deserializer"): "listStr",
    ("[str]", "sp_sep_list_serializer", "sp_sep_list_deserializer"): "spSep",
}


def verify_chain(cls):
    """[(defining class qualified name, chains_unconditionally)] for every class in the MRO that overrides verify"""
    from idpyoidc.message import Message
    out = []
    for k in cls.__mro__:
        if k is object:
            continue
        if "verify" in k.__dict__:
            if k is Message:
                out.append((k.__module__ + "." + k.__name__, True))
                continue
            try:
                src = textwrap.dedent(inspect.getsource(k.__dict__["verify"]))
                fn = ast.parse(src).body[0]
            except Exception:
                out.append((k.__module__ + "." + k.__name__, False))
                continue
            uncond = False
            for stmt in fn.body:                     # top-level statements only: not inside if/try/for
                for node in ast.walk(stmt) if isinstance(stmt, (ast.Expr, ast.Assign, ast.Return)) else []:
                    if isinstance(node, ast.Call) and isinstance(node.func, ast.Attribute) and node.func.attr == "verify":
                        v = node.func.value
                        if (isinstance(v, ast.Call) and isinstance(v.func, ast.Name) and v.func.id == "super") or \
                           (isinstance(v, ast.Name) and v.id[:1].isupper()):
                            uncond = True
            out.append((k.__module__ + "." + k.__name__, uncond))
    return out


def generate(emit, lstr, lname, llist):
    classes = all_message_classes()
    out = ["import IdpyVerif.Model.Msg", "namespace Idpy.Gen", "open Idpy.Msg", "",
           "structure ParamInfo where", "  name : String", "  kind : Kind", "  required : Bool", "  nullAllowed : Bool", "  triple : String", "  deriving Repr", "",
           "structure ClassInfo where", "  name : String", "  params : List ParamInfo", "  allowed : List String", "  verifyChain : List (String × Bool)", "  deriving Repr", ""]
    names = []
    nparams = 0
    for i, (qn, cls) in enumerate(classes.items()):
        ps = []
        for pn, spec in cls.c_param.items():
            tr = triple(spec)
            kind = KIND.get(tr, "other")
            ps.append(f"{{ name := {lname(pn)}, kind := .{kind}, required := {'true' if spec[1] is True else 'false'}, "
                      f"nullAllowed := {'true' if spec[4] else 'false'}, triple := {lname('/'.join(tr))} }}")
            nparams += 1
        chain = verify_chain(cls)
        out.append(f"def cls{i} : ClassInfo := {{ name := {lname(qn)}, params := " + llist(ps) + ", allowed := "
                   + llist(lname(a) for a in cls.c_allowed_values.keys()) + ", verifyChain := "
                   + llist(f"({lname(c)}, {'true' if u else 'false'})" for c, u in chain) + " }")
        names.append(f"cls{i}")
    out.append("")
    out.append("def classes : List ClassInfo := " + llist(names))
    out.append(f"def nClasses : Nat := {len(names)}")
    out.append(f"def nParams : Nat := {nparams}")
    out += ["", "end Idpy.Gen", ""]
    emit("Schemas", "\n".join(out))
