#!/bin/bash
# harvest.sh <ID-V> ... : apply the seeded change, run the quick check until it reports a violation, copy up to 3 failing cases of the replay
# into corpus/<ID>.json (deduplicated), undo the change.  The corpus runs first on every later run.
cd /verif
[ -n "$(git -C /repo status --porcelain)" ] && { echo "/repo is not clean"; exit 2; }
mkdir -p corpus
for d in "$@"; do
  P=${d%%-*}
  git -C /repo apply /verif/seeded/$d/patch.diff || { echo "$d patch-does-not-apply"; continue; }
  got=""
  for seed in 0 1 2 3; do
    out=$(VERIF_SEED=$seed ./check $P 2>&1)
    rp=$(echo "$out" | grep '^VIOLATION' | head -1 | sed 's/.*replay=\([^ ]*\).*/\1/')
    if [ -n "$rp" ] && [ -f "$rp" ]; then got=$rp; break; fi
  done
  git -C /repo checkout -q -- .
  if [ -z "$got" ]; then echo "$d NOT-CAUGHT"; continue; fi
  /venv/bin/python - "$P" "$d" "$got" <<'PY'
import json, sys, os
P, d, rp = sys.argv[1:4]
r = json.load(open(rp))
cases = []
for v in r.get("violations", [])[:3]:
    cases.append(v["case"])
for x in r.get("disagreements", [])[:3]:
    cases.append(x["case"])
for c in r.get("cases", [])[:3]:
    cases.append(c)
cp = f"/verif/corpus/{P}.json"
cur = json.load(open(cp)) if os.path.exists(cp) else []
seen = {json.dumps(e["case"], sort_keys=True) for e in cur}
n = 0
for c in cases:
    k = json.dumps(c, sort_keys=True)
    if k not in seen and n < 3 and len(k) < 20000:
        cur.append({"from": d, "case": c}); seen.add(k); n += 1
json.dump(cur, open(cp, "w"), indent=0)
print(d, "harvested", n, "cases ->", cp)
PY
done
