#!/bin/bash
# run_seeded_stream.sh <stream n> ID-V ... : run seeded changes without touching /repo or /verif.
# A private copy of the machinery (/tmp/hv<n>) and a private scratch worktree of /repo at its HEAD (/tmp/mutr/s<n>) per stream:
# several streams may run side by side, but never two checks with different VERIF_REPO in ONE copy (they race on lean/IdpyVerif/Gen).
n=$1; shift
rsync -a --delete --exclude .git --exclude replays /verif/ /tmp/hv$n/
mkdir -p /tmp/mutr
[ -d /tmp/mutr/s$n ] || git -C /repo worktree add -q --detach /tmp/mutr/s$n HEAD
git -C /tmp/mutr/s$n checkout -q -- . ; git -C /tmp/mutr/s$n checkout -q --detach "$(git -C /repo rev-parse HEAD)"
for d in "$@"; do
  /verif/tools/run_seeded_wt.sh /tmp/hv$n /tmp/mutr/s$n $d 2>/dev/null
done
# afterwards: git -C /repo worktree remove --force /tmp/mutr/s<n>; rm -rf /tmp/hv<n>
