#!/usr/bin/env python3
"""Writes MANIFEST.json from the table below (kept in one place so the file is always schema-valid)."""
import json, os
VERIF = os.path.dirname(os.path.dirname(os.path.abspath(__file__)))
NOTE = ("Trusted base: Lean 4.33 kernel (+leanchecker in the thorough tier); axioms subset of {propext, Classical.choice, Quot.sound}, audited by "
        "#print axioms on every run, no sorry/native_decide/bv_decide/own axioms; tools/extract.py regenerating Gen/*.lean from /repo; the "
        "correspondence harness (differential testing of the hand-written model against the real code in-process); idealised cryptography, "
        "fresh random identifiers, stdlib codecs at their interface. ")
CLAIMED = {
 "C14": dict(
   text="Lean theorems (all identifier strings, unbounded): lv_pack/lv_unpack round trip, DIVIDER join/split round trip and injectivity under the forced "
        "SepFree guard with counter-example theorems for the guard, session-id resolution; the literal model of the flat session db (set/delete/"
        "delete_sub_tree/revoke_tree/create/exchange/remove/flush) — for which key uniqueness over all histories and the locality of creation are proved — is tied to the code by correspondence on op histories with hostile identifiers and on trees built by the ENDPOINTS (logins, token exchange by other clients, client logout), "
        "and a tree-consistency/locality/node-identity oracle runs after every step.",
   note="Proved for the tree (literal model, every identifier string): one node per path in every reachable state (session_tree_keys_unique, "
        "over all operations); a created grant is stored as created, linked into its client and user node, and creation touches its own branch only "
        "(created_grant_is_stored, created_grant_is_linked, creation_is_local); a removed session is gone and nothing outside its branch changes "
        "(removed_grant_is_gone, removal_is_local); revocation at any level reaches every node below it through subordinate links at any depth, changes nothing else and never changes the shape of the tree (revoke_covers_subtree, revoke_is_local, revoke_keeps_tree); delete_sub_tree and the removal of a user take everything at or below the node, at any depth and also when branches share nodes, and nothing else (deleted_subtree_is_gone, subtree_deletion_is_local, deleted_user_is_gone). Database.delete at client level (with its unlinking from the parent) and the parent-link consistency invariant over all histories are checked by oracle + "
        "correspondence, not proved; Fernet idealised.",
   technique="Lean 4 proof (induction on strings) + model/implementation correspondence on operation histories", ref="6 C14"),
 "C17": dict(
   text="The relying-party side cookie module the anchors name (idpyoidc.client.cookie) has a model of its own (Model/ClientCookie.lean) with client_signed_roundtrip, client_enc_roundtrip, client_enc_unique_parse (the clear-text timestamp is the associated data), client_signed_unique_parse_partial (timestamps of one length) and the proved boundary-shift witness (F-C17-d, known: the repository's test pins the unframed tag); tie: make_cookie / parse_cookie on mutated and forged values. Lean theorems for every value/type/timestamp string and every crypto instance satisfying functional correctness (Sound): round trip in "
        "the four key configurations under the forced separator guards (with counter-example theorems for the guards), unique parse of "
        "authenticated bytes in signed+encrypted mode under ciphertext integrity and in signed-only mode under MAC unforgeability "
        "(signed_unique_parse: the MAC input frames payload and timestamp, lv_pack is injective — pack_injective — so no boundary can move; "
        "concatenation_is_not_injective documents what the repaired format prevents); the model is tied to CookieHandler by correspondence on round trips and structural mutations of genuine cookies.",
   note="HMAC/AES-GCM/Fernet/base64 are parameters of the model; their values on the needed points are supplied to the driver by the harness. "
        "Client-side cookie code not modelled.",
   technique="Lean 4 proof (decision logic over an abstract crypto interface + length-value framing lemmas) + correspondence on mutated cookies", ref="6 C17"),
 "C03": dict(
   text="Lean theorems over the provider core model, for every configuration and every operation history (induction over op lists): a token that is "
        "revoked, expired or removed stays dead for ever (dead_is_final) and no endpoint step honours it again (never_honoured_again: userinfo, "
        "introspection, refresh, token exchange, code redemption); revocation of a grant, of a client session (logout-one), logout from all "
        "clients and of a single token kills exactly the tokens the property names — a recursive token revocation every token derived from it through ANY number of based_on links (revoke_token_cascades, by an acyclicity invariant of reachable states) — (cascade theorems incl. logout_all_cascades, using the "
        "proved identity invariant of reachable states); revocation and removal are "
        "local (frame theorems incl. revoke_token_is_grant_local: a token revocation, recursive or not, leaves every token of every other grant as it was). Tie: per-step correspondence of outcomes and full token/grant projections on generated histories + a reference "
        "liveness oracle probing every token at userinfo and introspection after every step.",
   note="Token exchange is in the model (opaque handlers; with JWT handlers the JWT's own exp is not modelled); a token exchanged by ANOTHER client "
        "is not reached by the recursive revocation of its ancestors: known finding F-C03-b; cryptography/token codecs idealised as fresh handles (C04 covers resolution).",
   technique="Lean 4 proof: invariants by induction over operation histories of a state-machine model + model/implementation correspondence", ref="6 C03"),
 "C02": dict(
   text="Lean theorems over the provider core model: redeem_at_most_once — in every history from the initial state (any users, clients, codes, "
        "any interleaving of parse_request/process_request steps) the token endpoint delivers tokens for one code at most once (induction over "
        "histories, using the proved reachable-state invariants Inv/ClsInv/PendInv and the integer-bounded analysis of the `used -= 1` counter "
        "dance); delivery_facts — a delivering step implies issuing client, matching redirect_uri, code unused/unrevoked/unexpired and live "
        "grant at minting time; replay_revokes / replay_revokes_transitively for the OIDC endpoint (everything derived from the replayed code, at any depth). Tie: ALL interleavings of 2 and 3 concurrent redemptions + generated "
        "histories (incl. PKCE-bound codes, requests with a claims parameter, single sign-on via session cookies to the client's other redirect_uri), per-step correspondence of outcome and counters, independent delivery-counting oracle.",
   note="Interleaving granularity is the API step; thread-level races inside one call are runtime behaviour outside the model. ID-token signing failure path not exercised.",
   technique="Lean 4 proof: history invariant by induction + decision-logic theorems; exhaustive schedule enumeration for the correspondence", ref="6 C02"),
 "C05": dict(
   text="The resource-indicator configuration of the OAuth2 token endpoint is exercised by the oracle only (F-C05-a known: there the response states the policy-filtered request scope). deny_unknown_scopes (provider preference or the client's own setting) is part of the model's authorization step: deny_unknown_refuses (a request naming a scope outside what the client may use creates nothing) and deny_unknown_grants_exactly. Lean theorems on the provider core model. History invariant, by induction over ALL API-step histories (authorize, code redemption with "
        "parse/process interleaved, refresh with or without explicit scope, token exchange by the owning or another client, revocations, logouts, "
        "removals, clock): every token the provider holds, however long its minting chain, carries a scope within the scope recorded for its own "
        "grant (scope_bounded), an exchange delivers only within the subject token's scope and within what was asked (exchange_never_widens, "
        "exchange_within_original_grant), and what introspection reports is within the grant's scope (introspection_scope_bounded); decision logic: the grant records the request scope filtered by the client's allowed scopes, an "
        "authorization stores a code with exactly that scope, a refresh with an explicit scope delivers only within the find_scope bound and "
        "states exactly that scope. Tie: histories against the real provider with per-step scope projection of every stored token; oracle: "
        "scope(token) within scope(grant) and the three views response / JWT / introspection agree.",
   note="Client-credentials and password grants and deny_unknown_scopes are not in the provider core model; token exchange is modelled for opaque token handlers.",
   technique="Lean 4 proof (invariant by induction over operation histories + decision logic) + model/implementation correspondence on histories", ref="6 C05"),
 "C10": dict(
   text="Lean theorems, generic in the schema and unbounded in message size: dict/JSON round trip and form-encoding round trip (equal up to the "
        "textual rendering of integers and booleans) for every message valid for its schema; percent-decoding inverts percent-encoding on every "
        "byte string; encoded values contain no separator; parse_qsl(urlencode ps) = ps. The schemas of all Message subclasses (109 classes, "
        "~860 parameters today) are regenerated from the source on every run and the table obligations (every parameter of a modelled kind "
        "or of a known-opaque triple; modelled share >= 85 %) are re-decided by the kernel. Tie: per class x parameter x format cell "
        "correspondence of serialised form, percent-encoded text and deserialised value (the urlencoded form also as the relying party puts it on the wire for a GET request), plus codec correspondence on hostile strings.",
   note="PARTIAL for opaque kinds (nested messages, JSON objects, identity-assurance specials: ~10 % of parameters): real round-trip only where "
        "generated; JSON text codec and JWS/JWE idealised; negative integers and message-level multi-parameter interactions beyond the pointwise law not modelled.",
   technique="Lean 4 proof (generic round-trip laws + kernel-decided obligations over translator-regenerated schema tables) + cell correspondence", ref="6 C10"),
 "C11": dict(
   text="Lean theorems: verify ok implies every required parameter present and non-empty and every enumerated value inside its set (generic "
        "in the schema); a subclass whose overrides all chain reaches the generic check (chain_reaches_generic) with a proved counter-example "
        "for a non-chaining override; typed slots store the value itself or one of three lossless coercions, everything else is rejected "
        "(typed_slot_lossless, wrong_type_rejected). The verify-override chain of every Message subclass is regenerated from the source (AST) "
        "on every run and the kernel re-decides that exactly the two known classes do not chain. Tie: exhaustive cell check on the real "
        "classes (each required parameter removed/emptied, each enumerated parameter outside its set, each typed parameter given every other "
        "JSON type) + correspondence of the generic verify and of _add_value with the model; the cross-parameter rules of the seven classes that carry one (provider configuration, authorization request, client metadata, registration request / response, ID token audience, logout token) are modelled and proved to accept only what the rule states (…_accept theorems), tied by truth tables over the real classes; logout tokens as the relying party's back-channel handler consumes them.",
   note="Cross-field rules of the remaining subclasses (identity assurance, CIBA, device flow) are exercised by the oracle on the real code only; embedded signed objects are covered by C16/C08.",
   technique="Lean 4 proof (decision logic + kernel-decided obligation over the regenerated verify-chain table) + exhaustive cell correspondence", ref="6 C11"),
 "C06": dict(
   text="Lean theorems: acceptance by verify_uri implies a registered URI with equal scheme, path, params, query multimap, no fragment and equal "
        "authority up to the native-loopback port rule (accept_means_registered), unclean/fragment/host-less values never verify; delivery: in "
        "query and fragment mode the delivered string starts with the accepted URI and what follows the delimiter parses back to exactly the "
        "issued parameters, encoded values contain none of & = # ? space (value_cannot_escape); form_post: the escaped form of ANY string "
        "contains no < > \" ' and an HTML parser recovers the issued value (escape_has_no_markup, unescape_escape); the end-session endpoint redirects only to a post_logout_redirect_uri registered for the client the ID token hint names (post_logout_target). Tie: endpoint-level "
        "correspondence on component-wise mutated redirect URIs (incl. dropped / foreign query parts) for a web, a native and two self-registered clients (one native, loopback URIs), RP-initiated logout with mutated post-logout URIs, and on full responses in the three modes with "
        "hostile state values; independent oracle with the RFC 3986 Appendix B split and html.parser.",
   note="PARTIAL: urllib's unquote/urlparse/parse_qs are at the interface (their components are inputs of the model); agreement of urllib with the "
        "RFC split on clean strings is checked per case by the oracle, not proved.",
   technique="Lean 4 proof (decision logic over parsed components; codec lemmas for delivery and HTML escaping) + endpoint correspondence on mutated URIs", ref="6 C06"),
 "C15": dict(
   text="Lean theorems for every string and every hash function H (uninterpreted): a token request passes PKCE only with a verifier that transforms "
        "under the RECORDED method to exactly the stored challenge (verifier_required_and_bound), missing/wrong verifier refused, the recorded "
        "method is the requested one and configured (no downgrade), essential PKCE enforced over the full global x per-client-override truth "
        "table, unsupported methods refused, and every pair produced by the relying party's add-on is accepted (rp_pair_accepted); the method "
        "tables of both halves are regenerated from the source and the kernel re-decides client methods subset of server methods. Tie: both "
        "legs through the real authorization and token endpoints over configurations x verifier mutations x delivery (plain parameters, request object by value, by reference), and real client add-on pairs.",
   note="SHA-2/base64 are the parameter H (values computed by the harness with hashlib); code resolution and token minting are C04/C02.",
   technique="Lean 4 proof (decision logic, hash uninterpreted; kernel-decided table obligations) + endpoint correspondence", ref="6 C15"),
 "C01": dict(
   text="Lean theorems over a literal model of verify_client (method loop, 'other exception means next method', jti recorded before the per-client "
        "filter, secret expiry): accept_sound — a request is treated as client X via method m only if m is in the endpoint's list, allowed by "
        "X's registration, X's secret unexpired and the request carries X's credential for m (Basic/POST secret equal to the stored one; "
        "assertion that unpacks under the issuer's keys, right algorithm family for the method, oct key = stored secret, audience = endpoint, "
        "issuer = X, jti not in the replay cache); replayed_assertion_not_accepted + jti_monotone — once (iss,jti) is recorded no JWT method "
        "accepts it after any number of intervening requests; no_jti_is_replayable — proved counter-example for the stronger reading (F-C01-a); acted_for_means_credential — what Endpoint.parse_request "
        "hands to the endpoint-specific code as an authenticated request of X carried X's credential, whatever client_id the body claims. "
        "Tie: histories against the real token/introspection/revocation/userinfo endpoints with credentials built concretely by cryptojwt; "
        "outcome, the request handed on (client_id, authenticated) and replay-cache size compared after every request, through the whole of "
        "parse_request, with a token endpoint that also serves public clients, body parameters naming another client or declaring the request "
        "authenticated, export/import into a fresh instance inside the histories, assertions valid for a day replayed after pauses of hours; ground-truth oracle.",
   note="JWS signature verification and exp enforcement are inside cryptojwt (field `unpack`, computed by the harness by calling cryptojwt directly); "
        "request_param and bearer_body methods not modelled; 'refused yields no tokens' is exercised through C02/C03 harnesses rather than here.",
   technique="Lean 4 proof (decision logic + monotone replay-cache invariant over request histories) + endpoint correspondence with concrete credentials", ref="6 C01"),
 "C16": dict(
   text="Encrypted request objects are part of the cases (only encrypted = an unsigned object, F-C16-i fixed; encrypted around a signed one): to the policy the encryption layer is transparent. PAR histories move between two live provider instances by export / import. Lean theorems: by value — if a request object takes effect it verified under the identified client's keys, used an algorithm permitted for "
        "that client (registered value, else the provider's list), names exactly that client, and ALL effective parameters are the object's; "
        "unsigned objects are refused when a signing algorithm is registered; wrong key / non-permitted algorithm / other client refused; by reference (fetched from the request_uri) — by_reference_sound: what takes effect was signed by the identified client with a permitted algorithm, names no other issuer, and lies over the outer parameters (overlay lemmas), with the proved witness by_reference_other_client_takes_effect for the clause the code does not enforce there (known finding F-C16-h). PAR — "
        "par_one_shot: in every history of pushes, redemptions (any client, any URN, any number of replays) and clock advances each URN is "
        "honoured at most once (induction with a freshness/no-duplicates invariant), unknown URNs refused; redeem_proceeds: a redemption "
        "proceeds only for an issued URN, only for the client that pushed it, only while now <= push time + announced lifetime, with the "
        "stored request. Tie: request objects built concretely with "
        "cryptojwt across signer x inner client_id x registered-algorithm clients through the real authorization endpoint (OIDC and OAuth2 flavour) by value and by reference (in-memory transport), request objects pushed by PAR, and PAR histories "
        "through the real pushed-authorization + authorization endpoints.",
   note="JWS verification idealised (field `verifies` from the harness's knowledge of the signing key); the HTTP fetch of a request_uri is replaced by an in-memory transport; "
        "registered request_uris matching and JWE not modelled.",
   technique="Lean 4 proof (decision logic + one-shot history invariant by induction) + endpoint correspondence with concrete request objects", ref="6 C16"),
 "C19": dict(
   text="Lean theorems: admission_table — over the whole finite space application type x response-type class x scheme class x loopback x fragment "
        "the code admits exactly what the rule written from the property allows (exhaustive case analysis, kernel-checked); a stored client has "
        "only admissible URIs and consistent metadata; a rejected request leaves the state unchanged (after the fix); ids, secrets and tokens of "
        "every registration are fresh and pairwise distinct in every reachable state (invariant by induction over registration histories); "
        "read_isolated — the registration access token issued to X reads X and no other client, unknown tokens refused; capability matching of a single-valued parameter (filter_client_request / match_claim): what is stored for a parameter the filter table knows is a value the provider announces, anything else is dropped (filtered_value_is_announced, unannounced_value_dropped), and — over the table, the registration schema and the metadata schema REGENERATED from the source on every run — every algorithm parameter of the schema is in the table (every_alg_param_is_filtered, kernel-decided; registered_algorithms_are_announced). Tie: histories of "
        "registrations and reads through the real registration and registration-read endpoints; oracle with the rule on the URI string, "
        "database/token-map diff on rejection, distinctness, echo = stored; registrations against narrowed capability sets (stored and echoed values within what is announced).",
   note="Capability matching of list-valued parameters (intersection), sector_identifier fetch and split_uri/comb_uri are not modelled (echo and metadata consistency are oracle-checked); "
        "URI features are computed with urllib at the interface.",
   technique="Lean 4 proof (exhaustive decision table + freshness invariant by induction + kernel-decided obligation over translator-regenerated tables) + endpoint correspondence on registration histories", ref="6 C19"),
 "C18": dict(
   text="Lean theorems for every user id, salt, sector and every hash H: the four publication points publish the grant's sub whatever attributes the user record holds (sub_consistent; a user attribute named sub never replaces it, after the fix); sub is stable across logins; public "
        "subjects equal across clients; pairwise subjects agree within a sector and — under the explicit hypothesis Function.Injective H — "
        "differ between sectors; different users get different public subjects; ephemeral subjects differ per grant; a public/pairwise sub is an "
        "image of H (the model's form of opacity); the endpoints compute the sub from the client's registered type and sector. Tie: login "
        "sequences of several users (Unicode ids) at seven clients through the real authorization/token/userinfo/introspection endpoints with "
        "JWT access tokens, with the provider exported and imported into a fresh instance between logins: the model's preimage hashed with hashlib must equal the delivered sub; relational oracle across logins.",
   note="SHA-256 is the parameter H; collision-freedom is a hypothesis of two theorems, preimage resistance a cryptographic assumption outside Lean; "
        "custom sub_func classes (PublicID/PairWiseID with their own salt) are not driven.",
   technique="Lean 4 proof (equational reasoning with an injective-hash hypothesis) + endpoint correspondence on login sequences", ref="6 C18"),
 "C07": dict(
   text="Lean theorems, for every configuration, scope-claim list, claims-parameter object and user record: the restriction for a release point "
        "mentions only keys from base claims, always-add claims, scope-derived claims (only with add_claims_by_scope) and the request's claims "
        "for that point (restriction_upper_bound, with dict.update semantics); every released attribute is named by the restriction, equals the "
        "stored attribute and matched its individual request (release_upper_bound, released_is_permitted); value/values requests only remove "
        "(claims_match_monotone); nothing for a missing attribute; the configuration that applies at a release point is the client's own when per-client rules are on and the module's otherwise, a hybrid-flow ID token does not inherit userinfo rules unless configured (resolvePoint / secondaryOf theorems), and introspection / token exchange answer a caller outside the token's audience with nothing (aud_gate_sound, outsider_sees_nothing). Tie: flows (code and id_token-only) on one long-lived provider over "
        "per-point configurations x clients x random scopes x claims objects, hybrid response types, refresh, token exchange by the owner and by another client, logout or revocation (with token_type_hint) followed by probes; released attribute set at the release points compared with the "
        "model; oracle: subset of the permitted bound, values equal stored, and the same flow on a fresh provider releases the same set.",
   note="scopes_to_claims is computed by the harness from the configuration it wrote; history "
        "independence is an oracle (aged vs fresh provider) here and a separation property in C20; invalid-token / audience clauses are C03/C04.",
   technique="Lean 4 proof (set-algebra upper bounds over association lists) + endpoint correspondence at the four release points", ref="6 C07"),
 "C04": dict(
   text="Lean theorems with NO assumption on the cipher/JWS layer (the handler layer is an arbitrary function `decode`): whatever an endpoint "
        "honours is string-equal to a token this provider minted, of a class the slot accepts and still active (honoured_is_minted, from the "
        "exact-value lookup); every string not equal to a minted value is refused in every slot (unminted_refused); with unique token values "
        "the answering session is the minting one; the full slot x class separation table; genuine tokens of a wrong class refused; a bearer token accepted as CLIENT authentication is a live access token of this provider (bearer_auth_needs_live_access_token). Tie: "
        "worlds with many live sessions, byte-level and structural mutations of every genuine token (bit flips, truncation, extension, "
        "alphabet change, JWT segment swaps, alg rewrites, payload edits, re-signing with foreign keys, session ids as tokens) offered in "
        "every slot of every endpoint (incl. bearer client authentication with a claimed client_id, token exchange subject slots, the session manager's own lookups, providers sharing JWT keys); oracle: honoured implies minted with accepted class; refused probes leave the state unchanged. "
        "The handler layer ITSELF is a second model (Model/Handler.lean: DefaultToken.info = decrypt, lv_unpack, class-tag test; TokenHandler.get_handler and what it swallows; the session manager's class slot; cipher idealised; class tags and handler order regenerated from the source as Gen.handlerTags with the obligation generated_tags_ok): genuine_token_found_by_own_handler (whatever keys the handlers use, one shared key included, whatever the order), handler_accepts_only_own_key_and_tag, genuine_token_refused_in_other_slot, genuine_token_resolves_to_its_sid; tie: hostile plaintexts (missing / extra fields, foreign and alternative tags, wrong length prefixes, white space) encrypted under the real keys against the model, per handler, through get_handler and get_session_info_by_token.",
   note="JWTToken.info sits at the interface (`decode`); 'expired signature' and 'foreign key' refusals are observed by "
        "correspondence; accepting behaviour of the mutating slots is C02/C03; Python's int() leniencies in a length prefix (sign, blank, underscore) are outside the LV model's domain and not generated.",
   technique="Lean 4 proof (decision logic, crypto-independent) + mutation correspondence at every endpoint slot", ref="6 C04"),
 "C13": dict(
   text="Lean theorems: (export/import) load of a dump into a fresh instance is the identity on every attribute that is exported or re-derived by "
        "the constructor (restore_exact), with the counter-example for an unexported attribute, dump∘load∘dump = dump, and the generated table "
        "obligation that every attribute a constructor of any ImpExp subclass assigns is exported or on a justified configuration list "
        "(all_state_exported, over parameter tables and constructor ASTs regenerated from /repo); equal states have equal futures in the provider "
        "core model. (file store) for every sequence of set/get/del/contains/keys/len/clear/new-instance over well-formed keys, a NEW instance over "
        "the directory answers get and lists keys exactly like a plain dictionary (fresh_instance_sees_dictionary, fresh_instance_lists_dictionary, "
        "by a representation invariant over the directory incl. lock files and the instance cache); URL-shaped keys are well-formed under "
        "quote_plus; counter-examples outside the guard ('.lock' keys, pass-through values with surrounding whitespace). Tie: crash-point "
        "correspondence — generated provider histories with export / discard / import before every step, at subsets and single points, via "
        "session manager, endpoint context and JSON text, opaque and JWT handlers, three ways of pinning keys — against the Lean provider model "
        "(restore must be the identity) and against the unrestored run; per-object ImpExp model vs restored attributes; registration / jti / PAR / "
        "CIBA state across restores; file-store operation sequences on real directories vs the Lean model.",
   note="Relying-party side: the service context (Current state store, registration, provider info) is exported / imported between the steps of multi-flow histories and "
        "compared with C09's state model; the services' own dump is not exercised. JSON value syntax, mtime granularity and concurrent writers of the file store are not modelled.",
   technique="Lean 4 proof (invariant by induction over file-store operations; generic dump/load law + generated table obligation) + crash-point correspondence", ref="6 C13"),
 "C08": dict(
   text="Lean theorems over a model of verify_id_token + IdToken.verify + the service-level nonce checks: acceptance — through the message API "
        "(accept_msg_valid) and through parse_response + post_parse_response / update_service_context (accept_service_valid) — implies the whole "
        "conjunction of the property: alg none only with explicit permission; otherwise signed, over exactly this header and payload, by a key "
        "the key jar holds for the EXPECTED issuer (or the shared client secret with an HMAC algorithm) with the algorithm the RP asked for; iss, "
        "aud, azp (required with several audiences), the exp/iat window with skew and nonce storage time, the nonce bound to the pending flow "
        "the response is processed for (at the token endpoint through the nonce->state map), at_hash/c_hash at the authorization endpoint. "
        "Corollaries: the algorithm is always the registered/configured/default one on the service path; outsiders (foreign keys, the issuer's "
        "public key as HMAC secret, keys of another known issuer) are never accepted; a rejected token is never stored. Tie: a real "
        "StandAloneClient with pending flows; genuine tokens signed by the harness and every single and random multiple mutation of claims, "
        "header and signer under RP settings (incl. a client restored from an exported state and non-default clock skew), delivered through both APIs at the authorization, token and refresh paths and after a token exchange; outcome and storage compared with the model; "
        "plus an RPHandler serving two discovered, dynamically registered issuers (tokens under the other issuer's registration secret); oracle: an independent validator of the conjunction.",
   note="JWS verification and cryptojwt's key selection are the decision function sigOk over who signed (trusted: signature soundness); JWE-wrapped ID tokens and "
        "several keys of one family with a missing kid are not exercised.",
   technique="Lean 4 proof (decision logic, acceptance implies conjunction) + mutation correspondence through message and service APIs", ref="6 C08"),
 "C09": dict(
   text="Lean theorems over a model of the relying party's state store (Current: _db and the shared nonce/sub map) and of init_authorization / "
        "finalize_auth / token-response / user-info handling, with RPHandler's per-issuer dispatch: unknown, missing and foreign-issuer states "
        "are rejected; iss / client_id response parameters naming another party are rejected; an ID token whose nonce is not the one sent for the "
        "state the response is processed for is rejected whatever the map says (cross_nonce_rejected); in hybrid flows the access token and the code beside an ID token are the ones its at_hash / c_hash bind (authz_accept_hashes, foreign_access_token_rejected); an aud response parameter naming somebody else is refused rather than switching checks off (aud_param_for_somebody_else_rejected); user info about another subject is "
        "rejected; every rejection leaves the store untouched (reject_is_noop); an accepted response changes only the record of its own state "
        "(accept_is_local) and no other issuer's client (deliver_other_clients_untouched); and, by induction over ALL histories of begins and "
        "deliveries with arbitrary recombination, every recorded ID token carries the nonce sent for its state "
        "(recorded_token_has_own_nonce). Tie: histories over a real RPHandler with two issuers played by the harness, several pending flows, "
        "responses recombined across flows and issuers, plain OAuth2 clients beside OIDC ones; outcome and a canonical dump of every client's store compared with the model after "
        "every step; oracle: locality, no-op on rejection, nonce and subject of recorded data.",
   note="Validity of the ID tokens themselves is C08; logout bookkeeping (sid) and the composite RPHandler.finalize are checked by the oracle only.",
   technique="Lean 4 proof (invariant by induction over operation histories of a state-store model) + history correspondence with per-step store dump", ref="6 C09"),
 "C12": dict(
   text="Cells also run with the provider's state exported / imported (JSON) between the legs of a flow (F-C12-k fixed) and with a grant shorter-lived than its access tokens. Lean theorems over the whole (finite) cell type of the configuration product — 301 056 cells, all seven response types: every cell whose response placement is "
        "defined completes whatever the other nine dimensions are (supported_cells_complete); a flow is refused exactly for the two "
        "response_type x response_mode conflicts (refused_iff), one required by the specification, one not (code_fragment_refused, a known "
        "finding); what a completed flow consists of — calls in order, artefacts, ID-token encryption, refresh token only with offline access "
        "(completed_flow_shape: a token in the authorization response makes the relying party skip the token endpoint); the sub views agree (C18). Tie: real StandAloneClient against real provider in one process with discovery and "
        "dynamic registration; pairwise covering array + every value on the base shape (quick), thousands of random cells (thorough); per cell "
        "the placement, call sequence and artefacts are compared with the model; oracle: the flow completes and client / sub / scope / nonce / "
        "expiry (incl. the RP's own expiry bookkeeping) agree between the RP, the provider's session, the token response, the JWT access token, introspection and userinfo.",
   note="PARTIAL by construction: the theorems are about protocol and negotiation logic; that the serialisers and JOSE layers of both halves agree in a cell is "
        "observed for the cells run (the evidence says how many of the product), not proved. "
        "",
   technique="Lean 4 proof over the finite cell type (case analysis, no sampling) + in-process RP<->OP correspondence with cross-view oracle", ref="6 C12"),
 "C20": dict(
   text="Lean theorems over a heap model of Python containers (cells with references, allocation pointer): copy.deepcopy allocates and never "
        "shares (deepcopy_fresh, by induction over the nesting depth); a structural snapshot of static state is the same in every store that "
        "agrees below the allocation bound (snap_frame); the usage-rules flow — AuthzHandling.usage_rules followed by the token helper's "
        "append to supports_minting — AS THE CODE HAS IT writes no cell that existed before the request, for every heap and every rules value "
        "(usage_flow_static_unwritten), with concrete heaps on which the code before the fixes does; per-request settings kept in a "
        "request-local cell leave static state alone, kept on the endpoint / class table they overwrite it. The flow variant that applies is "
        "read off /repo's AST on every run (Gen/Flows.lean, obligation flows_as_modelled). Tie: one long-lived provider and client; after "
        "EVERY request a deep structural snapshot of ~500 static roots (every Message subclass's c_param / c_default / c_allowed_values, "
        "module constants, endpoint and handler attributes, authz / claims configuration, provider_info, client records minus auth_method) "
        "is compared with the one before the batch and with the model's prediction; alias graph static ∩ dynamic reported; history-freedom "
        "probes (aged vs fresh instance); several relying parties building registration requests in one process.",
   note="PARTIAL: the theorems cover the transcribed flows (usage rules, per-request settings); for all other static state the claim 'unchanged' is the trivial frame and "
        "only the snapshot comparison covers it. Thread-level interleavings are outside the model.",
   technique="Lean 4 proof (heap model: deepcopy freshness by induction + frame theorem; flow variant generated from the AST) + snapshot/alias-graph correspondence", ref="6 C20"),
}
NOT_YET = {}
ALL = [f"C{i:02d}" for i in range(1, 21)]

def main():
    checks = []
    for pid in ALL:
        if pid not in CLAIMED:
            continue
        c = CLAIMED[pid]
        checks.append({
            "property_id": pid,
            "quick_cmd": f"./check {pid} --tier quick",
            "thorough_cmd": f"./check {pid} --tier thorough",
            "evidence_file": f"/verif/evidence/{pid}.json",
            "replay_cmd_template": f"./check {pid} --replay {{path}}",
            "engine": "lean4-model+correspondence",
            "level_claimed": {"category": "proof", "text": c["text"], "design_ref": c["ref"]},
            "level_note": NOTE + c["note"],
            "technique": c["technique"],
        })
    na = [{"property_id": p, "reason": NOT_YET.get(p, "no check registered yet: model and correspondence for this property are still being built (see DESIGN.md section 6); not claimed")}
          for p in ALL if p not in CLAIMED]
    m = {
        "version": 1,
        "setup_cmd": "cd /verif && /venv/bin/python tools/extract.py && cd lean && lake build",
        "hooks": {"guard": "IDPYOIDC_VERIF", "enable": "no source hooks are needed: clock and randomness are controlled from the harness; the guard is unused",
                  "baseline_off_cmd": "/verif/tools/baseline.sh", "source_commits": [], "add_only": True},
        "engines": [{"name": "lean4-model+correspondence", "path": "/verif/check", "serves_properties": [c["property_id"] for c in checks],
                     "kind_free_text": "Lean 4 models + theorems (lean/), translator tools/extract.py, Python correspondence harness harness/"}],
        "checks": checks,
        "not_applicable": na,
        "notes": "See DESIGN.md. known_findings.json lists genuine defects (known / fixed).",
    }
    json.dump(m, open(os.path.join(VERIF, "MANIFEST.json"), "w"), indent=1)

if __name__ == "__main__":
    main()
