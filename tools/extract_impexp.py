"""ImpExp subclasses: exported parameters vs attributes assigned in __init__ -> Gen/ImpExp.lean"""
import ast
import importlib
import inspect
import pkgutil
import textwrap


def all_impexp_classes():
    import idpyoidc
    from idpyoidc.impexp import ImpExp
    seen = {}
    for m in pkgutil.walk_packages(idpyoidc.__path__, "idpyoidc."):
        try:
            mod = importlib.import_module(m.name)
        except Exception:
            continue
        for n, o in inspect.getmembers(mod, inspect.isclass):
            if issubclass(o, ImpExp) and o is not ImpExp and o.__module__ == mod.__name__:
                seen[o.__module__ + "." + n] = o
    return dict(sorted(seen.items()))


def init_attrs(cls):
    from idpyoidc.impexp import ImpExp
    attrs = set()
    for k in cls.__mro__:
        if k in (object, ImpExp) or "__init__" not in k.__dict__:
            continue
        try:
            src = textwrap.dedent(inspect.getsource(k.__dict__["__init__"]))
            fn = ast.parse(src).body[0]
        except Exception:
            continue
        for n in ast.walk(fn):
            tg = []
            if isinstance(n, ast.Assign):
                tg = n.targets
            elif isinstance(n, (ast.AnnAssign, ast.AugAssign)):
                tg = [n.target]
            for x in tg:
                if isinstance(x, ast.Attribute) and isinstance(x.value, ast.Name) and x.value.id == "self":
                    attrs.add(x.attr)
    return sorted(attrs)


def generate(emit, lstr, lname, llist):
    classes = all_impexp_classes()
    out = ["import IdpyVerif.Base", "namespace Idpy.Gen", "",
           "structure IEClass where", "  name : String", "  exported : List String", "  special : List String", "  initArgs : List String", "  initAttrs : List String", "  deriving Repr", ""]
    names = []
    for i, (qn, cls) in enumerate(classes.items()):
        out.append(f"def ie{i} : IEClass := {{ name := {lname(qn)}, exported := " + llist(lname(k) for k in cls.parameter.keys())
                   + ", special := " + llist(lname(k) for k in cls.special_load_dump.keys())
                   + ", initArgs := " + llist(lname(k) for k in cls.init_args)
                   + ", initAttrs := " + llist(lname(a) for a in init_attrs(cls)) + " }")
        names.append(f"ie{i}")
    out.append("")
    out.append("def ieClasses : List IEClass := " + llist(names))
    out += ["", "end Idpy.Gen", ""]
    emit("ImpExp", "\n".join(out))
