#!/venv/bin/python
"""Refresh the generated tables of DESIGN.md section 9 (findings, seeded changes) in place."""
import os
import re
import mkdesign_tables as T

p = os.path.join(T.V, "DESIGN.md")
d = open(p).read()
for name, fn in (("FINDINGS", T.findings), ("SEEDED", T.seeded)):
    d = re.sub(rf"<!-- TABLE:{name} -->.*?<!-- /TABLE:{name} -->", lambda m: f"<!-- TABLE:{name} -->\n{fn()}\n<!-- /TABLE:{name} -->", d, flags=re.S)
open(p, "w").write(d)
