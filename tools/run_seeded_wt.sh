#!/bin/bash
# run_seeded_wt.sh <machinery copy> <scratch worktree of /repo> ID-V ... : like run_seeded.sh, but leaves /repo and /verif alone:
# each seeded change is applied in the scratch worktree and checked by a scratch copy of the machinery (VERIF_REPO=<worktree>).
M=$1; WT=$2; shift 2
for d in "$@"; do
  P=${d%%-*}
  git -C $WT checkout -q -- .
  if ! git -C $WT apply --check /verif/seeded/$d/patch.diff 2>/dev/null; then echo "$d patch-does-not-apply"; continue; fi
  git -C $WT apply /verif/seeded/$d/patch.diff
  out=$(cd $M && VERIF_SEED=${VERIF_SEED:-0} VERIF_REPO=$WT ./check $P 2>&1); rc=$?
  git -C $WT checkout -q -- .
  v=$(echo "$out" | grep -c '^VIOLATION')
  echo "$d rc=$rc violation_lines=$v $(echo "$out" | tail -1 | grep -o 'disagreements=[0-9]* violations=[0-9]*')"
done
