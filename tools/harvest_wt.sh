#!/bin/bash
# harvest_wt.sh ID-V seed : run the property's check (in /verif, VERIF_REPO = scratch worktree with the change) and add failing cases to corpus/Cxx.json
d=$1; seed=${2:-0}; P=${d%%-*}; WT=/tmp/mutr/harvest; [ -d $WT ] || { mkdir -p /tmp/mutr; git -C /repo worktree add -q --detach $WT HEAD; }
git -C $WT checkout -q -- . ; git -C $WT checkout -q --detach $(git -C /repo rev-parse HEAD); git -C $WT apply /verif/seeded/$d/patch.diff || exit 1
out=$(cd /verif && VERIF_SEED=$seed VERIF_REPO=$WT ./check $P 2>&1)
git -C $WT checkout -q -- .
rp=$(echo "$out" | grep '^VIOLATION' | head -1 | sed 's/.*replay=\([^ ]*\).*/\1/')
[ -n "$rp" ] && [ -f "$rp" ] || { echo "$d NOT-CAUGHT under seed $seed"; exit 0; }
/venv/bin/python - "$P" "$d" "$rp" <<'PY'
import json, sys, os
P, d, rp = sys.argv[1:4]
r = json.load(open(rp))
cases = [v["case"] for v in r.get("violations", [])[:2]] + [x["case"] for x in r.get("disagreements", [])[:2]]
cp = f"/verif/corpus/{P}.json"
cur = json.load(open(cp)) if os.path.exists(cp) else []
seen = {json.dumps(e["case"], sort_keys=True) for e in cur}
n = 0
for c in cases:
    k = json.dumps(c, sort_keys=True)
    if k not in seen and n < 2 and len(k) < 20000:
        cur.append({"from": d, "case": c}); seen.add(k); n += 1
json.dump(cur, open(cp, "w"), indent=0)
print(d, "harvested", n, "cases ->", cp)
PY
