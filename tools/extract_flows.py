"""Where the transcribed C20 data flows write: read off the source (AST) -> Gen/Flows.lean"""
import ast
import inspect
import textwrap


def _fn(obj):
    return ast.parse(textwrap.dedent(inspect.getsource(obj))).body[0]


def _is_deepcopy(node):
    return isinstance(node, ast.Call) and ((isinstance(node.func, ast.Attribute) and node.func.attr == "deepcopy") or
                                           (isinstance(node.func, ast.Name) and node.func.id == "deepcopy"))


def generate(emit, lstr, lname, llist):
    from idpyoidc.server.authz import AuthzHandling
    from idpyoidc.server.oauth2.token_revocation import TokenRevocation
    from idpyoidc.server.oidc.userinfo import UserInfo
    from idpyoidc.client import client_auth
    # 1 usage_rules: is the client's token_usage_rules deep-copied before it is merged?
    copies = False
    copies_cfg = True
    for n in ast.walk(_fn(AuthzHandling.usage_rules)):
        if isinstance(n, ast.Assign) and any(isinstance(t, ast.Name) and t.id == "_per_client" for t in n.targets):
            copies = _is_deepcopy(n.value)
        # every assignment to the returned rules is a deep copy, an empty dict, or (after the copy) the per-client copy
        if isinstance(n, ast.Assign) and any(isinstance(t, ast.Name) and t.id == "_usage_rules" for t in n.targets):
            v = n.value
            ok = _is_deepcopy(v) or (isinstance(v, ast.Dict) and not v.keys) or (isinstance(v, ast.Name) and v.id == "_per_client")
            copies_cfg = copies_cfg and ok
    # 2 revocation endpoint: attributes of self assigned while processing a request
    self_writes = []
    for meth in ("process_request", "_revoke"):
        for n in ast.walk(_fn(getattr(TokenRevocation, meth))):
            if isinstance(n, (ast.Assign, ast.AugAssign)):
                for t in (n.targets if isinstance(n, ast.Assign) else [n.target]):
                    if isinstance(t, ast.Attribute) and isinstance(t.value, ast.Name) and t.value.id == "self":
                        self_writes.append(t.attr)
    # 3 userinfo endpoint: writes into self.config[...] while processing a request
    ui_writes = False
    for n in ast.walk(_fn(UserInfo.process_request)):
        if isinstance(n, ast.Assign):
            for t in n.targets:
                if isinstance(t, ast.Subscript) and isinstance(t.value, ast.Attribute) and isinstance(t.value.value, ast.Name) \
                        and t.value.value.id == "self" and t.value.attr == "config":
                    ui_writes = True
    # 4 find_token / find_token_info: is request.c_param re-bound (copied) before the entry is added?
    rebinds = []
    for f in (client_auth.find_token, client_auth.find_token_info):
        fn = _fn(f)
        sub_write = rebind = False
        for n in ast.walk(fn):
            if isinstance(n, ast.Assign):
                for t in n.targets:
                    if isinstance(t, ast.Subscript) and isinstance(t.value, ast.Attribute) and t.value.attr == "c_param":
                        sub_write = True
                    if isinstance(t, ast.Attribute) and t.attr == "c_param":
                        rebind = True
        rebinds.append((not sub_write) or rebind)
    out = ["import IdpyVerif.Base", "namespace Idpy.Gen", "",
           "/-- AuthzHandling.usage_rules deep-copies cdb[client]['token_usage_rules'] before merging it -/",
           f"def usageRulesCopiesClient : Bool := {'true' if copies else 'false'}",
           "/-- … and the provider-wide grant_config['usage_rules'] is deep-copied (not copied one level deep, not handed out) -/",
           f"def usageRulesCopiesConfig : Bool := {'true' if copies_cfg else 'false'}",
           "/-- attributes of the revocation endpoint object assigned in process_request / _revoke -/",
           "def revocationSelfWrites : List String := " + llist(lname(x) for x in sorted(set(self_writes))),
           "/-- UserInfo.process_request assigns into self.config -/",
           f"def userinfoWritesConfig : Bool := {'true' if ui_writes else 'false'}",
           "/-- find_token / find_token_info add the token parameter to a schema that belongs to the request -/",
           f"def findTokenSchemaIsLocal : Bool := {'true' if all(rebinds) else 'false'}",
           "", "end Idpy.Gen", ""]
    emit("Flows", "\n".join(out))
