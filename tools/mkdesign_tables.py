#!/venv/bin/python
"""Markdown tables for DESIGN.md section 9 from known_findings.json, seeded/*/meta.json and seeded/RESULTS.txt"""
import glob
import json
import os
import re

V = os.path.dirname(os.path.dirname(os.path.abspath(__file__)))


def findings():
    d = json.load(open(os.path.join(V, "known_findings.json")))["findings"]
    out = ["| id | property | status | commit | what fails |", "|----|----------|--------|--------|------------|"]
    for f in sorted(d, key=lambda x: (x["property"], x["key"])):
        txt = re.sub(r"^fixed: property=C\d\d [0-9a-f+ ]+ ", "", f["text"])
        out.append(f"| {f['key']} | {f['property']} | {f['status']} | {f.get('commit', '—')} | {txt} |")
    return "\n".join(out)


def seeded():
    res = {}
    p = os.path.join(V, "seeded", "RESULTS.txt")
    if os.path.exists(p):
        for line in open(p):
            f = line.split()
            if len(f) >= 2 and "-" in f[0]:
                res[f[0]] = " ".join(f[1:])
    out = ["| seeded change | what it breaks (clause) | needs | caught by | result of `./check` with the change applied |",
           "|---------------|-------------------------|-------|-----------|----------------------------------------------|"]
    for d in sorted(glob.glob(os.path.join(V, "seeded", "C*-*"))):
        name = os.path.basename(d)
        m = json.load(open(os.path.join(d, "meta.json")))
        clause = str(m.get("clause", "")).replace("|", "/")[:260]
        needs = str(m.get("needs", m.get("cell", ""))).replace("|", "/")[:260]
        out.append(f"| {name} | {clause} | {needs} | `./check {name.split('-')[0]}` | {res.get(name, 'not run')} |")
    return "\n".join(out)


if __name__ == "__main__":
    import sys
    print({"findings": findings, "seeded": seeded}[sys.argv[1]]())
