#!/bin/bash
# keep_seeded.sh <prop lower> <variant> : verify demo passes clean / fails patched in the scratch worktree, then store under /verif/seeded
set -e
P=$1; V=$2; WT=/tmp/mut/$P; OUT=$WT/_out/$V; ID=$(echo $P | tr a-z A-Z)-$V
cd $WT; git checkout -q -- .
PYTHONPATH=$WT/src /venv/bin/python $OUT/demo.py >/dev/null 2>&1 && echo "clean: demo passes" || { echo "clean: demo FAILS"; exit 1; }
git apply $OUT/patch.diff
if PYTHONPATH=$WT/src /venv/bin/python $OUT/demo.py >/dev/null 2>&1; then echo "patched: demo PASSES (bad)"; git checkout -q -- .; exit 1; else echo "patched: demo fails (good)"; fi
git checkout -q -- .
mkdir -p /verif/seeded/$ID; cp $OUT/patch.diff $OUT/demo.py $OUT/meta.json /verif/seeded/$ID/
echo stored /verif/seeded/$ID
