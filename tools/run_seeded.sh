#!/bin/bash
# run_seeded.sh [ID-V ...] : apply each seeded change to /repo, run the property's quick check, undo; print a table.
# /repo must be clean.  Never commits anything.
cd /verif
[ -n "$(git -C /repo status --porcelain)" ] && { echo "/repo is not clean"; exit 2; }
L=${@:-$(ls seeded)}
for d in $L; do
  P=${d%%-*}
  if ! git -C /repo apply --check /verif/seeded/$d/patch.diff 2>/dev/null; then echo "$d patch-does-not-apply"; continue; fi
  git -C /repo apply /verif/seeded/$d/patch.diff
  out=$(./check $P 2>&1); rc=$?
  git -C /repo checkout -q -- .
  v=$(echo "$out" | grep -c '^VIOLATION')
  echo "$d rc=$rc violation_lines=$v $(echo "$out" | tail -1 | grep -o 'disagreements=[0-9]* violations=[0-9]*')"
done
