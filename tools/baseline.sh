#!/bin/bash
# Runs the repository's own test suite with the verification guard OFF, in a scratch copy
# (the suite rewrites tracked key files under tests/), and removes the copy afterwards.
set -u
unset IDPYOIDC_VERIF
D=$(mktemp -d /var/tmp/idpy-baseline.XXXXXX)
trap 'rm -rf "$D"' EXIT
cp -r /repo/. "$D"/
cd "$D" && PYTHONPATH="$D/src" /venv/bin/python -m pytest -ra -q --color=no -p no:cacheprovider --timeout=900 --continue-on-collection-errors "$@"
