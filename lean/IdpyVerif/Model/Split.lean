/-
`sep2.join(parts)` / `text.split(sep2)` for a two-character separator made of the same character
twice (";;" for the session db, "::" for cookie payloads) and `text.split(c)` for one character.
Python semantics: leftmost, non-overlapping matches.
-/
import IdpyVerif.Base
namespace Idpy.Split

def join2 (sep : Nat) : List Str → Str
  | [] => []
  | [a] => a
  | a :: b :: rest => a ++ sep :: sep :: join2 sep (b :: rest)

/-- `cur` is the current piece, reversed -/
def split2Aux (sep : Nat) : Str → Str → List Str
  | [], cur => [cur.reverse]
  | [c], cur => [(c :: cur).reverse]
  | c1 :: c2 :: rest, cur =>
    if c1 = sep ∧ c2 = sep then cur.reverse :: split2Aux sep rest []
    else split2Aux sep (c2 :: rest) (c1 :: cur)

def split2 (sep : Nat) (k : Str) : List Str := split2Aux sep k []

/-- single-character split -/
def split1Aux (sep : Nat) : Str → Str → List Str
  | [], cur => [cur.reverse]
  | c :: rest, cur => if c = sep then cur.reverse :: split1Aux sep rest [] else split1Aux sep rest (c :: cur)
def split1 (sep : Nat) (k : Str) : List Str := split1Aux sep k []

def join1 (sep : Nat) : List Str → Str
  | [] => []
  | [a] => a
  | a :: b :: rest => a ++ sep :: join1 sep (b :: rest)

end Idpy.Split
