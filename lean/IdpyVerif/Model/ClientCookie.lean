/-
Model of `idpyoidc.client.cookie` (`make_cookie` value part, `cookie_signature`, `parse_cookie` after the
cookie header has been taken apart by http.cookies.SimpleCookie):

    signed only   load | timestamp | HMAC-SHA1(seed, load ‖ timestamp) as hex text
    encrypted     timestamp | b64(iv) | b64(ciphertext) | b64(tag)         AES-GCM, the timestamp as associated data

`cookie_signature(key, *parts)` feeds the parts to the HMAC one after the other, skipping empty ones: the MAC
input is their BARE concatenation.  `parse_cookie` decides by the number of `|`-separated parts alone.
Cryptography is a parameter as in Model/Cookie.lean.
-/
import IdpyVerif.Base
import IdpyVerif.Model.Cookie
namespace Idpy.ClientCookie
open Idpy Idpy.Split
open Idpy.Cookie (bar)

structure Crypto where
  mac     : Str → Str                          -- hexdigest of HMAC-SHA1(seed, msg)
  b64     : Str → Str
  unb64   : Str → Option Str
  aeadEnc : Str → Str → Str → Str × Str        -- iv, plaintext, associated data ↦ (ciphertext, tag)
  aeadDec : Str → Str → Str → Str → Option Str -- iv, ciphertext, tag, associated data; none = InvalidCookieSign

/-- what `cookie_signature(seed, load, timestamp)` authenticates -/
def macInput (load ts : Str) : Str := load ++ ts

/-- the cookie value `make_cookie` stores under the cookie's name -/
def make (k : Crypto) (enc : Bool) (iv load ts : Str) : Str :=
  if enc then
    let (ct, tag) := k.aeadEnc iv load ts
    join1 bar [ts, k.b64 iv, k.b64 ct, k.b64 tag]
  else join1 bar [load, ts, k.mac (macInput load ts)]

/-- `parse_cookie` on that value: `none` = None returned or InvalidCookieSign raised -/
def parse (k : Crypto) (cookie : Str) : Option (Str × Str) :=
  match split1 bar cookie with
  | [clear, ts, sig] => if sig = k.mac (macInput clear ts) then some (clear, ts) else none
  | [ts, iv, ct, tag] =>
    match k.unb64 iv, k.unb64 ct, k.unb64 tag with
    | some iv', some ct', some tag' =>
      match k.aeadDec iv' ct' tag' ts with
      | some clear => some (clear, ts)
      | none => none
    | _, _, _ => none
  | _ => none

end Idpy.ClientCookie
