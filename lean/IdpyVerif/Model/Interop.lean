/-
Model of what a flow between this library's relying party and provider looks like in each cell of
the configuration space: which response placement results from response_type × response_mode,
which endpoints are called in which order, which artefacts appear where, in which form (signed /
encrypted) ID token and user info travel.  This is the protocol and negotiation logic of both
halves; serialisers, JOSE and HTTP are not in it.
-/
import IdpyVerif.Base
namespace Idpy.Interop

inductive RT where | code | idToken | codeIdToken | codeToken | idTokenToken | codeIdTokenToken | token
  deriving Repr, DecidableEq
inductive RM where | default | query | fragment | formPost
  deriving Repr, DecidableEq
inductive AM where | secretBasic | secretPost | secretJwt | privateKeyJwt
  deriving Repr, DecidableEq
inductive Fmt where | opaque | jwt
  deriving Repr, DecidableEq
inductive SigAlg where | rs256 | es256 | hs256 | ps256 | hs384 | hs512 | rs384
  deriving Repr, DecidableEq
inductive Enc where | none | rsaOaep | ecdhEs
  deriving Repr, DecidableEq
inductive UI where | json | rs256 | es256 | enc
  deriving Repr, DecidableEq
inductive Req where | plain | byValue | byReference | pushed
  deriving Repr, DecidableEq

structure Cell where
  rt : RT
  rm : RM
  am : AM
  atf : Fmt
  rtf : Fmt
  ialg : SigAlg
  ienc : Enc
  ui : UI
  req : Req
  pkce : Bool
  deriving Repr, DecidableEq

inductive Placement where | query | fragment | formPost
  deriving Repr, DecidableEq

/-- default placement of a response type (`DEFAULT_RESPONSE_MODE` / the provider's `fragment_enc`) -/
def defaultPlacement : RT → Placement
  | .code => .query
  | _ => .fragment

/-- the provider's `response_mode()`: `query` only for `code`, `fragment` only for response types
    whose default it is, `form_post` always; `none` = refused with invalid_request -/
def placement (rt : RT) (rm : RM) : Option Placement :=
  match rm with
  | .default => some (defaultPlacement rt)
  | .formPost => some .formPost
  | .query => if rt = .code then some .query else none
  | .fragment => if rt = .code then none else some .fragment

inductive Call where | pushed | authorization | token | userinfo
  deriving Repr, DecidableEq

structure Outcome where
  placement : Placement
  calls : List Call
  codeFront : Bool            -- a code in the authorization response
  idTokenFront : Bool         -- an ID token in the authorization response
  tokenFront : Bool           -- an access token in the authorization response (the RP then uses THAT one and skips the token endpoint)
  idToken : Bool              -- an ID token reaches the relying party at all
  accessToken : Bool          -- the relying party ends up with an access token
  tokenResponse : Bool        -- the RP goes to the token endpoint
  refreshToken : Bool
  idTokenEncrypted : Bool
  userinfoCalled : Bool
  deriving Repr, DecidableEq

def hasCode : RT → Bool
  | .code | .codeIdToken | .codeToken | .codeIdTokenToken => true
  | _ => false
def hasIdTokenFront : RT → Bool
  | .idToken | .codeIdToken | .idTokenToken | .codeIdTokenToken => true
  | _ => false
def hasTokenFront : RT → Bool
  | .codeToken | .idTokenToken | .codeIdTokenToken | .token => true
  | _ => false

/-- one flow; `offline` = the request asks for offline_access (with prompt=consent) -/
def run (c : Cell) (offline : Bool) : Option Outcome :=
  match placement c.rt c.rm with
  | none => none
  | some p =>
    some {
      placement := p
      calls := (if c.req = .pushed then [.pushed] else []) ++ [.authorization] ++
               (if hasTokenFront c.rt then [.userinfo] else if hasCode c.rt then [.token, .userinfo] else [])
      codeFront := hasCode c.rt
      idTokenFront := hasIdTokenFront c.rt
      tokenFront := hasTokenFront c.rt
      idToken := hasIdTokenFront c.rt || (hasCode c.rt && !hasTokenFront c.rt)
      accessToken := hasTokenFront c.rt || hasCode c.rt
      tokenResponse := hasCode c.rt && !hasTokenFront c.rt
      refreshToken := hasCode c.rt && !hasTokenFront c.rt && offline
      idTokenEncrypted := c.ienc != .none
      userinfoCalled := hasCode c.rt || hasTokenFront c.rt }

/-! the product both halves advertise -/
def allRT : List RT := [.code, .idToken, .codeIdToken, .codeToken, .idTokenToken, .codeIdTokenToken, .token]
def allRM : List RM := [.default, .query, .fragment, .formPost]
def allAM : List AM := [.secretBasic, .secretPost, .secretJwt, .privateKeyJwt]
def allFmt : List Fmt := [.opaque, .jwt]
def allSig : List SigAlg := [.rs256, .es256, .hs256, .ps256, .hs384, .hs512, .rs384]
def allEnc : List Enc := [.none, .rsaOaep, .ecdhEs]
def allUI : List UI := [.json, .rs256, .es256, .enc]
def allReq : List Req := [.plain, .byValue, .byReference, .pushed]

/-- OAuth 2.0 Multiple Response Type Encoding: an ID token must not be returned in the query -/
def specAllows (rt : RT) (rm : RM) : Bool :=
  !(rm = .query && rt != .code)

end Idpy.Interop
