/-
Model of `idpyoidc.server.session.database.Database` and the tree operations of
`GrantManager` / `SessionManager` (create_session, add_exchange_grant, revoke_*,
remove_session, delete, delete_sub_tree, flush) on the flat `db` dictionary.

Literal with respect to the Python: the dictionary is keyed by the *joined* path
(`DIVIDER.join(path)`, DIVIDER = ";;"), inner nodes carry `subordinate` key lists,
grants have no subordinate list.  Fresh grant ids (uuid1) are inputs of the ops.
-/
import IdpyVerif.Base
import IdpyVerif.Model.LV
import IdpyVerif.Model.Split
namespace Idpy.SessionDB

@[irreducible] def semi : Nat := 59
theorem semi_eq : semi = 59 := by unfold semi; rfl

/-- `DIVIDER.join(path)` -/
def joinKey (p : List Str) : Str := Split.join2 semi p
/-- `key.split(DIVIDER)` -/
def splitKey (k : Str) : List Str := Split.split2 semi k

/-- plaintext of a session id: `lv_pack(rnd, DIVIDER.join(path))` -/
def sidPlain (rnd : Str) (path : List Str) : Str := LV.pack [rnd, joinKey path]
/-- `decrypt_branch_id` after (idealised) decryption: `unpack_branch_key(lv_unpack(plain)[1])`;
    `none` = exception -/
def sidResolve (plain : Str) : Option (List Str) :=
  match LV.unpack plain with
  | some (_ :: k :: _) => some (splitKey k)
  | _ => none

inductive Kind where | user | client | grant | xgrant
  deriving DecidableEq, Repr

structure Node where
  kind : Kind
  id : Str
  subs : List Str        -- `subordinate` (unused for grants)
  revoked : Bool
  deriving DecidableEq, Repr

abbrev DB := List (Str × Node)     -- insertion-ordered dict

def lookup (db : DB) (k : Str) : Option Node := (db.find? (fun e => e.1 = k)).map (·.2)
def hasKey (db : DB) (k : Str) : Bool := (lookup db k).isSome

/-- `db[k] = n` (keeps position when the key exists, appends otherwise) -/
def put : DB → Str → Node → DB
  | [], k, n => [(k, n)]
  | (k', n') :: rest, k, n => if k' = k then (k, n) :: rest else (k', n') :: put rest k n

def del (db : DB) (k : Str) : DB := db.filter (fun e => e.1 ≠ k)

def isInner (n : Node) : Bool := n.kind = .user ∨ n.kind = .client

def kindAt (i : Nat) : Kind := if i = 0 then .user else if i = 1 then .client else .grant

/-- `Database.set(path, value)`: walk the prefixes, create missing inner nodes, link each
    node into its superior, (over)write the leaf.  `sup` is the superior's key. -/
def setLoop (leaf : Node) (full : List Str) : Nat → Nat → Option Str → DB → DB
  | 0, _, _, db => db
  | fuel+1, i, sup, db =>
    if i ≥ full.length then db else
    let key := joinKey (full.take (i+1))
    let isLeaf := i + 1 = full.length
    let info : Node := match lookup db key with
      | none => if isLeaf then leaf else { kind := kindAt i, id := full.getD i [], subs := [], revoked := false }
      | some old => if isLeaf then leaf else old
    -- link into the superior (superior already stored under `sup`)
    let db1 := match sup with
      | none => db
      | some sk => match lookup db sk with
        | none => db
        | some sn =>
          if isInner sn ∧ ¬ (sn.subs.contains key) then put db sk { sn with subs := sn.subs ++ [key] } else db
    let db2 := put db1 key info
    setLoop leaf full fuel (i+1) (some key) db2

def set (db : DB) (path : List Str) (leaf : Node) : DB :=
  setLoop leaf path path.length 0 none db

/-- `_setup_branch(path)`; existing nodes are kept (`get` succeeds) -/
def setupBranch (db : DB) (path : List Str) : Nat → Nat → DB
  | 0, _ => db
  | fuel+1, i =>
    if i ≥ path.length then db else
    let pre := path.take (i+1)
    let db' := match lookup db (joinKey pre) with
      | some _ => db
      | none => set db pre { kind := kindAt i, id := path.getD i [], subs := [], revoked := false }
    setupBranch db' path fuel (i+1)

/-- create_session / create_grant: setup branch, then store a new grant under a fresh id -/
def addGrant (db : DB) (user client gid : Str) (kind : Kind := .grant) : DB :=
  let p := [user, client]
  let db1 := setupBranch db p 2 0
  set db1 (p ++ [gid]) { kind := kind, id := gid, subs := [], revoked := false }

/-- `delete_sub_tree(key)` with fuel (the Python recursion follows `subordinate`);
    `none` = KeyError -/
def deleteSubTree : Nat → DB → Str → Option DB
  | 0, _, _ => none
  | fuel+1, db, key =>
    match lookup db key with
    | none => none
    | some n =>
      let r := if isInner n then
          n.subs.foldl (fun acc s => match acc with
            | none => none
            | some d => deleteSubTree fuel d s) (some db)
        else some db
      r.map (fun d => del d key)

/-- `Database.delete(path)`.  `none` = an exception escapes. -/
def deleteLoop (path : List Str) : Nat → Nat → Option Str → DB → Option DB
  | 0, _, _, db => some db
  | fuel+1, i, sub, db =>
    let len := path.length
    if i ≥ len then some db else
    let key := joinKey (path.take (len - i))
    match lookup db key with
    | none => deleteLoop path fuel (i+1) (some key) db
    | some node =>
      match sub with
      | some s =>
        -- grants have no `subordinate` attribute: AttributeError
        if ¬ isInner node then none else
        if node.subs.contains s then
          let subs' := node.subs.erase s
          if subs'.isEmpty then deleteLoop path fuel (i+1) (some key) (del db key)
          else some (put db key { node with subs := subs' })
        else some db
      | none =>
        let r := if isInner node ∧ ¬ node.subs.isEmpty then
            node.subs.foldl (fun acc s => match acc with
              | none => none
              | some d => deleteSubTree (db.length + 1) d s) (some db)
          else some db
        match r with
        | none => none
        | some d => deleteLoop path fuel (i+1) (some key) (del d key)

def delete (db : DB) (path : List Str) : Option DB :=
  match path with
  | [] => none                                   -- IndexError on path[0]
  | p0 :: _ =>
    if ¬ hasKey db p0 then some db else
    if path.length = 1 then deleteSubTree (db.length + 1) db p0 else
    deleteLoop path path.length 0 none db

/-- `_revoke_tree(node)` starting at `key`; `none` = KeyError on a dangling subordinate -/
def revokeTree : Nat → DB → Str → Option DB
  | 0, _, _ => none
  | fuel+1, db, key =>
    match lookup db key with
    | none => none
    | some n =>
      let db1 := put db key { n with revoked := true }
      if isInner n then
        n.subs.foldl (fun acc s => match acc with
          | none => none
          | some d => revokeTree fuel d s) (some db1)
      else some db1

inductive Op where
  | create (user client gid : Str)              -- create_session
  | exchange (user client gid : Str)            -- add_exchange_grant
  | revoke (path : List Str) (level : Nat)      -- revoke_sub_tree(sid, level) ; level 2 = revoke_grant
  | remove (path : List Str)                    -- remove_session(sid)  = delete(path)
  | delete (path : List Str)                    -- Database.delete at any depth
  | deleteSub (key : Str)                       -- delete_sub_tree(key)
  | flush

/-- one API step; `none` = exception (state unchanged, as far as the model is concerned the
    Python may have performed a partial update: the driver reports `exc` and the harness
    resynchronises by restarting the history) -/
def step (db : DB) : Op → Option DB
  | .create u c g => some (addGrant db u c g)
  | .exchange u c g => some (addGrant db u c g .xgrant)
  | .revoke path level =>
    let key := joinKey (path.take (level+1))
    revokeTree (db.length + 1) db key
  | .remove path => delete db path
  | .delete path => delete db path
  | .deleteSub key => deleteSubTree (db.length + 1) db key
  | .flush => some []

end Idpy.SessionDB
