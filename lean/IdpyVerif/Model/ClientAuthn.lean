/-
Model of `verify_client` (server/client_authn.py) and `Endpoint.client_authentication`.

The request is seen through idealised cryptography (`Cred`): the harness constructs every
credential itself, so it knows which key signed an assertion, for whom and until when;
signature validity and `exp` enforcement live inside `cryptojwt` and are the field `verifies`.
The loop over the endpoint's method list, the "any other exception means: try the next method"
rule, the jti bookkeeping (recorded before the per-client filter can still reject) and the
secret-expiry test are modelled literally.
-/
import IdpyVerif.Base
namespace Idpy.ClientAuthn

inductive Method where
  | basic | post | bearerHeader | bearerBody | secretJwt | privateKeyJwt | requestParam | publicM | noneM
  deriving DecidableEq, Repr

/-- outcome of `JWT.unpack` (cryptojwt): ok = signature valid under a key the key jar holds for
    `iss` and `exp` (if present) not passed; `authErr` = Invalid/MissingKey/BadSignature (turned into
    ClientAuthenticationError); `other` = any other exception (unknown issuer …): next method -/
inductive Unpack where | ok | authErr | other
  deriving DecidableEq, Repr

/-- what a client assertion looks like after (idealised) JWS processing -/
structure Jwt where
  unpack : Unpack
  hs : Bool                -- header alg starts with "HS"
  iss : Str
  octIsSecret : Bool       -- the issuer's first `oct` key equals the stored client_secret (relevant for HS)
  audOk : Bool             -- aud ∩ endpoint.allowed_target_uris() ≠ ∅
  jti : Option Str
  deriving Repr

inductive Basic where
  | absent                               -- no `Basic ` authorization header
  | malformed                            -- bad base64 / no colon: ValueError → next method
  | pair (id secret : Str)
  deriving Repr

structure Cred where
  basic : Basic
  postId : Option Str                    -- client_id parameter
  postSecret : Option Str                -- client_secret parameter
  assertion : Option Jwt                 -- client_assertion parameter
  bearer : Option (Option Str)           -- `Bearer ` header: the client the token resolves to (none: lookup failed quietly)
  deriving Repr

structure ClientRec where
  id : Str
  secret : Option Str
  secretExpiresAt : Nat                  -- 0 = never
  allowed : Option (List Method)         -- `<endpoint>_client_authn_method`, else `client_authn_method`
  deriving Repr

structure Cfg where
  methods : List Method                  -- the endpoint's client_authn_method list, in order
  clients : List ClientRec

structure St where
  now : Nat
  jtiSeen : List (Str × Str)             -- jti_db keys "{iss}:{jti}"

inductive Outcome where
  | accepted (client : Str) (m : Method)
  | authnError                           -- ClientAuthenticationError / BearerTokenAuthenticationError propagates
  | unknownClient
  | invalidClient                        -- secret expired
  | nothing                              -- empty auth_info: UnAuthorizedClient when the endpoint has a method list
  deriving DecidableEq, Repr

def findClient (cfg : Cfg) (id : Str) : Option ClientRec := cfg.clients.find? (·.id = id)

/-- result of one method's `verify`: -/
inductive Try where
  | skip                       -- not usable, or "any other exception": next method
  | raise                      -- ClientAuthenticationError
  | ok (client : Str)          -- auth_info with a client_id
  deriving Repr

def isUsable (c : Cred) : Method → Bool
  | .basic => match c.basic with | .absent => false | _ => true
  | .post => c.postId.isSome ∧ c.postSecret.isSome
  | .secretJwt | .privateKeyJwt => c.assertion.isSome
  | .bearerHeader => c.bearer.isSome
  | .publicM => c.postId.isSome
  | .noneM => true
  | _ => false

/-- the JWT methods (`JWSAuthnMethod._verify`); also returns the jti to record -/
def tryJwt (cfg : Cfg) (st : St) (j : Jwt) (secretMethod : Bool) : Try × Option (Str × Str) :=
  if j.unpack = .authErr then (.raise, none) else
  if j.unpack = .other then (.skip, none) else
  -- algorithm family against the method
  if j.hs ∧ !secretMethod then (.skip, none) else
  if !j.hs ∧ secretMethod then (.skip, none) else
  -- HS: `_context.cdb[iss]` (KeyError → next method) and the secret comparison
  if j.hs ∧ (findClient cfg j.iss).isNone then (.skip, none) else
  if j.hs ∧ ((findClient cfg j.iss).bind (·.secret)).isSome ∧ !j.octIsSecret then (.skip, none) else
  -- InvalidToken is a ClientAuthenticationError: a wrong audience or a replayed jti ends the whole attempt
  if !j.audOk then (.raise, none) else
  match j.jti with
  | some t => if st.jtiSeen.contains (j.iss, t) then (.raise, none) else (.ok j.iss, some (j.iss, t))
  | none => (.ok j.iss, none)

def tryMethod (cfg : Cfg) (st : St) (c : Cred) (m : Method) : Try × Option (Str × Str) :=
  if !isUsable c m then (.skip, none) else
  match m with
  | .basic =>
    match c.basic with
    | .pair id secret =>
      match findClient cfg id with
      | none => (.skip, none)                                  -- KeyError
      | some r => match r.secret with
        | none => (.skip, none)                                -- KeyError 'client_secret'
        | some s => if s = secret then (.ok id, none) else (.raise, none)
    | _ => (.skip, none)
  | .post =>
    match c.postId, c.postSecret with
    | some id, some secret =>
      match findClient cfg id with
      | none => (.skip, none)
      | some r => match r.secret with
        | none => (.skip, none)
        | some s => if s = secret then (.ok id, none) else (.raise, none)
    | _, _ => (.skip, none)
  | .secretJwt => match c.assertion with | some j => tryJwt cfg st j true | none => (.skip, none)
  | .privateKeyJwt => match c.assertion with | some j => tryJwt cfg st j false | none => (.skip, none)
  | .bearerHeader => match c.bearer with
    | some (some id) => (.ok id, none)
    | some none => (.ok [], none)          -- lookup failed quietly: client_id "" (then unknown client)
    | none => (.skip, none)
  | .publicM => match c.postId with | some id => (.ok id, none) | none => (.skip, none)
  | _ => (.skip, none)

def secretValid (r : ClientRec) (now : Nat) : Bool :=
  r.secret.isNone || r.secretExpiresAt == 0 || decide (now ≤ r.secretExpiresAt)

/-- `_context.jti_db[key] = now` -/
def record (st : St) : Option (Str × Str) → St
  | some k => { st with jtiSeen := k :: st.jtiSeen }
  | none => st

/-- the loop of `verify_client` over the remaining methods -/
def loop (cfg : Cfg) (c : Cred) : List Method → St → St × Outcome
  | [], st => (st, .nothing)
  | m :: rest, st =>
    match tryMethod cfg st c m with
    | (.skip, _) => loop cfg c rest st
    | (.raise, _) => (st, .authnError)
    | (.ok id, rec) =>
      let st' : St := record st rec
      match findClient cfg id with
      | none => (st', .unknownClient)
      | some r =>
        if !secretValid r st.now then (st', .invalidClient) else
        match r.allowed with
        | some al => if al.contains m then (st', .accepted id m) else loop cfg c rest st'
        | none => (st', .accepted id m)

def verifyClient (cfg : Cfg) (st : St) (c : Cred) : St × Outcome := loop cfg c cfg.methods st

/-- `Endpoint.parse_request` after `client_authentication`: the client the endpoint-specific code goes on
    with (`req["client_id"]`) and whether the request counts as authenticated. The authenticated
    identity always replaces what the body claims; the body's `client_id` is used only when nothing
    was authenticated and the endpoint has no method list (otherwise UnAuthorizedClient was raised).
    `none`: an exception left `parse_request`, nothing is acted upon. -/
def treatedAs (cfg : Cfg) (o : Outcome) (bodyId : Option Str) : Option (Option Str × Bool) :=
  match o with
  | .accepted id m => some (some id, decide (m ≠ .publicM ∧ m ≠ .noneM))
  | .nothing => if cfg.methods.isEmpty then some (bodyId, false) else none
  | _ => none

end Idpy.ClientAuthn
