/-
Model of ID-token acceptance at the relying party:
`verify_id_token` + `IdToken.verify` (message layer), the arguments `gather_verify_arguments`
supplies, `Authorization.post_parse_response` and `AccessToken.update_service_context` (service
layer).

The token is seen through a view: header facts, who signed it (the harness knows), and the claims
with their JSON type already classified (`F`).  Signature verification and cryptojwt's key
selection are the function `sigOk` of those facts — the cryptographic soundness behind it (a valid
signature under a key means the key's owner signed) is the trusted interface.
-/
import IdpyVerif.Base
namespace Idpy.IdToken

/-- a claim: absent, present with an acceptable JSON type, or present with a type the schema rejects -/
inductive F (α : Type) where
  | absent
  | val (a : α)
  | bad
  deriving Repr, DecidableEq

def F.isVal {α} : F α → Bool
  | .val _ => true
  | _ => false
def F.isBad {α} : F α → Bool
  | .bad => true
  | _ => false

structure Claims where
  iss : F Str
  sub : F Str
  aud : F (List Str)       -- a JSON string is read as a one-element list
  azp : F Str
  exp : F Nat
  iat : F Nat
  nonce : F Str
  atHash : F Bool          -- `val true`: equals left_hash(access_token) for the token's algorithm
  cHash : F Bool
  deriving Repr

inductive Fam where | rsa | ec | oct | other
  deriving Repr, DecidableEq

/-- key family an algorithm name needs -/
def family (alg : String) : Fam :=
  if alg.startsWith "RS" ∨ alg.startsWith "PS" then .rsa
  else if alg.startsWith "ES" then .ec
  else if alg.startsWith "HS" then .oct
  else .other

inductive Signer where
  | jarKey (owner : Str) (fam : Fam)   -- a signing key whose public part the RP's key jar holds for `owner`
  | secret                             -- the client secret (held by the issuer and the client)
  | outsider                           -- anything else: foreign keys, the issuer's PUBLIC key as HMAC secret, no signature
  deriving Repr, DecidableEq

inductive Kid where | ok | absent | wrong
  deriving Repr, DecidableEq

structure Sig where
  isJwt : Bool             -- three dot-separated segments with a JSON header
  alg : String             -- header alg
  signer : Signer
  intact : Bool            -- header and payload are the ones that were signed
  kid : Kid
  deriving Repr

structure Cfg where
  issuer : Str             -- the issuer this client talks to (always supplied as `iss`)
  clientId : Str
  sigalg : Option String   -- `sigalg` handed to verify
  allowNone : Bool         -- allow_sign_alg_none
  skew : Nat
  storage : Nat            -- nonce_storage_time
  now : Nat
  known : List Str         -- issuers the key jar has keys for
  deriving Repr

/-- what `gather_verify_arguments` supplies as `sigalg` (after the fix for F-C08-a): the dynamically
    registered value, else what the client uses after matching its static preference, whose default is RS256 -/
def effectiveSigalg (registered configured : Option String) : String :=
  match registered with
  | some a => a
  | none => configured.getD "RS256"

/-- cryptojwt: keys are selected for the BODY's issuer, the algorithm's key family and the kid (a
    missing kid selects all keys of the family — exact when there is one, or with allow_missing_kid);
    HMAC algorithms also use the client's own symmetric keys; the header algorithm must be the
    requested one when one is requested -/
def sigOk (cfg : Cfg) (bodyIss : Str) (s : Sig) : Bool :=
  s.intact && (s.kid != .wrong) && (match cfg.sigalg with | none => true | some a => a == s.alg) &&
  (match s.signer with
   | .jarKey owner fam => owner == bodyIss && fam == family s.alg && fam != .other
   | .secret => family s.alg == .oct
   | .outsider => false)

/-- `Message.verify` on the ID-token schema: required claims present, non-empty and well-typed,
    optional ones well-typed -/
def schemaOk (c : Claims) : Bool :=
  c.iss.isVal && c.sub.isVal && (match c.aud with | .val l => !l.isEmpty | _ => false) && c.exp.isVal && c.iat.isVal &&
  !c.azp.isBad && !c.nonce.isBad && !c.atHash.isBad && !c.cHash.isBad

/-- `IdToken.verify(**kwargs)` after the schema; `nonceKw` = the `nonce` keyword when given -/
def claimsOk (cfg : Cfg) (nonceKw : Option Str) (c : Claims) : Bool :=
  schemaOk c &&
  (c.iss == .val cfg.issuer) &&
  (match c.aud with
   | .val aud =>
     aud.contains cfg.clientId &&
     (if aud.length > 1 then (match c.azp with | .val z => aud.contains z | _ => false) else true)
   | _ => false) &&
  (match c.azp with | .val z => z == cfg.clientId | _ => true) &&
  (match c.exp, c.iat with
   | .val exp, .val iat =>
     !(decide (cfg.now > exp + cfg.skew)) && !(decide (iat + cfg.storage + cfg.skew < cfg.now)) &&
     !(decide (iat > cfg.now + cfg.skew)) && !(decide (exp < iat))
   | _, _ => false) &&
  (match nonceKw with
   | none => true
   | some n => c.nonce == .val n)        -- after the fix for F-C08-b: an expected nonce must be present

structure Accomp where
  code : Bool              -- the response carries a code next to the ID token
  accessToken : Bool
  deriving Repr

/-- `verify_id_token(msg, check_hash, **kwargs)`; `true` = the verified token is attached to the message -/
def verifyIdToken (cfg : Cfg) (nonceKw : Option Str) (checkHash : Bool) (acc : Accomp) (s : Sig) (c : Claims) : Bool :=
  s.isJwt &&
  (if s.alg = "none" then (cfg.sigalg == some "none" || cfg.allowNone)
   else
     -- signed: the body's issuer must be known to the key jar, then the signature must verify
     (match c.iss with
      | .val i => cfg.known.contains i && sigOk cfg i s
      | _ => false)) &&
  claimsOk cfg nonceKw c &&
  (if s.alg ≠ "none" ∧ checkHash then
     (if acc.accessToken then c.atHash == .val true else true) &&
     (if acc.code then c.cHash == .val true else true)
   else true)

inductive Endpoint where | authz | token
  deriving Repr, DecidableEq

/-- the RP's state store as far as this check reads it -/
structure Flow where
  state : Nat                      -- the state this response is processed for
  sentNonce : Option Str           -- nonce stored with the request of that state
  nonceMap : List (Str × Nat)      -- nonce ↦ state bindings of all pending flows
  deriving Repr

/-- message API: `AuthorizationResponse.verify` (check_hash) / `AccessTokenResponse.verify` -/
def acceptMsg (cfg : Cfg) (ep : Endpoint) (nonceKw : Option Str) (acc : Accomp) (s : Sig) (c : Claims) : Bool :=
  verifyIdToken cfg nonceKw (ep == .authz) acc s c

/-- service path: `parse_response` (verify without a nonce keyword) then the service's own nonce
    check, all before anything is stored -/
def acceptService (cfg : Cfg) (ep : Endpoint) (fl : Flow) (acc : Accomp) (s : Sig) (c : Claims) : Bool :=
  verifyIdToken cfg none (ep == .authz) acc s c &&
  (match ep with
   | .authz =>
     (match fl.sentNonce with
      | none => true
      | some n => c.nonce == .val n)
   | .token =>
     (match c.nonce with
      | .val n => fl.nonceMap.lookup n == some fl.state
      | _ => false))

end Idpy.IdToken
