/-
A heap of Python containers (dict / list cells holding atoms or references) — the model behind
C20: who can reach which cell, what `copy.deepcopy` allocates, what a write changes.

Static state (schemas, module constants, endpoint / handler / authz configuration, client records)
lives below an address bound `lo`; everything a request allocates lives at or above it.
-/
import IdpyVerif.Base
namespace Idpy.Heap

abbrev Addr := Nat

inductive Val where
  | atom (n : Nat)
  | ref (a : Addr)
  deriving Repr, DecidableEq

structure Cell where
  isList : Bool
  items : List (Nat × Val)       -- key ↦ value (for a list the keys are positions)
  deriving Repr, DecidableEq

structure Heap where
  store : Addr → Option Cell
  next : Addr                    -- allocation pointer

def alloc (h : Heap) (c : Cell) : Heap × Addr :=
  ({ store := fun a => if a = h.next then some c else h.store a, next := h.next + 1 }, h.next)

/-- assignment into a container: `d[k] = v`, `l.append(v)`, `d.update(...)` all replace one cell -/
def write (h : Heap) (a : Addr) (c : Cell) : Heap :=
  { h with store := fun x => if x = a then some c else h.store x }

/-- copy the items of a cell with a given copier for the values -/
def copyItemsWith (cp : Heap → Val → Heap × Val) : Heap → List (Nat × Val) → Heap × List (Nat × Val)
  | h, [] => (h, [])
  | h, (k, v) :: rest =>
    let r1 := cp h v
    let r2 := copyItemsWith cp r1.1 rest
    (r2.1, (k, r1.2) :: r2.2)

/-- `copy.deepcopy(v)` for values nested less deep than the fuel (deeper parts would be shared:
    the theorems carry the depth hypothesis) -/
def copyVal : Nat → Heap → Val → Heap × Val
  | 0, h, v => (h, v)
  | _ + 1, h, .atom n => (h, .atom n)
  | f + 1, h, .ref a =>
    match h.store a with
    | none => (h, .ref a)
    | some c =>
      let r := copyItemsWith (copyVal f) h c.items
      let r2 := alloc r.1 { c with items := r.2 }
      (r2.1, .ref r2.2)

def copyItems (f : Nat) : Heap → List (Nat × Val) → Heap × List (Nat × Val) := copyItemsWith (copyVal f)

theorem copyItems_nil (f : Nat) (h : Heap) : copyItems f h [] = (h, []) := rfl
theorem copyItems_cons (f : Nat) (h : Heap) (k : Nat) (v : Val) (rest : List (Nat × Val)) :
    copyItems f h ((k, v) :: rest) = ((copyItems f (copyVal f h v).1 rest).1, (k, (copyVal f h v).2) :: (copyItems f (copyVal f h v).1 rest).2) := rfl
theorem copyVal_zero (h : Heap) (v : Val) : copyVal 0 h v = (h, v) := by cases v <;> rfl
theorem copyVal_atom (f : Nat) (h : Heap) (n : Nat) : copyVal (f + 1) h (.atom n) = (h, .atom n) := rfl
theorem copyVal_ref (f : Nat) (h : Heap) (a : Addr) :
    copyVal (f + 1) h (.ref a) = (match h.store a with
      | none => (h, .ref a)
      | some c => ((alloc (copyItems f h c.items).1 { c with items := (copyItems f h c.items).2 }).1,
                   .ref (alloc (copyItems f h c.items).1 { c with items := (copyItems f h c.items).2 }).2)) := by
  show copyVal (f + 1) h (.ref a) = _
  rw [copyVal]
  cases h.store a <;> rfl

/-- nesting depth below the fuel -/
def Depth (st : Addr → Option Cell) : Nat → Val → Prop
  | _, .atom _ => True
  | 0, .ref _ => False
  | n + 1, .ref a => ∃ c, st a = some c ∧ ∀ kv ∈ c.items, Depth st n kv.2

/-- everything reachable from the value (within the fuel) was allocated at or above `lo` -/
def Fresh (lo : Addr) (st : Addr → Option Cell) : Nat → Val → Prop
  | _, .atom _ => True
  | 0, .ref _ => False
  | n + 1, .ref a => lo ≤ a ∧ ∃ c, st a = some c ∧ ∀ kv ∈ c.items, Fresh lo st n kv.2

/-- a deep rendering of a value: what a structural snapshot sees -/
inductive Tree where
  | atom (n : Nat)
  | node (isList : Bool) (kids : List (Nat × Tree))
  | cut                            -- fuel exhausted / dangling
  deriving Repr

def snap (st : Addr → Option Cell) : Nat → Val → Tree
  | _, .atom n => .atom n
  | 0, .ref _ => .cut
  | f + 1, .ref a =>
    match st a with
    | none => .cut
    | some c => .node c.isList (c.items.map fun kv => (kv.1, snap st f kv.2))

/-- references stored in cells below `lo` stay below `lo` (static state does not point into
    request-allocated cells) -/
def StaticClosed (lo : Addr) (st : Addr → Option Cell) : Prop :=
  ∀ a c, a < lo → st a = some c → ∀ kv ∈ c.items, ∀ b, kv.2 = .ref b → b < lo

end Idpy.Heap
