/-
The data flows behind the C20 findings, transcribed onto the heap model.

`usageFlow`: `AuthzHandling.usage_rules(client_id)` — deep copy of the provider-wide rules, the
client's own `token_usage_rules` merged in (`rule.update(per_client_rule)`: values by reference) —
followed by what the OIDC token helper does with the result
(`usage_rules["authorization_code"]["supports_minting"].append("refresh_token")`).
`copyClient = true` is the code after the fix (the client's rules are deep-copied first),
`false` the code before it.
-/
import IdpyVerif.Model.Heap
namespace Idpy.Heap

def getItem (c : Cell) (k : Nat) : Option Val := (c.items.find? (fun kv => kv.1 = k)).map (·.2)

def cellOf (h : Heap) : Val → Option (Addr × Cell)
  | .ref a => (h.store a).map fun c => (a, c)
  | .atom _ => none

/-- keys and atoms: 1 = "authorization_code", 2 = "supports_minting", 9 = "refresh_token" -/
def kAC : Nat := 1
def kSM : Nat := 2
def aRT : Nat := 9

def usageFlow (copyClient : Bool) (h : Heap) (gc cl : Val) : Heap :=
  let r1 := copyVal 3 h gc
  let r2 := if copyClient then copyVal 3 r1.1 cl else (r1.1, cl)
  let hh := r2.1
  match cellOf hh r1.2, cellOf hh r2.2 with
  | some (_, rc), some (_, pcc) =>
    match getItem rc kAC, getItem pcc kAC with
    | some rule, some pcRule =>
      match cellOf hh rule, cellOf hh pcRule with
      | some (a1, ruleC), some (_, pcRuleC) =>
        -- rule.update(pc_rule): the client's entries win, their values are taken by reference
        let h1 := write hh a1 { ruleC with items := pcRuleC.items ++ ruleC.items.filter (fun kv => !(pcRuleC.items.any (fun x => x.1 = kv.1))) }
        -- usage_rules["authorization_code"]["supports_minting"].append("refresh_token")
        match getItem pcRuleC kSM with
        | some sm =>
          match cellOf h1 sm with
          | some (t, smC) => write h1 t { smC with items := smC.items ++ [(smC.items.length, .atom aRT)] }
          | none => h1
        | none => h1
      | _, _ => hh
    | _, _ => hh
  | _, _ => hh

/-- per-request settings kept on a long-lived object (the revocation endpoint's
    `self.token_types_supported = …`, the userinfo endpoint's `self.config["policy"] = …`,
    `request.c_param[token_type] = …` on a class-level table): a write to a static cell.
    `local = true` is the code after the fixes: the value goes into a cell allocated for the request -/
def settingFlow (local_ : Bool) (h : Heap) (endpoint : Addr) (k : Nat) (v : Val) : Heap :=
  if local_ then
    (alloc h { isList := false, items := [(k, v)] }).1
  else
    match h.store endpoint with
    | some c => write h endpoint { c with items := (k, v) :: c.items.filter (fun kv => kv.1 ≠ k) }
    | none => h

end Idpy.Heap
