/-
Model of `idpyoidc.impexp.ImpExp.dump` / `load` for one object.

An object is a valuation of attribute names; values are abstract (`Nat`), `0` stands for Python
`None` (and, for attributes with a special dump function, for any falsy value): `dump` skips such
attributes, `load` assigns only what the dump contains to a FRESH instance built from the same
configuration, every other attribute keeps the value the constructor gave it.
Nested objects are values here: the theorem applies level by level (a nested `ImpExp` value is
restored by the same `dump`/`load` pair, see `Props/C13.lean`).
-/
import IdpyVerif.Base
namespace Idpy.ImpExp

abbrev Attr := String
abbrev Val := Nat
abbrev Obj := Attr → Val

/-- `ImpExp.dump()` for the class's `parameter` keys -/
def dump (exported : List Attr) (o : Obj) : List (Attr × Val) :=
  exported.filterMap (fun a => if o a = 0 then none else some (a, o a))

/-- `cls(**init_args).load(d)` -/
def load (fresh : Obj) (d : List (Attr × Val)) : Obj :=
  fun a => match d.lookup a with
    | some v => v
    | none => fresh a

/-- an attribute survives export/import when it is exported — unless it is `None` now and the
    constructor gives it another value — or when it is not exported and the constructor re-derives
    it from the configuration -/
def Survives (exported : List Attr) (fresh o : Obj) (a : Attr) : Prop :=
  (a ∈ exported ∧ (o a ≠ 0 ∨ fresh a = 0)) ∨ (a ∉ exported ∧ fresh a = o a)

end Idpy.ImpExp
