/-
Model of request objects (JAR) passed by value at the authorization endpoint and of pushed
authorization requests (PAR): what takes effect, and when.

`RO` is the request object after idealised JWS processing (the harness knows which key signed
it): `verifies` = `from_jwt` succeeds — the signature is valid under a key the key jar holds for
the identified client / the object's issuer, or the header says alg=none (no verification).
-/
import IdpyVerif.Base
namespace Idpy.Jar

abbrev Params := List (Str × Str)

structure RO where
  verifies : Bool
  alg : String
  clientId : Option Str          -- client_id inside the object
  iss : Option Str := none       -- iss inside the object (from_jwt picks the verification keys by it)
  params : Params                -- all parameters inside the object (incl. client_id when present)
  deriving Repr

structure Policy where
  registeredAlg : Option String  -- the client's request_object_signing_alg
  providerAlgs : List String     -- request_object_signing_alg_values_supported

/-- `AllowedAlgorithms(client, alg, "sign")` -/
def allowedAlg (p : Policy) (alg : String) : Bool :=
  match p.registeredAlg with
  | some a => alg = a
  | none => p.providerAlgs.contains alg

inductive Res where
  | refused                      -- error message or exception: the request does not proceed
  | effective (ps : Params)      -- the parameters the endpoint goes on with
  deriving Repr

/-- by value: `request.verify` merges (inner replaces everything), then — after the fix for
    F-C16-a/b/e — the algorithm policy, the issuer and the client match are enforced -/
def byValue (p : Policy) (client : Str) (outer : Params) (ro : Option RO) : Res :=
  match ro with
  | none => .effective outer
  | some o =>
    if !o.verifies then .refused else
    if !allowedAlg p o.alg then .refused else
    -- keys are looked up by the object's issuer: another issuer is refused (fix for F-C16-e), and a
    -- signed object without issuer finds no key at all (NoSuitableSigningKeys)
    if o.iss.isSome ∧ o.iss ≠ some client then .refused else
    if o.iss.isNone ∧ o.alg ≠ "none" then .refused else
    if o.clientId.isSome ∧ o.clientId ≠ some client then .refused else
    -- outer parameters absent from the object are deleted — client_id included: an object without
    -- client_id leaves the request without one and the endpoint refuses it (UnknownClient)
    if o.clientId.isNone then .refused else
    .effective o.params            -- outer parameters absent from the object are deleted, the rest replaced

/-- `for k, v in object.items(): request[k] = v`: what the object says replaces the same-named outer parameter, the other outer
    parameters stay -/
def overlay (outer inner : Params) : Params :=
  inner ++ outer.filter (fun kv => !inner.any (fun iv => iv.1 == kv.1))

/-- by reference (`request_uri`, fetched by the provider): `from_jwt` verifies under the keys of the object's issuer — the identified
    client's when the object names none —, then the algorithm policy and (after the fix for F-C16-g) the issuer match, and the
    object's parameters are laid over the outer ones. `verifies` = signed by the identified client. The code does NOT compare the
    object's client_id with the identified client (known finding F-C16-h: the repository's own test passes such an object). -/
def byReference (p : Policy) (client : Str) (outer : Params) (o : RO) : Res :=
  if !o.verifies then .refused else
  if !allowedAlg p o.alg then .refused else
  if o.iss.isSome ∧ o.iss ≠ some client then .refused else
  .effective (overlay outer o.params)

/-! ### PAR -/

structure ParEntry where
  urn : Nat
  client : Str                             -- the client that pushed (and was authenticated)
  params : Params
  expiresAt : Nat                          -- push time + the announced lifetime
  deriving Repr, DecidableEq

structure ParSt where
  next : Nat := 0                          -- source of fresh URNs (uuid4)
  db : List ParEntry := []
  now : Nat := 0

inductive ParOp where
  | push (client : Str) (ps : Params) (ttl : Nat)   -- authenticated push of a verified request; `ttl` is announced as expires_in
  | redeem (client : Str) (urn : Nat)      -- authorization request with request_uri=urn, carrying client_id
  | tick (n : Nat)

inductive ParOut where
  | urn (u : Nat)
  | proceeds (asClient : Str) (ps : Params)
  | refused
  | ok
  deriving Repr, DecidableEq

def parStep (s : ParSt) : ParOp → ParSt × ParOut
  | .push client ps ttl =>
    ({ s with next := s.next + 1, db := s.db ++ [{ urn := s.next, client := client, params := ps, expiresAt := s.now + ttl }] }, .urn s.next)
  | .redeem client u =>
    match s.db.find? (·.urn = u) with
    | some e =>
      -- one-time: the entry is deleted whatever happens next
      let s' := { s with db := s.db.filter (·.urn ≠ u) }
      if e.expiresAt < s.now then (s', .refused)            -- after the fix for F-C16-c: the announced lifetime is enforced
      else if e.client ≠ client then (s', .refused)         -- after the fix for F-C16-d: only the pushing client
      else (s', .proceeds e.client e.params)                -- the stored request replaces the incoming one
    | none => (s, .refused)
  | .tick n => ({ s with now := s.now + n }, .ok)

def parRun : ParSt → List ParOp → ParSt × List ParOut
  | s, [] => (s, [])
  | s, op :: ops =>
    let (s1, o) := parStep s op
    let (s2, os) := parRun s1 ops
    (s2, o :: os)

end Idpy.Jar
