/-
Model of the relying party's state handling: `Current` (`_db`: state ↦ record, `_map`: nonce / sub ↦
state, ONE namespace), `StandAloneClient.init_authorization` / `finalize_auth` / `get_tokens`
(response handling) / `get_user_info` (response handling) and `RPHandler.finalize` dispatching on
the issuer the response is delivered for.

Responses are records whose fields may come from any flow (the harness recombines genuine
parameters).  ID tokens inside responses are already individually valid in the sense of C08
(signature, issuer, audience, time): here only what binds them to a flow matters — nonce and sub.
-/
import IdpyVerif.Base
namespace Idpy.RPState

structure IdT where
  nonce : Option Str
  sub : Str
  atHash : Option Str := none        -- the access token the `at_hash` claim was computed over (hash idealised as injective)
  cHash : Option Str := none         -- the code the `c_hash` claim was computed over
  deriving Repr, DecidableEq

structure Rec where
  iss : Str                          -- issuer the state was created for
  nonce : Option Str := none         -- nonce sent in the request of this state
  code : Option Str := none
  accessToken : Option Str := none
  idt : Option IdT := none           -- the verified ID token recorded for this state
  userSub : Option Str := none       -- `sub` of the user info recorded for this state
  deriving Repr, DecidableEq

structure Client where
  issuer : Str
  clientId : Str
  db : List (Str × Rec) := []
  map : List (Str × Str) := []       -- nonce / sub ↦ state
  deriving Repr, DecidableEq

def lookup {β} (l : List (Str × β)) (k : Str) : Option β := (l.find? (fun e => e.1 = k)).map (·.2)
def put {β} : List (Str × β) → Str → β → List (Str × β)
  | [], k, v => [(k, v)]
  | (k', v') :: rest, k, v => if k' = k then (k, v) :: rest else (k', v') :: put rest k v

structure AuthzResp where
  state : Option Str
  code : Option Str
  issParam : Option Str := none      -- RFC 9207 `iss`
  clientIdParam : Option Str := none
  idt : Option IdT := none           -- ID token delivered from the authorization endpoint
  accessToken : Option Str := none   -- access token delivered from the authorization endpoint (response types with `token`)
  audParam : Option Str := none      -- an `aud` response parameter (not a registered one; the OIDC response class looks at it)
  deriving Repr

structure TokenResp where
  accessToken : Str
  idt : Option IdT
  deriving Repr

inductive Op where
  | begin (state nonce : Str)                       -- init_authorization: fresh state and nonce
  | authz (r : AuthzResp)                           -- finalize_auth(response)
  | token (state : Str) (r : TokenResp)             -- the token response obtained by get_tokens(state)
  | userinfo (state : Str) (sub : Str)              -- the user info obtained by get_user_info(state)
  deriving Repr

def mismatch (o : Option Str) (v : Str) : Bool :=
  match o with
  | some x => x != v
  | none => false

/-- a delivered ID token does not carry the nonce stored for this state (only checked when a nonce was stored) -/
def idtNonceBad (t : Option IdT) (stored : Option Str) : Bool :=
  match t, stored with
  | some t, some n => t.nonce != some n
  | _, _ => false

/-- `verify_id_token`: an artefact delivered beside the ID token is not the one the token's hash claim was computed over
    (a missing claim counts: "Missing at_hash property" / "Missing c_hash property") -/
def hashBad (t : Option IdT) (v : Option Str) (h : IdT → Option Str) : Bool :=
  match t, v with
  | some t, some x => h t != some x
  | _, _ => false

def subBad (t : Option IdT) (sub : Str) : Bool :=
  match t with
  | some t => t.sub != sub
  | none => false

def check (b : Bool) : Option Unit := if b then some () else none

/-- one step; `none` = an exception: the response is rejected -/
def tryStep (c : Client) : Op → Option Client
  | .begin s n =>
    some { c with db := put c.db s { iss := c.issuer, nonce := some n }, map := put c.map n s }
  | .authz r => do
    -- AuthorizationResponse.verify: the client_id and iss response parameters
    check (!mismatch r.clientIdParam c.clientId)
    check (!mismatch r.issParam c.issuer)
    let s ← r.state                                    -- KeyError: 'state'
    let rec ← lookup c.db s                            -- unknown state
    -- OIDC post_parse_response: a delivered ID token must carry the nonce stored for THIS state
    check (!idtNonceBad r.idt rec.nonce)
    check (rec.iss == c.issuer)                        -- else "Impersonator"
    -- verify_id_token: BOTH hash claims, each against the artefact delivered in this very response
    check (!hashBad r.idt r.accessToken (·.atHash))
    check (!hashBad r.idt r.code (·.cHash))
    check (!mismatch r.audParam c.clientId)            -- "not for me" (fix for F-C09-c: it used to SKIP the ID-token checks instead)
    some { c with db := put c.db s { rec with code := r.code.orElse (fun _ => rec.code), idt := r.idt.orElse (fun _ => rec.idt),
                                              accessToken := r.accessToken.orElse (fun _ => rec.accessToken) } }
  | .token s r => do
    let rec ← lookup c.db s
    match r.idt with
    | none => some { c with db := put c.db s { rec with accessToken := some r.accessToken } }
    | some t =>
      let n ← t.nonce                                  -- "Invalid nonce value"
      let s' ← lookup c.map n
      check (s' == s)                                  -- 'Someone has messed with "nonce"'
      check (rec.nonce == some n)                      -- the nonce stored for this state (fix for F-C09-a)
      some { c with db := put c.db s { rec with accessToken := some r.accessToken, idt := some t },
                    map := put c.map t.sub s }
  | .userinfo s sub => do
    let rec ← lookup c.db s
    check (!subBad rec.idt sub)                        -- 'Incorrect "sub" value'
    some { c with db := put c.db s { rec with userSub := some sub } }     -- (the sub ↦ state binding is made by `finalize` only)

def step (c : Client) (op : Op) : Client × Bool :=
  match tryStep c op with
  | some c' => (c', true)
  | none => (c, false)

def run (c : Client) : List Op → Client × List Bool
  | [] => (c, [])
  | op :: ops =>
    let (c1, o) := step c op
    let (c2, os) := run c1 ops
    (c2, o :: os)

/-! ### several issuers: `RPHandler` keeps one client per issuer and dispatches on the issuer the
response was delivered for -/

abbrev Handler := List Client

def deliver (h : Handler) (issuer : Str) (op : Op) : Handler × Bool :=
  match h.find? (·.issuer = issuer) with
  | none => (h, false)                                            -- KeyError: no client for that issuer
  | some c =>
    let (c', ok) := step c op
    (h.map (fun x => if x.issuer = issuer then c' else x), ok)

end Idpy.RPState
