/-
Model of dynamic client registration: the redirect-URI admission table
(`Registration.verify_redirect_uris`), the store/response bookkeeping of
`client_registration_setup` (fresh id, secret and registration access token; nothing is left
behind by a rejected request — after the fix for F-C19-a) and the read endpoint's token check.
A redirect URI is abstracted to the features the decision depends on (`UriShape`, computed by
the harness with urllib); the other metadata checks are the flag `otherOk`.
-/
import IdpyVerif.Base
namespace Idpy.Registration

inductive Scheme where | http | https | custom
  deriving DecidableEq, Repr

structure UriShape where
  scheme : Scheme
  loopbackName : Bool      -- hostname ∈ {"localhost", "127.0.0.1"}
  hasFragment : Bool
  deriving DecidableEq, Repr

/-- `verify_redirect_uris` for one URI (after the fix for F-C19-b: fragment test first) -/
def admits (native codeOnly : Bool) (u : UriShape) : Bool :=
  if u.hasFragment then false else
  if native then
    (u.scheme = .custom) || (u.scheme = .http && u.loopbackName)
  else
    if !codeOnly && u.scheme != .https then false
    else if u.scheme = .custom then false
    else true

structure ClientRec where
  id : Nat
  secret : Nat
  token : Nat                    -- registration access token
  uris : List UriShape
  deriving Repr

structure St where
  next : Nat := 0                -- source of fresh ids / secrets / tokens (random generators)
  cdb : List ClientRec := []

structure Req where
  native : Bool
  codeOnly : Bool                -- response_types == ["code"]
  uris : List UriShape
  otherOk : Bool                 -- every other metadata check passes
  deriving Repr

inductive Out where
  | registered (id secret token : Nat)
  | error
  | read (id : Nat)
  | refused
  deriving DecidableEq, Repr

inductive Op where
  | register (r : Req)
  | read (token client : Nat)

def step (s : St) : Op → St × Out
  | .register r =>
    if r.otherOk ∧ r.uris.all (admits r.native r.codeOnly) then
      ({ next := s.next + 3, cdb := s.cdb ++ [{ id := s.next, secret := s.next + 1, token := s.next + 2, uris := r.uris }] },
       .registered s.next (s.next + 1) (s.next + 2))
    else (s, .error)
  | .read token client =>
    -- bearer token must map to the requested client_id
    match s.cdb.find? (fun c => c.token = token) with
    | some c => if c.id = client then (s, .read client) else (s, .refused)
    | none => (s, .refused)

def run : St → List Op → St × List Out
  | s, [] => (s, [])
  | s, op :: ops =>
    let (s1, o) := step s op
    let (s2, os) := run s1 ops
    (s2, o :: os)

/-! ### capability matching of a single-valued registration parameter

`Registration.filter_client_request` + `match_claim`: a parameter the table `register2preferred` does not know passes unchecked; one it
knows is held against the list the provider's metadata announces under the mapped name — when the metadata has that name at all — and is
DROPPED (not stored, not echoed) when the list is empty or does not contain the value. -/

def lookupS (t : List (String × String)) (k : String) : Option String := (t.find? (fun e => e.1 == k)).map (·.2)

def filterParam (table : List (String × String)) (announced : String → Option (List String)) (k v : String) : Option String :=
  match lookupS table k with
  | none => some v
  | some sup =>
    match announced sup with
    | none => some v
    | some l => if l.contains v then some v else none

end Idpy.Registration
