/-
Model of `verify_uri` (matching of redirect_uri / post_logout_redirect_uri against the
registered ones) and of the delivery of the response (query, fragment, form_post).

The stdlib parsers (`urllib.parse.unquote/urlparse/parse_qs`) sit at the interface: the harness
hands the model the components they produce (`Parsed`); what is modelled is the decision logic
around them.  Delivery is modelled completely on top of `UrlEnc`.
-/
import IdpyVerif.Base
import IdpyVerif.Model.UrlEnc
namespace Idpy.Redirect
open Idpy.UrlEnc

abbrev Query := List (Str × List Str)        -- `parse_qs` dict, keys sorted by the harness

structure Parsed where
  clean : Bool            -- decoded string has no leading C0/space and no TAB/CR/LF
  scheme : Str
  netloc : Str
  path : Str
  params : Str
  fragment : Str
  hostname : Option Str   -- `ParseResult.hostname` (lower-cased), none when empty
  portOk : Bool           -- `.port` does not raise
  hasPort : Bool          -- `.port` is truthy (not None, not 0)
  query : Query
  deriving DecidableEq, Repr

inductive Verdict where
  | ok
  | uriError         -- URIError escapes (fragment, host, path, port, control characters)
  | redirectError    -- RedirectURIError: returned as an error message, no redirect
  deriving DecidableEq, Repr

def isLoopbackHttp (p : Parsed) : Bool :=
  p.scheme = Wire.lit "http" ∧
  (p.hostname = some (Wire.lit "127.0.0.1") ∨ p.hostname = some (Wire.lit "::1") ∨
   p.hostname = some (Wire.lit "0000:0000:0000:0000:0000:0000:0000:0001"))

/-- `netloc.rsplit(":", 1)[0]` -/
def dropLastColon (s : Str) : Str :=
  match (s.reverse.dropWhile (· ≠ 58)) with
  | [] => s
  | _ :: rest => rest.reverse

def removePort (p : Parsed) : Parsed :=
  if !p.hasPort ∨ p.netloc.isEmpty then p else { p with netloc := dropLastColon p.netloc }

/-- the comparison `ParseResult == ParseResult` (query replaced by None on both sides) -/
def sameBase (a b : Parsed) : Bool :=
  a.scheme = b.scheme ∧ a.netloc = b.netloc ∧ a.path = b.path ∧ a.params = b.params ∧ a.fragment = b.fragment

/-- native clients: the port of an http loopback literal is dropped, on both sides -/
def norm (native : Bool) (p : Parsed) : Parsed := if native ∧ isLoopbackHttp p then removePort p else p

def matchesReg (native : Bool) (req : Parsed) (rq : Parsed × Query) : Bool :=
  sameBase (norm native req) (norm native rq.1) ∧ req.query = rq.2

def verifyUri (native oidc : Bool) (req : Parsed) (registered : List (Parsed × Query)) : Verdict :=
  if !req.clean then .uriError else
  if !req.fragment.isEmpty then .uriError else
  if req.hostname.isNone then .uriError else
  if !req.path.isEmpty ∧ req.path.head? ≠ some 47 then .uriError else
  if !req.portOk then .uriError else
  if registered.isEmpty then (if oidc then .redirectError else .ok) else
  if registered.any (matchesReg native req) then .ok else .redirectError

/-! ### delivery -/

inductive Mode where | query | fragment
  deriving DecidableEq, Repr

/-- `Message.request(location, fragment_enc)`: `uri + ('?' | '&' | '#') + urlencode(params)` -/
def deliver (mode : Mode) (uri : Str) (ps : List (List Nat × List Nat)) : Str :=
  if ps.isEmpty then uri else
  match mode with
  | .fragment => uri ++ 35 :: urlencode ps
  | .query => if uri.contains 63 then uri ++ amp :: urlencode ps else uri ++ 63 :: urlencode ps

/-- `html.escape(s, quote=True)` on code points -/
def escapeChar (c : Nat) : Str :=
  if c = 38 then Wire.lit "&amp;" else if c = 60 then Wire.lit "&lt;" else if c = 62 then Wire.lit "&gt;"
  else if c = 34 then Wire.lit "&quot;" else if c = 39 then Wire.lit "&#x27;" else [c]

def escape (s : Str) : Str := s.flatMap escapeChar

/-- the markup-significant characters -/
def isMarkup (c : Nat) : Bool := c = 60 ∨ c = 62 ∨ c = 34 ∨ c = 39

end Idpy.Redirect

namespace Idpy.Redirect
/-- inverse of `escape` for the five entities it produces (what an HTML parser does with them) -/
def unescape : Str → Str
  | 38 :: 97 :: 109 :: 112 :: 59 :: t => 38 :: unescape t
  | 38 :: 108 :: 116 :: 59 :: t => 60 :: unescape t
  | 38 :: 103 :: 116 :: 59 :: t => 62 :: unescape t
  | 38 :: 113 :: 117 :: 111 :: 116 :: 59 :: t => 34 :: unescape t
  | 38 :: 35 :: 120 :: 50 :: 55 :: 59 :: t => 39 :: unescape t
  | c :: t => c :: unescape t
  | [] => []
end Idpy.Redirect
