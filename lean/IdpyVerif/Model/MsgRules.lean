/-
The cross-parameter rules of the message classes that have one (the bodies of the class-specific
`verify` methods, beyond the generic schema check): decision logic, stated outright.
`true` = the rule holds (verify goes on), `false` = verify raises or returns False.

Inputs are what the rule looks at: presence flags, short lists of strings, the keyword arguments
the caller passes.  The harness enumerates the FULL table of each rule's inputs on the real class
and compares.  Time-dependent rules (exp / iat / nbf) and embedded signed objects are C08 / C16.
-/
import IdpyVerif.Base
namespace Idpy.MsgRules
open Idpy Idpy.Wire

/-- Python `needle in hay` for strings -/
def isPrefix : Str → Str → Bool
  | [], _ => true
  | _ :: _, [] => false
  | a :: as, b :: bs => a == b && isPrefix as bs

def containsSub (needle : Str) : Str → Bool
  | [] => needle.isEmpty
  | c :: cs => isPrefix needle (c :: cs) || containsSub needle cs

/-- `str.lower()` as far as a comparison with an ASCII word can tell -/
def lowerAscii (s : Str) : Str := s.map (fun c => if 65 ≤ c ∧ c ≤ 90 then c + 32 else c)

/-- `OauthClientMetadata.verify`: the code and implicit grants need somewhere to redirect to -/
def clientMetadata (grantTypes : List Str) (hasRedirectUris : Bool) : Bool :=
  !(grantTypes.any (fun g => g == lit "authorization_code" || g == lit "implicit")) || hasRedirectUris

/-- `OauthClientInformationResponse.verify` -/
def clientInformation (grantTypes : List Str) (hasRedirectUris hasSecret hasExpiry : Bool) : Bool :=
  clientMetadata grantTypes hasRedirectUris && (!hasSecret || hasExpiry)

/-- `oidc.AuthorizationRequest.verify` (the part after the request-object handling) -/
def oidcAuthorizationRequest (rt : List Str) (hasNonce : Bool) (scope : List Str) (prompt : Option (List Str)) : Bool :=
  (!(rt.contains (lit "id_token")) || hasNonce) &&
  scope.contains (lit "openid") &&
  (!(scope.contains (lit "offline_access")) || (match prompt with | some p => p.contains (lit "consent") | none => false)) &&
  (match prompt with | some p => !(p.contains (lit "none") && decide (p.length > 1)) | none => true)

/-- `RegistrationRequest.verify`: `pairs` = (alg present, enc present) for request_object_encryption,
    id_token_encrypted_response, userinfo_encrypted_response -/
def registrationRequest (initiateLoginHttps : Option Bool) (pairs : List (Bool × Bool)) (authSigningAlgNone : Bool) : Bool :=
  initiateLoginHttps.getD true && pairs.all (fun p => !p.2 || p.1) && !authSigningAlgNone

/-- `RegistrationResponse.verify`: both or neither. (The class copies the request's parameter table but
    does not inherit from it: none of the request's rules is applied to a response.) -/
def registrationResponse (hasUri hasAt : Bool) : Bool := hasUri == hasAt

/-- `ProviderConfigurationResponse.verify` -/
def providerConfiguration (scopes : Option (List Str)) (issuerHttps allowHttp : Bool) (authAlgs : Option (List Str))
    (idTokenAlgs : List Str) (issuerPlain : Bool) (responseTypes : List Str) (hasTokenEndpoint : Bool) : Bool :=
  (match scopes with | some s => s.contains (lit "openid") | none => true) &&
  (allowHttp || issuerHttps) &&
  (match authAlgs with | some a => !a.contains (lit "none") | none => true) &&
  idTokenAlgs.any (fun a => lowerAscii a != lit "none") &&
  issuerPlain &&
  (!(responseTypes.any (containsSub (lit "code"))) || hasTokenEndpoint)

/-- `IdToken.verify`, audience part: I am among the recipients; several recipients need an `azp`
    which is one of them; an `azp` names me -/
def idTokenAudience (aud : List Str) (azp : Option Str) (me : Option Str) : Bool :=
  (match me with | some m => aud.contains m | none => true) &&
  (if aud.length > 1 then (match azp with | some a => aud.contains a | none => false) else true) &&
  (match azp, me with | some a, some m => a == m | _, _ => true)

/-- `LogoutToken.verify` (without the time and algorithm tests) -/
def logoutToken (hasNonce : Bool) (eventKeys : List Str) (eventValueEmpty : Bool) (hasSub hasSid : Bool)
    (aud : List Str) (wantAud : Option Str) (iss : Str) (wantIss : Option Str) : Bool :=
  !hasNonce &&
  (match eventKeys with
   | [k] => k == lit "http://schemas.openid.net/event/backchannel-logout" && eventValueEmpty
   | _ => false) &&
  (hasSub || hasSid) &&
  (match wantAud with | some a => aud.contains a | none => true) &&
  (match wantIss with | some i => i == iss | none => true)

/-- `oauth2.AuthorizationResponse.verify`: what the response says about client and issuer must be
    what the caller expects, when the caller says what it expects -/
def authorizationResponse (clientId wantClientId iss wantIss : Option Str) : Bool :=
  (match clientId, wantClientId with | some a, some b => a == b | _, _ => true) &&
  (match iss, wantIss with | some a, some b => a == b | _, _ => true)

/-- `EndSessionRequest.verify`, presence part: a post-logout redirect needs an ID-token hint -/
def endSessionRequest (hasPostLogout hasHint : Bool) : Bool := !hasPostLogout || hasHint

end Idpy.MsgRules
