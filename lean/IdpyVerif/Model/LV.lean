/-
Model of `idpyoidc.server.util.lv_pack` / `lv_unpack` (length:value framing).

    def lv_pack(*args):      "".join("{}:{}".format(len(a), a) for a in args)
    def lv_unpack(txt):
        txt = txt.strip(); res = []
        while txt:
            l, v = txt.split(":", 1)      # ValueError without ':'
            res.append(v[: int(l)]); txt = v[int(l):]
        return res

Domain of exactness: the length prefix is either a non-empty run of ASCII digits
or something on which `int()` raises; Python's `int()` leniencies (sign, `_`,
inner whitespace, non-ASCII digits) are outside the model (they only occur in
texts that did not come from `lv_pack`, and every consumer authenticates the
text before unpacking it).
-/
import IdpyVerif.Base
namespace Idpy.LV

@[irreducible] def dch (d : Nat) : Nat := 48 + d
@[irreducible] def dval (c : Nat) : Nat := c - 48
@[irreducible] def isDig (c : Nat) : Bool := decide (48 ≤ c ∧ c ≤ 57)
@[irreducible] def colon : Nat := 58
theorem dch_eq (d) : dch d = 48 + d := by unfold dch; rfl
theorem dval_eq (c) : dval c = c - 48 := by unfold dval; rfl
theorem isDig_eq (c) : isDig c = decide (48 ≤ c ∧ c ≤ 57) := by unfold isDig; rfl
theorem colon_eq : colon = 58 := by unfold colon; rfl

/-- Python `str.isspace()` per code point (the set `str.strip()` removes). -/
@[irreducible] def isWs (c : Nat) : Bool :=
  decide ((9 ≤ c ∧ c ≤ 13) ∨ (28 ≤ c ∧ c ≤ 32) ∨ c = 133 ∨ c = 160 ∨ c = 5760 ∨
          (8192 ≤ c ∧ c ≤ 8202) ∨ c = 8232 ∨ c = 8233 ∨ c = 8239 ∨ c = 8287 ∨ c = 12288)
theorem isWs_eq (c) : isWs c = decide ((9 ≤ c ∧ c ≤ 13) ∨ (28 ≤ c ∧ c ≤ 32) ∨ c = 133 ∨ c = 160 ∨ c = 5760 ∨
          (8192 ≤ c ∧ c ≤ 8202) ∨ c = 8232 ∨ c = 8233 ∨ c = 8239 ∨ c = 8287 ∨ c = 12288) := by
  unfold isWs; rfl

def digitsAux : Nat → Nat → Str → Str
  | 0, _, acc => acc
  | fuel+1, n, acc =>
    if n < 10 then dch n :: acc else digitsAux fuel (n / 10) (dch (n % 10) :: acc)
/-- `str(n)` for a natural number -/
def digits (n : Nat) : Str := digitsAux (n + 1) n []

def packOne (a : Str) : Str := digits a.length ++ colon :: a
def pack : List Str → Str
  | [] => []
  | a :: as => packOne a ++ pack as

def stripL (s : Str) : Str := s.dropWhile isWs
def stripR (s : Str) : Str := (s.reverse.dropWhile isWs).reverse
def strip (s : Str) : Str := stripR (stripL s)

/-- read a length prefix up to the first colon: `none` = Python raises -/
def parseLen (acc : Nat) (seen : Bool) : Str → Option (Nat × Str)
  | [] => none
  | c :: cs =>
    if c = colon then (if seen then some (acc, cs) else none)
    else if isDig c then parseLen (acc * 10 + dval c) true cs
    else none

def unpackCore : Nat → Str → Option (List Str)
  | 0, _ => none
  | fuel+1, txt =>
    if txt.isEmpty then some [] else
    match parseLen 0 false txt with
    | none => none
    | some (n, v) =>
      match unpackCore fuel (v.drop n) with
      | none => none
      | some r => some (v.take n :: r)

/-- `lv_unpack`; `none` = an exception escapes (ValueError) -/
def unpack (txt : Str) : Option (List Str) :=
  let t := strip txt
  unpackCore (t.length + 1) t

end Idpy.LV
