/-
`urllib.parse.quote_plus` / `unquote_plus` / `urlencode` / `parse_qsl`, at the byte level.

Input of `quotePlus` is the UTF-8 encoding of the Python string (bytes as Nat < 256); output is
ASCII text.  `unquotePlus` maps ASCII text (raw non-ASCII code points are assumed absent: the
harness passes `str.encode('utf-8')` of anything non-ASCII) back to bytes.  Python's
`decode('utf-8', errors='replace')` of the result is outside the model: exact on inputs whose
percent-escapes decode to valid UTF-8.
-/
import IdpyVerif.Base
namespace Idpy.UrlEnc

@[irreducible] def pct : Nat := 37      -- '%'
@[irreducible] def plus : Nat := 43     -- '+'
@[irreducible] def sp : Nat := 32       -- ' '
@[irreducible] def amp : Nat := 38      -- '&'
@[irreducible] def eqc : Nat := 61      -- '='
theorem pct_eq : pct = 37 := by unfold pct; rfl
theorem plus_eq : plus = 43 := by unfold plus; rfl
theorem sp_eq : sp = 32 := by unfold sp; rfl
theorem amp_eq : amp = 38 := by unfold amp; rfl
theorem eqc_eq : eqc = 61 := by unfold eqc; rfl

/-- characters `quote` never escapes: ALPHA / DIGIT / "_.-~" -/
@[irreducible] def isSafe (c : Nat) : Bool :=
  decide ((48 ≤ c ∧ c ≤ 57) ∨ (65 ≤ c ∧ c ≤ 90) ∨ (97 ≤ c ∧ c ≤ 122) ∨ c = 95 ∨ c = 46 ∨ c = 45 ∨ c = 126)
theorem isSafe_eq (c) : isSafe c = decide ((48 ≤ c ∧ c ≤ 57) ∨ (65 ≤ c ∧ c ≤ 90) ∨ (97 ≤ c ∧ c ≤ 122) ∨ c = 95 ∨ c = 46 ∨ c = 45 ∨ c = 126) := by
  unfold isSafe; rfl

/-- upper-case hex digit of n < 16 -/
@[irreducible] def hexd (n : Nat) : Nat := if n < 10 then 48 + n else 55 + n
theorem hexd_eq (n) : hexd n = if n < 10 then 48 + n else 55 + n := by unfold hexd; rfl

/-- value of a hex digit character (either case) -/
@[irreducible] def unhex (c : Nat) : Option Nat :=
  if 48 ≤ c ∧ c ≤ 57 then some (c - 48)
  else if 65 ≤ c ∧ c ≤ 70 then some (c - 55)
  else if 97 ≤ c ∧ c ≤ 102 then some (c - 87)
  else none
theorem unhex_eq (c) : unhex c = (if 48 ≤ c ∧ c ≤ 57 then some (c - 48)
  else if 65 ≤ c ∧ c ≤ 70 then some (c - 55)
  else if 97 ≤ c ∧ c ≤ 102 then some (c - 87)
  else none) := by unfold unhex; rfl

def quoteByte (b : Nat) : Str :=
  if isSafe b then [b] else if b = sp then [plus] else [pct, hexd (b / 16), hexd (b % 16)]

/-- `quote_plus(s)` on the UTF-8 bytes of `s` -/
def quotePlus : List Nat → Str
  | [] => []
  | b :: bs => quoteByte b ++ quotePlus bs

def plusToSp (c : Nat) : Nat := if c = plus then sp else c

/-- `unquote_plus` to bytes: '+' ↦ space, valid `%XX` ↦ byte, everything else literal -/
def unquotePlus : Str → List Nat
  | [] => []
  | [c] => [plusToSp c]
  | [c, d] => [plusToSp c, plusToSp d]
  | c :: a :: b :: rest =>
    if c = pct then
      match unhex a, unhex b with
      | some x, some y => (16 * x + y) :: unquotePlus rest
      | _, _ => c :: unquotePlus (a :: b :: rest)
    else plusToSp c :: unquotePlus (a :: b :: rest)

/-- `unquote` (no '+' handling) -/
def unquote : Str → List Nat
  | [] => []
  | [c] => [c]
  | [c, d] => [c, d]
  | c :: a :: b :: rest =>
    if c = pct then
      match unhex a, unhex b with
      | some x, some y => (16 * x + y) :: unquote rest
      | _, _ => c :: unquote (a :: b :: rest)
    else c :: unquote (a :: b :: rest)

/-- `urlencode(pairs)` with byte-string keys and values -/
def urlencode : List (List Nat × List Nat) → Str
  | [] => []
  | [(k, v)] => quotePlus k ++ eqc :: quotePlus v
  | (k, v) :: p :: ps => quotePlus k ++ eqc :: quotePlus v ++ amp :: urlencode (p :: ps)

/-- split at the first occurrence of `c` -/
def splitFirst (c : Nat) : Str → Str × Option Str
  | [] => ([], none)
  | x :: xs => if x = c then ([], some xs) else
    let (a, b) := splitFirst c xs
    (x :: a, b)

/-- split on every `c` -/
def splitAll (c : Nat) : Str → List Str
  | [] => [[]]
  | x :: xs =>
    if x = c then [] :: splitAll c xs
    else match splitAll c xs with
      | [] => [[x]]
      | p :: ps => (x :: p) :: ps

/-- `parse_qsl(qs, keep_blank_values)`: pairs in order; fields without '=' and (unless kept)
    blank values are dropped -/
def parseQsl (keepBlank : Bool) (qs : Str) : List (List Nat × List Nat) :=
  (splitAll amp qs).filterMap fun field =>
    if field.isEmpty then none else
    match splitFirst eqc field with
    | (_, none) => if keepBlank then some (unquotePlus field, []) else none
    | (k, some v) => if v.isEmpty ∧ ¬ keepBlank then none else some (unquotePlus k, unquotePlus v)

end Idpy.UrlEnc
