/-
Model of token resolution at the endpoints (session_manager.get_session_info_by_token →
handler.info → branch_info → grant.get_token / find_token).

The decisive step is the last one: an EXACT string comparison of the offered value with the
values of the tokens issued under the resolved grant, followed by a class test.  `decode` (the
handler layer: Fernet/base64 or JWS verification, `lv_unpack`, class tag, sid) is an arbitrary
function here — the main theorem needs no assumption about it.
-/
import IdpyVerif.Base
namespace Idpy.Resolve

inductive Cls where | code | access | refresh | idtoken
  deriving DecidableEq, Repr

inductive Slot where
  | tokenCode        -- `code` at the token endpoint (handler_key authorization_code)
  | userinfo         -- bearer token at userinfo (handler_key access_token)
  | refreshGrant     -- `refresh_token` at the token endpoint (handler_key refresh_token)
  | introspect       -- `token` at introspection (any handler; access or refresh reported)
  | revoke           -- `token` at revocation (any handler)
  | bearerAuth       -- bearer token as CLIENT AUTHENTICATION at the revocation endpoint (handler_key access_token)
  deriving DecidableEq, Repr

structure Minted where
  value : Str
  cls : Cls
  session : Nat          -- the (user, client, grant) it was minted in
  active : Bool          -- is_active() now, session still stored
  deriving Repr

def slotAccepts : Slot → Cls → Bool
  | .tokenCode, .code => true
  | .userinfo, .access => true
  | .refreshGrant, .refresh => true
  | .introspect, .access => true
  | .introspect, .refresh => true
  | .revoke, .code => true
  | .revoke, .access => true
  | .revoke, .refresh => true
  | .bearerAuth, .access => true
  | _, _ => false

/-- what the handler layer yields for a string: the session id it names, or nothing -/
abbrev Decode := Slot → Str → Option Nat

/-- the endpoint honours `s` in `slot`: returns the session it answers for -/
def honour (decode : Decode) (minted : List Minted) (slot : Slot) (s : Str) : Option Nat :=
  match decode slot s with
  | none => none
  | some sid =>
    -- exact-value lookup among the tokens of that session, then the class test and liveness
    match minted.find? (fun t => t.session = sid ∧ t.value = s) with
    | some t => if slotAccepts slot t.cls ∧ t.active then some sid else none
    | none => none

end Idpy.Resolve
