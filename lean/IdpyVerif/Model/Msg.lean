/-
Schema-generic model of `idpyoidc.message.Message` serialisation: dict (= JSON modulo the
stdlib `json` text codec) and application/x-www-form-urlencoded.

Values are modelled for the five kinds that cover >90 % of all declared parameters
(str, int, bool, `list_serializer` lists, `sp_sep_list_serializer` lists) plus untyped extra
parameters; every other (type, ser, deser) triple is `Kind.other` and its values are opaque
(`Val.opaque`), round-tripped by the real code only.
Strings are UTF-8 byte lists (the form encoding works on bytes).
-/
import IdpyVerif.Base
import IdpyVerif.Model.UrlEnc
import IdpyVerif.Model.LV
namespace Idpy.Msg
open Idpy.UrlEnc

abbrev Bytes := List Nat

inductive Kind where
  | str | int | bool | listStr | spSep | other
  deriving DecidableEq, Repr

inductive Val where
  | str (s : Bytes)
  | int (n : Nat)             -- non-negative integers (timestamps, lifetimes); negative: outside the model
  | bool (b : Bool)
  | strs (l : List Bytes)
  | opaque (tag : Nat)
  deriving DecidableEq, Repr

abbrev Msg := List (Bytes × Val)          -- `_dict`, insertion ordered

/-- `" ".join(l)` -/
def joinSp : List Bytes → Bytes
  | [] => []
  | [a] => a
  | a :: b :: rest => a ++ sp :: joinSp (b :: rest)

/-- `s.split(" ")` -/
def splitSp (s : Bytes) : List Bytes := splitAll sp s

/-- value as stored in the dict / JSON representation: `ser(val, "dict")` -/
def serDict (k : Kind) (v : Val) : Val :=
  match k, v with
  | .spSep, .strs l => .str (joinSp l)          -- sp_sep_list_serializer joins in every format
  | _, v => v

/-- `val in ["", [""]]`: skipped by `from_dict` -/
def blank : Val → Bool
  | .str [] => true
  | .strs [[]] => true
  | .strs [] => true            -- `_add_value`: an empty list is not stored (null not allowed), whatever the slot
  | _ => false

/-- `_add_value`: `none` = not stored, `some none` = exception, `some (some v)` = stored -/
def addValue : Kind → Val → Option (Option Val)
  | .str, .str s => some (some (.str s))
  | .str, .opaque t => some (some (.opaque t))
  | .str, _ => some none                       -- wrong type for a str slot
  | .int, .int n => some (some (.int n))
  | .int, .str s =>                            -- int("12")
    if s.all LV.isDig ∧ ¬ s.isEmpty then some (some (.int (s.foldl (fun a c => a * 10 + LV.dval c) 0))) else some none
  | .int, _ => some none
  | .bool, .bool b => some (some (.bool b))
  | .bool, _ => some none
  | .listStr, .strs [] => none
  | .listStr, .strs l => some (some (.strs l))
  | .listStr, .str s => some (some (.strs [s]))         -- list_deserializer(str, "dict") = [str]
  | .listStr, _ => some none
  | .spSep, .strs [] => none
  | .spSep, .strs l => some (some (.strs l))
  | .spSep, .str s => some (some (.strs (splitSp s)))   -- sp_sep_list_deserializer(str)
  | .spSep, _ => some none
  | .other, v => some (some v)

/-- `from_dict` for one parameter -/
def deserDict (k : Kind) (w : Val) : Option (Option Val) :=
  if blank w then none else addValue k w

def trueTxt : Bytes := [84, 114, 117, 101]        -- "True"
def falseTxt : Bytes := [70, 97, 108, 115, 101]   -- "False"

/-- decimal rendering `str(n)` -/
def decimal (n : Nat) : Bytes := LV.digits n

/-- the text a value has in form encoding -/
def serUrl (k : Kind) (v : Val) : Option Bytes :=
  match k, v with
  | _, .str s => some s
  | _, .int n => some (decimal n)
  | _, .bool true => some (trueTxt)
  | _, .bool false => some (falseTxt)
  | .listStr, .strs l => some (joinSp l)
  | .spSep, .strs l => some (joinSp l)
  | _, _ => none                                   -- opaque / unmodelled combination

/-- `from_urlencoded` for one parameter with a single form value -/
def deserUrl (k : Kind) (text : Bytes) : Val :=
  match k with
  | .listStr => .strs (splitSp text)
  | .spSep => .strs (splitSp text)
  | _ => .str text                                 -- no deserializer: the text is stored as is

/-- the allowance of the property: what form encoding cannot distinguish -/
def textual (k : Kind) (v : Val) : Val :=
  match k, v with
  | .listStr, v => v
  | .spSep, v => v
  | _, .int n => .str (decimal n)
  | _, .bool true => .str (trueTxt)
  | _, .bool false => .str (falseTxt)
  | _, v => v

/-! message level -/

def toDict (kindOf : Bytes → Kind) (m : Msg) : Msg := m.map fun (k, v) => (k, serDict (kindOf k) v)

def fromDict (kindOf : Bytes → Kind) : Msg → Option Msg
  | [] => some []
  | (k, w) :: rest =>
    match deserDict (kindOf k) w, fromDict kindOf rest with
    | _, none => none
    | none, some r => some r
    | some none, _ => none
    | some (some v), some r => some ((k, v) :: r)

def toUrlPairs (kindOf : Bytes → Kind) : Msg → Option (List (Bytes × Bytes))
  | [] => some []
  | (k, v) :: rest =>
    match serUrl (kindOf k) v, toUrlPairs kindOf rest with
    | some t, some r => some ((k, t) :: r)
    | _, _ => none

def toUrl (kindOf : Bytes → Kind) (m : Msg) : Option Str := (toUrlPairs kindOf m).map urlencode

/-- `parse_qs` then per-key deserialisation; `none` = TooManyValues (a key occurs twice) -/
def fromUrl (kindOf : Bytes → Kind) (qs : Str) : Option Msg :=
  let pairs := parseQsl false qs
  if (pairs.map (·.1)).Nodup then some (pairs.map fun (k, t) => (k, deserUrl (kindOf k) t)) else none

end Idpy.Msg
