/-
Model of `Message.verify` (generic schema check) and of the override chain of subclasses.
-/
import IdpyVerif.Model.Msg
namespace Idpy.MsgVerify
open Idpy.Msg

/-- Python truthiness of a stored value -/
def truthy : Val → Bool
  | .str s => !s.isEmpty
  | .int n => n != 0
  | .bool b => b
  | .strs l => !l.isEmpty
  | .opaque _ => true

structure PSpec where
  name : Bytes
  kind : Kind
  required : Bool
  allowed : Option (List Val)        -- c_allowed_values[name] (elements: `.str`/`.int`)
  deriving Repr

def lookup (m : Msg) (k : Bytes) : Option Val := (m.find? (·.1 = k)).map (·.2)

/-- `Message._type_check(typ, allowed, val)` -/
def typeCheck (k : Kind) (al : List Val) (v : Val) : Bool :=
  match k with
  | .str => al.contains v
  | .int => al.contains v
  | .listStr | .spSep =>
    match v with
    | .strs l => l.all (fun x => al.contains (.str x))
    | _ => true
  | _ => true

def checkParam (m : Msg) (p : PSpec) : Bool :=
  match lookup m p.name with
  | none => !p.required
  | some v =>
    if p.kind != .bool && !truthy v then !p.required
    else match p.allowed with
      | none => true
      | some al => typeCheck p.kind al v

/-- `Message.verify`: true = returns True, false = raises -/
def verifyGeneric (spec : List PSpec) (m : Msg) : Bool := spec.all (checkParam m)

/-- one override of `verify` in the MRO: its own rule, and whether it goes on to call its
    parent's `verify` unconditionally -/
structure Override where
  rule : Msg → Bool
  chains : Bool

/-- a class's `verify`: the first override runs its rule and, if it chains, the rest of the MRO
    follows; the last entry of every chain is `Message.verify` itself -/
def verifyClass (spec : List PSpec) : List Override → Msg → Bool
  | [], m => verifyGeneric spec m
  | o :: rest, m => o.rule m && (if o.chains then verifyClass spec rest m else true)

end Idpy.MsgVerify
