/-
Model of `ClaimsInterface.get_claims_from_request`, `get_user_claims` and `claims_match`
(server/session/claims.py): which user attributes may be released at a release point.
Dictionaries are association lists; `update` semantics (later entries replace the spec of an
earlier key) are modelled by `upd`.
-/
import IdpyVerif.Base
namespace Idpy.Claims

/-- an individual claim request (OIDC core 5.5.1) -/
inductive Spec where
  | any                          -- null
  | value (v : Str)
  | values (vs : List Str)
  | essentialOnly                -- {"essential": …} alone
  | empty                        -- {} or keys the code ignores: never matches
  deriving DecidableEq, Repr

abbrev Restr := List (Str × Spec)

/-- `claims_match(value, claimspec)` -/
def claimsMatch (value : Option Str) (s : Spec) : Bool :=
  match value with
  | none => false
  | some v =>
    match s with
    | .any => true
    | .value w => v = w
    | .values ws => ws.contains v
    | .essentialOnly => true
    | .empty => false

/-- dict.update for one key -/
def upd1 (r : Restr) (k : Str) (s : Spec) : Restr :=
  if r.any (·.1 = k) then r.map (fun e => if e.1 = k then (k, s) else e) else r ++ [(k, s)]

def upd (r : Restr) (more : Restr) : Restr := more.foldl (fun acc e => upd1 acc e.1 e.2) r

structure PointCfg where
  base : Restr                               -- module.kwargs["base_claims"]
  always : List Str                          -- always_add_claims (per client when enabled)
  byScope : Bool                             -- add_claims_by_scope
  deriving Repr

/-- `get_claims_from_request`: base ∪ always ∪ scope-derived ∪ request claims for the point -/
def restriction (cfg : PointCfg) (scopeClaims : List Str) (requested : Restr) : Restr :=
  let r1 := upd cfg.base (cfg.always.map (fun k => (k, Spec.any)))
  let r2 := if cfg.byScope then upd r1 (scopeClaims.map (fun k => (k, Spec.any))) else r1
  upd r2 requested

/-! ### which rules apply: the release point's own configuration or the client's -/

/-- the release point's module configuration -/
structure ModuleConf where
  base : Restr
  byScope : Bool                             -- add_claims_by_scope
  always : List Str                          -- always_add_claims
  perClient : Bool                           -- enable_claims_per_client
  deriving Repr

/-- the client's `add_claims`, looked up by release-point name -/
structure ClientConf where
  bsNonEmpty : Bool                          -- add_claims.by_scope is a non-empty dict
  byScope : Str → Option Bool                -- add_claims.by_scope.get(point)
  always : Str → List Str                    -- add_claims.always.get(point, [])

/-- `get_claims_from_request` up to the choice of rules, with `_client_claims`: the secondary release
    point (`as_if`: an ID token that stands in for userinfo, i.e. response_type id_token alone) only
    adds the client's rules for that secondary point; without it nothing of another point applies -/
def resolvePoint (m : ModuleConf) (cl : ClientConf) (point : Str) (secondary : Option Str) : PointCfg :=
  if m.perClient then
    let bs : Bool :=
      if cl.bsNonEmpty then
        match cl.byScope point with
        | some v => v
        | none =>
          match secondary with
          | some sec => (cl.byScope sec).getD false
          | none => m.byScope
      else m.byScope
    let al := cl.always point ++ (match secondary with | some sec => cl.always sec | none => [])
    { base := m.base, always := al, byScope := bs }
  else { base := m.base, always := m.always, byScope := m.byScope }

/-- which secondary point an ID token minted by the authorization endpoint uses: `userinfo` exactly when
    the response type is `id_token` alone (there is then no way to reach the userinfo endpoint) -/
def secondaryOf (point : Str) (rtIdTokenOnly : Bool) : Option Str :=
  if point = Wire.lit "id_token" ∧ rtIdTokenOnly then some (Wire.lit "userinfo") else none

/-- `Introspection.process_request`: the audience gate. The endpoint's setting, unless the requesting
    client's record has one of its own; with enforcement the requester must be in the token's audience -/
def audGate (endpointEnforce : Bool) (clientSetting : Option Bool) (inAud : Bool) : Bool :=
  !(clientSetting.getD endpointEnforce) || inAud

/-- `get_user_claims`: the attributes of the restriction the user has and that match -/
def release (info : Str → Option Str) (r : Restr) : List (Str × Option Str) :=
  (r.filter (fun e => claimsMatch (info e.1) e.2)).map (fun e => (e.1, info e.1))

end Idpy.Claims
