/-
Model of `ClaimsInterface.get_claims_from_request`, `get_user_claims` and `claims_match`
(server/session/claims.py): which user attributes may be released at a release point.
Dictionaries are association lists; `update` semantics (later entries replace the spec of an
earlier key) are modelled by `upd`.
-/
import IdpyVerif.Base
namespace Idpy.Claims

/-- an individual claim request (OIDC core 5.5.1) -/
inductive Spec where
  | any                          -- null
  | value (v : Str)
  | values (vs : List Str)
  | essentialOnly                -- {"essential": …} alone
  | empty                        -- {} or keys the code ignores: never matches
  deriving DecidableEq, Repr

abbrev Restr := List (Str × Spec)

/-- `claims_match(value, claimspec)` -/
def claimsMatch (value : Option Str) (s : Spec) : Bool :=
  match value with
  | none => false
  | some v =>
    match s with
    | .any => true
    | .value w => v = w
    | .values ws => ws.contains v
    | .essentialOnly => true
    | .empty => false

/-- dict.update for one key -/
def upd1 (r : Restr) (k : Str) (s : Spec) : Restr :=
  if r.any (·.1 = k) then r.map (fun e => if e.1 = k then (k, s) else e) else r ++ [(k, s)]

def upd (r : Restr) (more : Restr) : Restr := more.foldl (fun acc e => upd1 acc e.1 e.2) r

structure PointCfg where
  base : Restr                               -- module.kwargs["base_claims"]
  always : List Str                          -- always_add_claims (per client when enabled)
  byScope : Bool                             -- add_claims_by_scope
  deriving Repr

/-- `get_claims_from_request`: base ∪ always ∪ scope-derived ∪ request claims for the point -/
def restriction (cfg : PointCfg) (scopeClaims : List Str) (requested : Restr) : Restr :=
  let r1 := upd cfg.base (cfg.always.map (fun k => (k, Spec.any)))
  let r2 := if cfg.byScope then upd r1 (scopeClaims.map (fun k => (k, Spec.any))) else r1
  upd r2 requested

/-- `get_user_claims`: the attributes of the restriction the user has and that match -/
def release (info : Str → Option Str) (r : Restr) : List (Str × Option Str) :=
  (r.filter (fun e => claimsMatch (info e.1) e.2)).map (fun e => (e.1, info e.1))

end Idpy.Claims
