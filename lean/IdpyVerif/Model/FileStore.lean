/-
Model of `idpyoidc.storage.abfile.AbstractFileSystem`: a dictionary whose entries are files of one
directory, named by `key_conv.serialize(key)` and holding `value_conv.serialize(value)`.

The directory is a list of regular files (name ↦ content), lock files included: `FileLock`
creates `<name>.lock` next to every file it protects and leaves it behind after a read.
One instance at a time writes (single writer): an instance knows the modification time of every
file it wrote or read, so it re-reads a file only when it has never seen it.

Not modelled: modification-time granularity (two writes within one tick), concurrent writers,
what the operating system refuses as a file name beyond `badName` (the harness reports OSError
for those and the model must agree), JSON syntax (values travel as their `json.dumps` text).
-/
import IdpyVerif.Base
import IdpyVerif.Model.LV
namespace Idpy.FileStore

abbrev Name := Str

structure Conv where
  ser    : Str → Name             -- key_conv.serialize
  deser  : Name → Str             -- key_conv.deserialize
  vser   : Str → Str              -- value_conv.serialize
  vdeser : Str → Option Str       -- value_conv.deserialize; `none` = it raises

@[irreducible] def dotLock : Str := [46, 108, 111, 99, 107]      -- ".lock"
theorem dotLock_eq : dotLock = [46, 108, 111, 99, 107] := by unfold dotLock; rfl

/-- `fname.endswith(".lock")` -/
def isLock (n : Name) : Bool := dotLock.isSuffixOf n
def lockOf (n : Name) : Name := n ++ dotLock

/-- names `open(…, "w")` / `FileLock` refuse: empty, `.`, `..`, containing `/` or NUL, or so long
    that the lock file's name exceeds 255 bytes -/
def badName (n : Name) : Bool :=
  n.isEmpty || n == [46] || n == [46, 46] || n.contains 47 || n.contains 0 || decide (n.length + 5 > 255)

abbrev Dir := List (Name × Str)

def get? (d : Dir) (n : Name) : Option Str := (d.find? (fun e => e.1 = n)).map (·.2)
def put : Dir → Name → Str → Dir
  | [], n, c => [(n, c)]
  | (n', c') :: rest, n, c => if n' = n then (n, c) :: rest else (n', c') :: put rest n c
def erase (d : Dir) (n : Name) : Dir := d.filter (fun e => e.1 ≠ n)
/-- create the lock file when it does not exist (content untouched when it does) -/
def touch (d : Dir) (n : Name) : Dir := if (get? d n).isSome then d else put d n []

structure FS where
  dir : Dir := []
  storage : Dir := []          -- the instance's cache: name ↦ value
  known : List Name := []      -- names whose modification time the instance has recorded
  deriving Repr

inductive Op where
  | set (k v : Str)
  | get (k : Str)
  | del (k : Str)
  | contains (k : Str)
  | keys
  | len
  | clear
  | reopen                     -- discard the instance, create a new one over the same directory
  deriving Repr

inductive Out where
  | ok
  | val (v : Str)
  | keyError
  | osError
  | convError                  -- value_conv.deserialize raised
  | bool (b : Bool)
  | keys (ks : List Str)
  | num (n : Nat)
  deriving Repr, DecidableEq

/-- `_read_info(fname)`: takes the lock (creating the lock file), reads, strips, converts -/
def readInfo (c : Conv) (d : Dir) (n : Name) : Dir × Option (Option Str) :=
  match get? d n with
  | none => (d, none)
  | some content => (touch d (lockOf n), some (c.vdeser (LV.strip content)))

/-- `synch()`: every regular non-lock file the instance has not seen is read into the cache;
    unreadable content is skipped with a warning -/
def synchLoop (c : Conv) : List Name → FS → FS
  | [], s => s
  | n :: ns, s =>
    if isLock n ∨ s.known.contains n then synchLoop c ns s else
    match readInfo c s.dir n with
    | (d', some (some v)) => synchLoop c ns { dir := d', storage := put s.storage n v, known := n :: s.known }
    | (d', _) => synchLoop c ns { s with dir := d' }

def synch (c : Conv) (s : FS) : FS := synchLoop c (s.dir.map (·.1)) s

/-- `_remove(name)` -/
def remove (s : FS) (n : Name) : FS :=
  let d := if isLock n then erase s.dir n
           else if (get? s.dir n).isSome then erase (erase s.dir n) (lockOf n) else s.dir
  { s with dir := d, storage := erase s.storage n }

def step (c : Conv) (s : FS) : Op → FS × Out
  | .set k v =>
    let n := c.ser k
    if badName n then (s, .osError) else
    let d := put (touch s.dir (lockOf n)) n (c.vser v)
    ({ dir := d, storage := put s.storage n v, known := if s.known.contains n then s.known else n :: s.known }, .ok)
  | .get k =>
    let n := c.ser k
    match get? s.dir n with
    | none => (s, .keyError)                       -- is_changed: not a file
    | some _ =>
      if s.known.contains n then
        (s, match get? s.storage n with | some v => .val v | none => .keyError)
      else
        match readInfo c s.dir n with
        | (d', some (some v)) => ({ dir := d', storage := put s.storage n v, known := n :: s.known }, .val v)
        | (d', _) => ({ s with dir := d', known := n :: s.known }, .convError)
  | .del k => (remove s (c.ser k), .ok)
  | .contains k => (s, .bool (get? s.storage (c.ser k)).isSome)
  | .keys => let s' := synch c s; (s', .keys (s'.storage.map (fun e => c.deser e.1)))
  | .len => (s, .num (s.dir.filter (fun e => !isLock e.1)).length)
  | .clear => ((s.dir.map (·.1)).foldl remove s, .ok)
  | .reopen => (synch c { dir := s.dir, storage := [], known := [] }, .ok)

def run (c : Conv) : FS → List Op → FS
  | s, [] => s
  | s, op :: ops => run c (step c s op).1 ops

/-! ### the specification: a plain dictionary -/

abbrev Spec := Str → Option Str

def specStep (m : Spec) : Op → Spec
  | .set k v => fun x => if x = k then some v else m x
  | .del k => fun x => if x = k then none else m x
  | .clear => fun _ => none
  | _ => m

def specRun : Spec → List Op → Spec
  | m, [] => m
  | m, op :: ops => specRun (specStep m op) ops

end Idpy.FileStore
