/-
Model of `idpyoidc.server.cookie_handler.CookieHandler` (`make_cookie_content` value part,
`_sign_enc_payload`, `_ver_dec_content`, `parse_cookie` for one cookie of the requested name).

Cryptography is a parameter (`Crypto`): an HMAC function, base64, AES-GCM and the Fernet-based
encrypter as (partial) functions.  Theorems quantify over it with explicit hypotheses; the
driver instantiates it with finite tables computed by the harness with the real keys.
-/
import IdpyVerif.Base
import IdpyVerif.Model.LV
import IdpyVerif.Model.Split
namespace Idpy.Cookie
open Idpy.LV Idpy.Split

@[irreducible] def bar : Nat := 124          -- '|'
theorem bar_eq : bar = 124 := by unfold bar; rfl

structure Crypto where
  mac    : Str → Str                 -- HMAC(sign_key, msg), bytes as text
  b64    : Str → Str                 -- base64.b64encode
  unb64  : Str → Option Str          -- base64.b64decode (lenient); none = binascii.Error
  aeadEnc : Str → Str → Str × Str    -- iv, plaintext ↦ (ciphertext, tag)
  aeadDec : Str → Str → Str → Option Str   -- iv, ciphertext, tag ↦ plaintext ; none = InvalidTag
  fernetEnc : Str → Str              -- crypt.encrypt (random inside; modelled as a function)
  fernetDec : Str → Option Str       -- crypt.decrypt incl. the wrapper's rstrip(b" ")

inductive Mode where
  | signed      -- sign_key only
  | signedEnc   -- sign_key and enc_key
  | encOnly     -- enc_key only
  | crypt       -- crypt_config (Fernet encrypter)
  deriving DecidableEq, Repr

/-- what the HMAC is computed over: payload and timestamp length-prefixed (after the fix for F-C17-a;
    before it: the bare concatenation `payload ++ ts`) -/
def macInput (payload ts : Str) : Str := pack [payload, ts]

/-- `"::".join([value, typ])` -/
def payloadOf (value typ : Str) : Str := join2 colon [value, typ]

/-- `_sign_enc_payload(payload, timestamp)` (timestamp already rendered as text, non-empty) -/
def signEnc (k : Crypto) (mode : Mode) (iv : Str) (payload ts : Str) : Str :=
  match mode with
  | .signed => join1 bar [ts, payload, k.b64 (k.mac (macInput payload ts))]
  | .signedEnc =>
    let msg := pack [payload, ts, k.b64 (k.mac (macInput payload ts))]
    let (ct, tag) := k.aeadEnc iv msg
    join1 bar [ts, k.b64 iv, k.b64 ct, k.b64 tag]
  | .encOnly =>
    let msg := pack [payload, ts]
    let (ct, tag) := k.aeadEnc iv msg
    join1 bar [ts, k.b64 iv, k.b64 ct, k.b64 tag]
  | .crypt => join1 bar [ts, k.b64 (k.fernetEnc (pack [ts, payload]))]

/-- cookie value produced by `make_cookie_content(name, value, typ, timestamp)` -/
def make (k : Crypto) (mode : Mode) (iv value typ ts : Str) : Str :=
  if value.isEmpty ∧ typ.isEmpty then [] else signEnc k mode iv (payloadOf value typ) ts

/-- outcome of `parse_cookie` for one cookie: rejected (empty result or exception) or content -/
inductive Parsed where
  | rejected
  | content (value typ ts : Str)
  deriving DecidableEq, Repr

/-- `_ver_dec_content(parts)`: `none` = rejected (None returned or exception) -/
def verDec (k : Crypto) (mode : Mode) (parts : List Str) : Option (Str × Str) :=
  match parts with
  | [t0, encp] =>
    if mode ≠ .crypt then none else
    match k.unb64 encp with
    | none => none
    | some raw =>
      match k.fernetDec raw with
      | none => none
      | some msg =>
        match unpack msg with
        | some [t1, payload] => if t0 = t1 then some (payload, t1) else none
        | _ => none
  | [ts, payload, b64mac] =>
    if mode ≠ .signed ∧ mode ≠ .signedEnc then none else
    match k.unb64 b64mac with
    | none => none
    | some mac => if mac = k.mac (macInput payload ts) then some (payload, ts) else none
  | [_, iv, ct, tag] =>
    if mode ≠ .signedEnc ∧ mode ≠ .encOnly then none else
    match k.unb64 iv, k.unb64 ct, k.unb64 tag with
    | some iv', some ct', some tag' =>
      match k.aeadDec iv' ct' tag' with
      | none => none
      | some msg =>
        match unpack msg with
        | some [payload, ts, m] =>
          if mode ≠ .signedEnc then none else       -- no sign key: AttributeError
          match k.unb64 m with
          | none => none
          | some mac => if mac = k.mac (macInput payload ts) then some (payload, ts) else none
        | some (payload :: ts :: _) => some (payload, ts)
        | _ => none
    | _, _, _ => none
  | _ => none

/-- `parse_cookie` on one cookie value -/
def parse (k : Crypto) (mode : Mode) (cookie : Str) : Parsed :=
  match verDec k mode (split1 bar cookie) with
  | none => .rejected
  | some (payload, ts) =>
    match split2 colon payload with
    | [value, typ] => .content value typ ts
    | _ => .rejected                              -- ValueError: wrong number of values to unpack

end Idpy.Cookie
