/-
Provider core: grants, session tokens and the decision logic of the token, userinfo,
introspection and revocation endpoints plus the session-manager revocation API.

Literal with respect to the Python bookkeeping: `used` counters (incl. the `used -= 1`
dance of the code redemption), `revoked` flags, `expires_at` (0 = unset), `based_on` by
token value, `max_usage`, `supports_minting`, the separate parse / process API steps of the
token endpoint, `find_scope`.  Token values and grant ids are fresh handles (Nat).

Configuration (`Cfg`) is the family the correspondence harness instantiates:
usage rules per class, OIDC vs OAuth2 token endpoint, per-client allowed scopes.
-/
import IdpyVerif.Base
namespace Idpy.Provider

inductive Cls where | code | access | refresh | idtoken
  deriving DecidableEq, Repr

structure Rule where
  mints : List Cls          -- supports_minting
  expiresIn : Nat           -- 0 = not set
  deriving Repr

/-- a client's own `token_usage_rules` entry for one token class: what it says replaces the general
    rule's item, what it does not say is kept (`_rule.update(_pc)` in `AuthzHandling.usage_rules`) -/
structure RuleOv where
  mints : Option (List Cls)
  expiresIn : Option Nat
  deriving Repr

def mergeRule (general : Rule) (ov : Option RuleOv) : Rule :=
  match ov with
  | none => general
  | some o => { mints := o.mints.getD general.mints, expiresIn := o.expiresIn.getD general.expiresIn }

structure Cfg where
  oidc : Bool                         -- OIDC token endpoint (replay revokes; id_token minted)
  jwt : Bool                          -- access/refresh tokens are JWTs (their own `exp` is verified when resolving)
  rule : Cls → Rule                   -- grant usage rules (authz configuration)
  revokeRefreshOnIssue : Bool
  allowed : Str → List Str            -- client ↦ allowed_scopes (default: the provider's scope list)
  grantExpiresIn : Nat                -- authz grant_config expires_in (0 = none)
  authnExpiresIn : Nat                -- lifetime of the authentication event (DEFAULT_AUTHN_EXPIRES_IN)
  clientOv : Str → Cls → Option RuleOv := fun _ _ => none   -- per-client token_usage_rules
  logoutUri : Str → Bool := fun _ => false   -- the client registered a back- or front-channel logout URI
  refreshLifetime : Nat := 86400      -- the refresh-token handler's lifetime (`_mint_token` falls back to it for a
                                      -- grant without usage rules for the class: an ExchangeGrant)
  denyUnknown : Str → Bool := fun _ => false   -- deny_unknown_scopes: the client's own setting, else the provider's preference

structure Tok where
  id : Nat
  gid : Nat
  cls : Cls
  basedOn : Option Nat
  used : Nat
  maxUsage : Option Nat
  mints : List Cls
  revoked : Bool
  exp : Nat
  scope : List Str
  deriving Repr

structure Gr where
  id : Nat
  user : Str
  client : Str
  revoked : Bool
  exp : Nat
  scope : List Str              -- grant.scope (request scope filtered by allowed_scopes)
  openid : Bool                 -- "openid" in authorization request scope
  redirect : Option Str         -- redirect_uri of the authorization request
  authnUntil : Nat              -- authentication_event.valid_until
  xchg : Bool := false          -- an ExchangeGrant (token exchange by another client): hard-wired usage rules
  deriving Repr

/-- a token request that passed `parse_request` -/
structure Req where
  client : Str
  code : Nat
  redirect : Option Str
  parsedAt : Nat
  deriving Repr

structure St where
  now : Nat := 0
  next : Nat := 0
  toks : List Tok := []
  grants : List Gr := []
  pending : List Req := []

def maxReached (t : Tok) : Bool := match t.maxUsage with
  | some m => decide (m ≤ t.used)
  | none => false

/-- `Item.is_active()` (not_before is never set) -/
def tokActive (now : Nat) (t : Tok) : Bool :=
  !maxReached t && !t.revoked && (t.exp == 0 || decide (now ≤ t.exp))

def grActive (now : Nat) (g : Gr) : Bool := !g.revoked && (g.exp == 0 || decide (now ≤ g.exp))

def findTok (s : St) (id : Nat) : Option Tok := s.toks.find? (·.id = id)
def findGr (s : St) (id : Nat) : Option Gr := s.grants.find? (·.id = id)

def updTok (toks : List Tok) (id : Nat) (f : Tok → Tok) : List Tok :=
  toks.map fun t => if t.id = id then f t else t

def isSubset (a b : List Str) : Bool := a.all (fun x => b.contains x)

/-- `Grant.find_scope(based_on)` with fuel: nearest ancestor AMONG THE GRANT'S OWN TOKENS
    (`Grant.get_token` only searches `issued_token`) with a non-empty scope, else the grant's -/
def findScope (s : St) (g : Gr) : Nat → Option Nat → List Str
  | 0, _ => g.scope
  | _, none => g.scope
  | fuel+1, some b =>
    match findTok s b with
    | none => g.scope
    | some t =>
      if t.gid ≠ g.id then g.scope else
      if !t.scope.isEmpty then t.scope else findScope s g fuel t.basedOn

/-- `ScopesHandler.filter_scopes` -/
def filterScopes (cfg : Cfg) (client : Str) (scope : List Str) : List Str :=
  scope.filter (fun x => (cfg.allowed client).contains x)

inductive Out where
  | err (kind : String)                    -- error message returned, or exception
  | code (id : Nat) (gid : Nat)
  | parsed
  | tokens (code : Option Nat) (access : Option Nat) (refresh : Option Nat) (idtok : Option Nat) (scope : List Str)
  | userinfo (gid : Nat) (scope : List Str)
  | introspect (active : Bool) (scope : List Str)
  | exchanged (id : Nat) (scope : List Str)
  | ok
  deriving Repr

inductive Op where
  | tick (n : Nat)
  | authorize (user client : Str) (scope : List Str) (redirect : Option Str)
  | tokenParse (client : Str) (code : Nat) (redirect : Option Str)
  | tokenProcess (idx : Nat)
  | refresh (client : Str) (rt : Nat) (scope : Option (List Str))
  | exchange (client : Str) (subj : Nat) (styp : Cls) (rtyp : Option Cls) (scope : Option (List Str))
  | userinfo (tok : Nat)
  | introspect (client : Str) (tok : Nat)
  | revokeEp (client : Str) (tok : Nat)
  | revokeTok (tok : Nat) (recursive : Bool)
  | revokeGrant (gid : Nat)
  | revokeClient (user client : Str)
  | revokeUser (user : Str)
  | logoutAll (user : Str)
  | remove (gid : Nat)

/-- the usage rules of a grant: the authz configuration, or what `ExchangeGrant.__init__` hard-wires -/
def ruleOf (cfg : Cfg) (g : Gr) (cls : Cls) : Rule :=
  if g.xchg then
    match cls with
    | .access => { mints := [.access], expiresIn := 60 }
    | .refresh => { mints := [.access, .refresh], expiresIn := cfg.refreshLifetime }   -- `RefreshToken.set_defaults`
    | _ => { mints := [], expiresIn := 0 }
  else mergeRule (cfg.rule cls) (cfg.clientOv g.client cls)

/-- new token object (`Grant.mint_token` success path, expiry from the usage rule) -/
def newTok (cfg : Cfg) (s : St) (g : Gr) (cls : Cls) (basedOn : Option Nat) (scope : List Str) : Tok :=
  let r := ruleOf cfg g cls
  { id := s.next, gid := g.id, cls := cls, basedOn := basedOn, used := 0,
    maxUsage := if cls = .code then some 1 else none,
    mints := r.mints, revoked := false,
    exp := if r.expiresIn = 0 then 0 else s.now + r.expiresIn,
    scope := scope }

inductive MintRes where
  | ok (s : St) (id : Nat)
  | notAllowed            -- MintingNotAllowed: base does not support minting the class, or is inactive
  | grantInactive         -- `Grant.mint_token` returned None: the caller crashes (exception)

/-- `Grant.mint_token` through the endpoint helper; no state change unless `.ok`.
    On success the base's `used` is incremented. -/
def mint (cfg : Cfg) (s : St) (g : Gr) (cls : Cls) (base : Option Nat) (scope : Option (List Str)) : MintRes :=
  if !grActive s.now g then .grantInactive else
  match base with
  | none =>
    let t := newTok cfg s g cls none (scope.getD g.scope)
    .ok { s with next := s.next + 1, toks := s.toks ++ [t] } t.id
  | some b =>
    match findTok s b with
    | none => .notAllowed
    | some bt =>
      if !bt.mints.contains cls then .notAllowed else
      if !tokActive s.now bt then .notAllowed else
      let sc := scope.getD (findScope s g (s.toks.length + 1) (some b))
      let t := newTok cfg s g cls (some b) sc
      .ok { s with next := s.next + 1,
                   toks := updTok s.toks b (fun x => { x with used := x.used + 1 }) ++ [t] } t.id

def decUsed (s : St) (id : Nat) : St :=
  { s with toks := updTok s.toks id (fun x => { x with used := x.used - 1 }) }
def incUsed (s : St) (id : Nat) : St :=
  { s with toks := updTok s.toks id (fun x => { x with used := x.used + 1 }) }

/-- descendants by `based_on` inside one grant: `Grant.revoke_token(based_on=v, recursive)` -/
def revokeBasedOn : Nat → List Tok → Nat → Nat → List Tok
  | 0, toks, _, _ => toks
  | fuel+1, toks, gid, v =>
    let kids := (toks.filter (fun t => t.gid = gid ∧ t.basedOn = some v)).map (·.id)
    let toks1 := toks.map (fun t => if t.gid = gid ∧ t.basedOn = some v then { t with revoked := true } else t)
    kids.foldl (fun acc k => revokeBasedOn fuel acc gid k) toks1

def revokeGrantToks (toks : List Tok) (gid : Nat) : List Tok :=
  toks.map (fun t => if t.gid = gid then { t with revoked := true } else t)

/-- revoke a grant node: flag + (after the fix for F-C03-a) every issued token -/
def revokeGr (s : St) (gid : Nat) : St :=
  { s with grants := s.grants.map (fun g => if g.id = gid then { g with revoked := true } else g),
           toks := revokeGrantToks s.toks gid }

/-- refresh request asks for a scope outside the bound -/
def scopeBad (scope : Option (List Str)) (bound : List Str) : Bool :=
  match scope with
  | some sc => !isSubset sc bound
  | none => false

/-- optional extra mint during code redemption: `if token: code.used -= 1`, then mint -/
def mintAfterDec (cfg : Cfg) (s : St) (g : Gr) (cls : Cls) (code : Nat) (want : Bool) : St × Option Nat :=
  if want then
    match mint cfg (decUsed s code) g cls (some code) none with
    | .ok s' id => (s', some id)
    | _ => (decUsed s code, none)
  else (s, none)

/-- optional extra mint during refresh (explicit scope, no counter dance) -/
def mintExtra (cfg : Cfg) (s : St) (g : Gr) (cls : Cls) (base : Nat) (sc : List Str) (want : Bool) : St × Option Nat :=
  if want then
    match mint cfg s g cls (some base) (some sc) with
    | .ok s' id => (s', some id)
    | _ => (s, none)
  else (s, none)

def setMints (s : St) (id : Option Nat) (m : List Cls) : St :=
  match id with
  | none => s
  | some i => { s with toks := updTok s.toks i (fun x => { x with mints := m }) }

def revokeIf (s : St) (c : Bool) (id : Nat) : St :=
  if c then { s with toks := updTok s.toks id (fun x => { x with revoked := true }) } else s

/-- `create_session` + `AuthzHandling.__call__`: the grant records the request scope filtered by
    the client's allowed scopes -/
def mkGrant (cfg : Cfg) (s : St) (user client : Str) (scope : List Str) (redirect : Option Str) : Gr :=
  { id := s.next, user := user, client := client, revoked := false,
    exp := if cfg.grantExpiresIn = 0 then 0 else s.now + cfg.grantExpiresIn,
    scope := filterScopes cfg client scope, openid := scope.contains (Wire.lit "openid"), redirect := redirect,
    authnUntil := s.now + cfg.authnExpiresIn }

/-- the mint of a token exchange: based on the subject token (which may live in ANOTHER grant),
    explicit scope, and `new_token.expires_at = token.expires_at` -/
def mintX (cfg : Cfg) (s : St) (g : Gr) (cls : Cls) (b : Nat) (sc : List Str) : MintRes :=
  if !grActive s.now g then .grantInactive else
  match findTok s b with
  | none => .notAllowed
  | some bt =>
    if !bt.mints.contains cls then .notAllowed else
    if !tokActive s.now bt then .notAllowed else
    let t := { newTok cfg s g cls (some b) sc with exp := bt.exp }
    .ok { s with next := s.next + 1,
                 toks := updTok s.toks b (fun x => { x with used := x.used + 1 }) ++ [t] } t.id

/-- `validate_token_exchange_policy`: requested ∩ subject scope (a set: no duplicates) -/
def xScope (req : Option (List Str)) (subj : List Str) : List Str :=
  ((req.getD subj).filter (fun x => subj.contains x)).eraseDups

/-- the ExchangeGrant created when another client exchanges the token: same user, authentication
    event and authorization request as the subject's grant; no expiry of its own -/
def mkXGrant (s : St) (g : Gr) (client : Str) (sc : List Str) : Gr :=
  { id := s.next, user := g.user, client := client, revoked := false, exp := 0, scope := sc,
    openid := g.openid, redirect := g.redirect, authnUntil := g.authnUntil, xchg := true }

/-- an ID token was ever issued under the grant (`last_issued_token_of_type("id_token")`: expired or
    revoked ones count) -/
def hasIdToken (s : St) (g : Gr) : Bool := s.toks.any (fun t => t.gid = g.id ∧ t.cls = .idtoken)

/-- `Session.logout_all_clients`: the client sessions of the user that are told about the logout — the
    client registered a logout URI and one of its grants carries an ID token — are revoked as a whole -/
def logoutTargets (cfg : Cfg) (s : St) (user : Str) : List Nat :=
  (s.grants.filter (fun g => g.user = user ∧ cfg.logoutUri g.client ∧
      s.grants.any (fun g' => g'.user = user ∧ g'.client = g.client ∧ hasIdToken s g'))).map (·.id)

/-- the scope of a token from the client-credentials or the password grant: what the client's record
    lists under `allowed_scopes` — nothing when there is no such entry (NOT the provider's default) -/
def configuredScope (allowedInRecord : Option (List Str)) : List Str := allowedInRecord.getD []

def step (cfg : Cfg) (s : St) : Op → St × Out
  | .tick n => ({ s with now := s.now + n }, .ok)
  | .authorize user client scope redirect =>
    -- check_unknown_scopes_policy: with deny_unknown_scopes a request naming a scope outside what the client may use is refused as a
    -- whole (UnAuthorizedClientScope out of process_request), before anything is created
    if cfg.denyUnknown client && !(decide (filterScopes cfg client scope = scope)) then (s, .err "unauthorized_scope") else
    let g := mkGrant cfg s user client scope redirect
    let s1 : St := { s with next := s.next + 1, grants := s.grants ++ [g] }
    match mint cfg s1 g .code none none with
    | .ok s2 c => (s2, .code c g.id)
    | _ => (s, .err "mint")
  | .tokenParse client code redirect =>
    match findTok s code with
    | none => (s, .err "unknown_code")
    | some t =>
      match findGr s t.gid with
      | none => (s, .err "unknown_code")
      | some g =>
        if t.cls ≠ .code then (s, .err "wrong_class") else
        if cfg.oidc ∧ t.used ≠ 0 then
          -- second presentation at the OIDC endpoint: revoke what was minted from the code
          ({ s with toks := revokeBasedOn (s.toks.length + 1) s.toks g.id code }, .err "code_used")
        else if !tokActive s.now t then (s, .err "code_inactive")
        else ({ s with pending := s.pending ++ [{ client := client, code := code, redirect := redirect, parsedAt := s.now }] }, .parsed)
  | .tokenProcess idx =>
    match s.pending[idx]? with
    | none => (s, .err "no_request")
    | some r =>
      let s0 : St := { s with pending := s.pending.eraseIdx idx }
      match findTok s0 r.code with
      | none => (s0, .err "unknown_code")
      | some ct =>
        match findGr s0 ct.gid with
        | none => (s0, .err "unknown_code")
        | some g =>
          if g.client ≠ r.client then (s0, .err "wrong_client") else
          if g.redirect.isSome ∧ r.redirect ≠ g.redirect then (s0, .err "redirect_mismatch") else
          let wantRefresh := g.scope.contains (Wire.lit "offline_access") ∧ ct.mints.contains .refresh
          let wantId := cfg.oidc ∧ g.openid ∧ ct.mints.contains .idtoken
          -- access token
          match mint cfg s0 g .access (some r.code) none with
          | .grantInactive => (s0, .err "grant_inactive")      -- AttributeError on None
          | .notAllowed =>
            -- MintingNotAllowed is swallowed; `token` stays unbound: the refresh / id_token branches
            -- crash on `if token:`; otherwise the code's usage is registered and the missing
            -- access_token makes the endpoint raise KeyError.  Nothing is delivered either way.
            if wantRefresh ∨ wantId then (s0, .err "mint") else (incUsed s0 r.code, .err "mint")
          | .ok s1 atk =>
            let r2 := mintAfterDec cfg s1 g .refresh r.code wantRefresh
            let r3 := mintAfterDec cfg r2.1 g .idtoken r.code wantId
            (incUsed r3.1 r.code, .tokens (some r.code) (some atk) r2.2 r3.2 g.scope)
  | .refresh client rt scope =>
    match findTok s rt with
    | none => (s, .err "unknown_token")
    | some t =>
      match findGr s t.gid with
      | none => (s, .err "unknown_token")
      | some g =>
        if t.cls ≠ .refresh then (s, .err "wrong_class") else
        if !tokActive s.now t then (s, .err "inactive") else
        let bound := findScope s g (s.toks.length + 1) t.basedOn
        if scopeBad scope bound then (s, .err "invalid_scope") else
        if g.client ≠ client then (s, .err "wrong_client") else
        let sc := scope.getD (if cfg.oidc then bound else findScope s g (s.toks.length + 1) (some rt))
        match mint cfg s g .access (some rt) (some sc) with
        | .grantInactive => (s, .err "grant_inactive")
        | .notAllowed => (s, .err "mint")
        | .ok s1 atk =>
          let wantRefresh := t.mints.contains .refresh ∧ cfg.oidc ∧ sc.contains (Wire.lit "offline_access")
          let r2 := mintExtra cfg s1 g .refresh rt sc wantRefresh
          let s2 := setMints r2.1 r2.2 t.mints           -- refresh_token.usage_rules = token.usage_rules.copy()
          let wantId := cfg.oidc ∧ t.mints.contains .idtoken ∧ sc.contains (Wire.lit "openid")
          let r3 := mintExtra cfg s2 g .idtoken rt sc wantId
          let s4 := incUsed r3.1 rt
          (revokeIf s4 cfg.revokeRefreshOnIssue rt, .tokens none (some atk) r2.2 r3.2 sc)
  | .exchange client subj styp rtyp scope =>
    match findTok s subj with
    | none => (s, .err "invalid_request")
    | some t =>
      match findGr s t.gid with
      | none => (s, .err "invalid_request")
      | some g =>
        -- post_parse_request
        if styp ≠ .access ∧ styp ≠ .refresh then (s, .err "invalid_request") else
        if t.cls ≠ styp then (s, .err "invalid_request") else
        if !tokActive s.now t then (s, .err "invalid_request") else
        let cls := rtyp.getD .access
        if cls ≠ .access ∧ cls ≠ .refresh then (s, .err "invalid_request") else
        if rtyp = some .refresh ∧ !t.scope.contains (Wire.lit "offline_access") then (s, .err "invalid_request") else
        let sc := xScope scope t.scope
        let fsc := filterScopes cfg client sc
        if fsc.isEmpty then (s, .err "invalid_scope") else
        if cls = .refresh ∧ !fsc.contains (Wire.lit "offline_access") then (s, .err "invalid_request") else
        -- process_request
        if g.client = client then
          match mintX cfg s g cls subj sc with
          | .ok s1 id => (s1, .exchanged id sc)
          | .notAllowed => (s, .err "invalid_grant")
          | .grantInactive => (s, .err "grant_inactive")
        else
          -- another client: an ExchangeGrant is created first and stays even when the mint fails
          let xg := mkXGrant s g client sc
          let s1 : St := { s with next := s.next + 1, grants := s.grants ++ [xg] }
          match mintX cfg s1 xg cls subj sc with
          | .ok s2 id => (s2, .exchanged id sc)
          | _ => (s1, .err "invalid_grant")
  | .userinfo tok =>
    match findTok s tok with
    | none => (s, .err "invalid_token")
    | some t =>
      match findGr s t.gid with
      | none => (s, .err "invalid_token")
      | some g =>
        if t.cls ≠ .access then (s, .err "invalid_token") else
        if !tokActive s.now t then (s, .err "invalid_token") else
        if g.authnUntil < s.now then (s, .err "authn_expired") else     -- `info` unbound: exception
        (s, .userinfo g.id t.scope)
  | .introspect _client tok =>
    match findTok s tok with
    | none => (s, .introspect false [])
    | some t =>
      match findGr s t.gid with
      | none => (s, .introspect false [])
      | some g =>
        if t.cls ≠ .access ∧ t.cls ≠ .refresh then (s, .introspect false []) else
        if !tokActive s.now t then (s, .introspect false []) else
        let sc := if !t.scope.isEmpty then t.scope else findScope s g (s.toks.length + 1) t.basedOn
        (s, .introspect true sc)
  | .revokeEp client tok =>
    match findTok s tok with
    | none => (s, .ok)
    | some t =>
      match findGr s t.gid with
      | none => (s, .ok)
      | some g =>
        -- an expired JWT does not even resolve (signature/exp verification raises): nothing happens
        if cfg.jwt ∧ (t.cls = .access ∨ t.cls = .refresh) ∧ t.exp ≠ 0 ∧ t.exp < s.now then (s, .err "unresolvable") else
        if g.client ≠ client then (s, .err "wrong_client") else
        if t.cls = .idtoken then (s, .err "unsupported_token_type") else
        ({ s with toks := updTok s.toks tok (fun x => { x with revoked := true }) }, .ok)
  | .revokeTok tok recursive =>
    match findTok s tok with
    | none => (s, .err "unknown_token")
    | some t =>
      let toks1 := updTok s.toks tok (fun x => { x with revoked := true })
      let toks2 := if recursive then revokeBasedOn (toks1.length + 1) toks1 t.gid tok else toks1
      ({ s with toks := toks2 }, .ok)
  | .revokeGrant gid =>
    match findGr s gid with
    | none => (s, .err "unknown_grant")
    | some _ => (revokeGr s gid, .ok)
  | .revokeClient user client =>
    let gs := (s.grants.filter (fun g => g.user = user ∧ g.client = client)).map (·.id)
    if gs.isEmpty then (s, .err "unknown_session") else
    (gs.foldl revokeGr s, .ok)
  | .revokeUser user =>
    let gs := (s.grants.filter (fun g => g.user = user)).map (·.id)
    if gs.isEmpty then (s, .err "unknown_session") else
    (gs.foldl revokeGr s, .ok)
  | .logoutAll user =>
    if (s.grants.filter (fun g => g.user = user)).isEmpty then (s, .err "unknown_session") else
    ((logoutTargets cfg s user).foldl revokeGr s, .ok)
  | .remove gid =>
    match findGr s gid with
    | none => (s, .err "unknown_grant")
    | some _ =>
      ({ s with grants := s.grants.filter (fun g => g.id ≠ gid), toks := s.toks.filter (fun t => t.gid ≠ gid) }, .ok)

def run (cfg : Cfg) : St → List Op → St × List Out
  | s, [] => (s, [])
  | s, op :: ops =>
    let (s1, o) := step cfg s op
    let (s2, os) := run cfg s1 ops
    (s2, o :: os)

end Idpy.Provider
