/-
Model of the handler layer under token resolution (idpyoidc.server.token):

    DefaultToken.__call__   lv_pack(rnd, token_class, session_id, exp), encrypted, base64
    DefaultToken.info       decrypt -> lv_unpack -> dict(zip([_id, token_class, sid, exp], fields)) -> class-tag test
    TokenHandler.get_handler   the handlers in handler_order; KeyError / TokenException / Invalid / AttributeError mean "next"
    SessionManager.get_session_info_by_token   handler_key names one handler, else get_handler; no sid -> WrongTokenClass

The cipher is idealised: a token is the pair (key it was encrypted under, plaintext) and a handler decrypts exactly
the tokens encrypted under its own key (authenticated encryption: Fernet).  Everything after decryption is literal.
`Model/Resolve.lean` is the layer above (exact-value lookup in the grant); its theorems hold for ANY handler layer,
the ones here say what THIS handler layer does.
-/
import IdpyVerif.Model.LV
namespace Idpy.Handler
open Idpy Idpy.LV

/-- one DefaultToken instance -/
structure H where
  name : Str      -- token_class
  alt : Str       -- ALT_TOKEN_NAME[token_class], "" when there is none
  key : Nat       -- identity of the key its cipher uses
  deriving DecidableEq, Repr

structure Tok where
  key : Nat
  plain : Str
  deriving DecidableEq, Repr

structure Info where
  id : Str
  cls : Str
  sid : Option Str
  exp : Option Str
  deriving DecidableEq, Repr

inductive Out where
  | ok : Info → Out
  | skip : Out      -- an exception TokenHandler.get_handler swallows (UnknownToken, WrongTokenClass, KeyError)
  | raise : Out     -- one it does not swallow (ValueError out of lv_unpack)
  deriving DecidableEq, Repr

/-- "authorization_code" -/
@[irreducible] def authCode : Str := [97, 117, 116, 104, 111, 114, 105, 122, 97, 116, 105, 111, 110, 95, 99, 111, 100, 101]
theorem authCode_eq : authCode = [97, 117, 116, 104, 111, 114, 105, 122, 97, 116, 105, 111, 110, 95, 99, 111, 100, 101] := by
  unfold authCode; rfl

/-- `if not token_class and self.token_class: token_class = self.token_class else: "authorization_code"`
    (the grant never passes a token_class) -/
def tagOf (h : H) : Str := if h.name.isEmpty then authCode else h.name

def mint (h : H) (rnd sid exp : Str) : Tok := { key := h.key, plain := pack [rnd, tagOf h, sid, exp] }

def info (h : H) (t : Tok) : Out :=
  if t.key ≠ h.key then .skip                   -- decrypt raises: UnknownToken
  else match unpack t.plain with
    | none => .raise                             -- ValueError
    | some (id :: cls :: rest) =>
      if cls = h.name ∨ cls = h.alt then
        .ok { id := id, cls := h.name, sid := rest.head?, exp := (rest.drop 1).head? }
      else .skip                                 -- WrongTokenClass
    | some _ => .skip                            -- KeyError: no token_class entry

/-- `TokenHandler.get_handler`: `none` = an exception escaped, `some none` = (None, None) -/
def getHandler : List H → Tok → Option (Option (H × Info))
  | [], _ => some none
  | h :: hs, t =>
    match info h t with
    | .ok i => some (some (h, i))
    | .skip => getHandler hs t
    | .raise => none

/-- the sid `get_session_info_by_token` goes on with; `none` = refused (any exception) -/
def sidBy (hs : List H) (handlerKey : Option Str) (t : Tok) : Option Str :=
  let i? : Option Info :=
    match handlerKey with
    | some k =>
      match hs.find? (fun h => h.name = k) with
      | some h => (match info h t with | .ok i => some i | _ => none)
      | none => none                              -- KeyError
    | none =>
      match getHandler hs t with
      | some (some (_, i)) => some i
      | _ => none
  match i? with
  | some i => (match i.sid with | some s => if s.isEmpty then none else some s | none => none)
  | none => none

end Idpy.Handler
