/-
Model of subject identifiers: `public_id`, `pairwise_id`, `ephemeral_id` (session/manager.py),
the selection by the client's registered subject type and sector in
`Authorization.create_session` (after the fix for F-C18-a), and the four places a `sub` is published.
The hash (sha256 hexdigest) is the parameter `H`.
-/
import IdpyVerif.Base
namespace Idpy.Subject

inductive SubType where | publicT | pairwise | ephemeral
  deriving DecidableEq, Repr

/-- what is hashed -/
def preimage (t : SubType) (uid sector salt : Str) : Str :=
  match t with
  | .publicT => uid ++ salt
  | .pairwise => uid ++ sector ++ salt
  | .ephemeral => []

/-- `sub_func[sub_type](user_id, salt=…, sector_identifier=…)`; `fresh` is the uuid4 of an ephemeral subject -/
def subFor (H : Str → Str) (t : SubType) (uid sector salt fresh : Str) : Str :=
  match t with
  | .ephemeral => fresh
  | t => H (preimage t uid sector salt)

structure Client where
  subjectType : Option SubType     -- registered subject_type (absent: public)
  sectorId : Option Str            -- registered sector identifier
  redirectHost : Str               -- netloc of the redirect_uri of the request

/-- the subject type and sector `Authorization.create_session` passes on -/
def typeOf (c : Client) : SubType := c.subjectType.getD .publicT
def sectorOf (c : Client) : Str :=
  if typeOf c = .pairwise then c.sectorId.getD c.redirectHost else []

def grantSub (H : Str → Str) (c : Client) (uid salt fresh : Str) : Str :=
  subFor H (typeOf c) uid (sectorOf c) salt fresh

/-- the four publication points. `userSubAttr`: a user attribute named `sub` that the claims rules
    release at the point. None of the points lets it replace the grant's subject: the ID token
    deletes it from the user claims, userinfo sets `sub` last, the JWT access token and
    introspection only add user attributes under names not already present (F-C18-c, fixed) -/
structure Views where
  idToken : Str
  userinfo : Str
  jwtAccess : Str
  introspection : Str

def addIfAbsent (present : Option Str) (fromUser : Option Str) : Option Str :=
  match present with
  | some v => some v
  | none => fromUser

def views (sub : Str) (userSubAttr : Option Str) : Views :=
  { idToken := sub, userinfo := sub,
    jwtAccess := (addIfAbsent (some sub) userSubAttr).getD sub,
    introspection := (addIfAbsent (some sub) userSubAttr).getD sub }

end Idpy.Subject
