/-
Model of the PKCE add-ons: server `post_authn_parse` / `post_token_parse`, client
`add_code_challenge` / `add_code_verifier`.  The hash (`H : method name → verifier → text`,
i.e. `b64e(sha(v))`) is an uninterpreted parameter: no property of it is needed.
-/
import IdpyVerif.Base
namespace Idpy.Pkce

abbrev Method := String

structure Cfg where
  methods : List Method          -- configured code_challenge_methods (subset of the server table)
  essential : Bool               -- global flag

structure Client where
  essential : Option Bool        -- per-client `pkce_essential` (overrides the global flag)

def isAscii (v : Str) : Bool := v.all (· < 128)

/-- `CC_METHOD[m](verifier)`: `plain` is the identity; hashed methods first `encode("ascii")`
    (UnicodeEncodeError on non-ASCII = `none`) -/
def transform (H : Method → Str → Str) (m : Method) (v : Str) : Option Str :=
  if m = "plain" then some v else if isAscii v then some (H m v) else none

inductive AuthzRes where
  | error                                              -- AuthorizationErrorResponse
  | ok (stored : Option (Str × Method))                -- what the grant's authorization request records
  deriving Repr

/-- `post_authn_parse` -/
def authzParse (cfg : Cfg) (cl : Client) (challenge : Option Str) (method : Option Method) : AuthzRes :=
  let essential := cl.essential.getD cfg.essential
  if essential ∧ challenge.isNone then .error else
  let m := method.getD "plain"                         -- written into the request when absent
  match challenge with
  | some c => if cfg.methods.contains m then .ok (some (c, m)) else .error
  | none => .ok none

inductive TokenRes where
  | pass          -- the request goes on to the token helper
  | error         -- TokenErrorResponse (no tokens)
  | exc           -- exception escapes (no tokens)
  deriving DecidableEq, Repr

/-- `post_token_parse` for an authorization_code request whose code resolved to a grant with the
    recorded (challenge, method) -/
def tokenParse (H : Method → Str → Str) (stored : Option (Str × Method)) (verifier : Option Str) : TokenRes :=
  match stored with
  | none => .pass
  | some (c, m) =>
    match verifier with
    | none => .error
    | some v =>
      match transform H m v with
      | none => .exc
      | some t => if t = c then .pass else .error

/-- client add-on: challenge for a freshly drawn verifier (method default S256) -/
def clientChallenge (H : Method → Str → Str) (m : Method) (v : Str) : Str := H m v

end Idpy.Pkce
