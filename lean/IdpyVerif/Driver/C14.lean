import IdpyVerif.Model.LV
import IdpyVerif.Model.SessionDB
namespace Idpy.Driver.C14
open Idpy Idpy.Wire

def encOptList (o : Option (List Str)) : String := match o with
  | none => "exc"
  | some l => "ok\t" ++ encList l

/-- stateless codec ops -/
def codec (args : List String) : Option String :=
  match args with
  | ["pack", l] => (decList l).map (fun xs => encStr (LV.pack xs))
  | ["unpack", s] => (decStr s).map (fun t => encOptList (LV.unpack t))
  | ["join", l] => (decList l).map (fun xs => encStr (SessionDB.joinKey xs))
  | ["split", s] => (decStr s).map (fun t => encList (SessionDB.splitKey t))
  | ["sid", r, p] => do
      let rnd ← decStr r
      let path ← decList p
      some (encOptList (SessionDB.sidResolve (SessionDB.sidPlain rnd path)))
  | _ => none

open SessionDB in
def kindStr : Kind → String
  | .user => "U" | .client => "C" | .grant => "G" | .xgrant => "X"

/-- canonical dump: entries sorted by the harness; here insertion order -/
def dumpDB (db : SessionDB.DB) : String :=
  " ".intercalate (db.map fun (k, n) =>
    encStr k ++ "|" ++ kindStr n.kind ++ "|" ++ (if n.revoked then "1" else "0") ++ "|" ++ encList n.subs)

open SessionDB in
def parseOp (args : List String) : Option Op :=
  match args with
  | ["create", u, c, g] => do some (.create (← decStr u) (← decStr c) (← decStr g))
  | ["exchange", u, c, g] => do some (.exchange (← decStr u) (← decStr c) (← decStr g))
  | ["revoke", p, l] => do some (.revoke (← decList p) (← l.toNat?))
  | ["remove", p] => do some (.remove (← decList p))
  | ["delete", p] => do some (.delete (← decList p))
  | ["deletesub", k] => do some (.deleteSub (← decStr k))
  | ["flush"] => some .flush
  | _ => none

def rnd : Str := List.replicate 32 114

/-- ops addressed by a session id first go through the sid codec -/
def viaSid (p : String) : Option (Option (List Str)) :=
  (decList p).map fun path => SessionDB.sidResolve (SessionDB.sidPlain rnd path)

def finish (db : SessionDB.DB) (r : Option SessionDB.DB) : SessionDB.DB × String :=
  match r with
  | none => (db, "exc")
  | some db' => (db', "ok\t" ++ dumpDB db')

def stepLine (db : SessionDB.DB) (args : List String) : SessionDB.DB × String :=
  match args with
  | ["reset"] => ([], "ok")
  | ["revokesid", p, l] =>
    match viaSid p, l.toNat? with
    | some (some path), some lvl =>
      -- revoke_sub_tree: `level > len(path)` raises; get(path[0:level+1]) KeyError when absent
      if lvl > path.length then (db, "exc") else finish db (SessionDB.step db (.revoke path lvl))
    | some none, _ => (db, "exc")
    | _, _ => (db, "bad-op")
  | ["removesid", p] =>
    match viaSid p with
    | some (some path) => finish db (SessionDB.step db (.remove path))
    | some none => (db, "exc")
    | none => (db, "bad-op")
  | _ =>
    match parseOp args with
    | none => (db, "bad-op")
    | some op =>
      match SessionDB.step db op with
      | none => (db, "exc")
      | some db' => (db', "ok\t" ++ dumpDB db')

end Idpy.Driver.C14
