import IdpyVerif.Model.ClientAuthn
namespace Idpy.Driver.ClientAuthn
open Idpy Idpy.Wire Idpy.ClientAuthn

structure DS where
  cfg : Cfg := { methods := [], clients := [] }
  st : St := { now := 0, jtiSeen := [] }

def methodOf : String → Option Method
  | "client_secret_basic" => some .basic | "client_secret_post" => some .post | "bearer_header" => some .bearerHeader
  | "bearer_body" => some .bearerBody | "client_secret_jwt" => some .secretJwt | "private_key_jwt" => some .privateKeyJwt
  | "request_param" => some .requestParam | "public" => some .publicM | "none" => some .noneM | _ => none

def methodStr : Method → String
  | .basic => "client_secret_basic" | .post => "client_secret_post" | .bearerHeader => "bearer_header" | .bearerBody => "bearer_body"
  | .secretJwt => "client_secret_jwt" | .privateKeyJwt => "private_key_jwt" | .requestParam => "request_param" | .publicM => "public" | .noneM => "none"

def methods (w : String) : List Method := (w.splitOn ",").filterMap methodOf

def optS (w : String) : Option (Option Str) :=
  if w = "none" then some none else if w.startsWith "some:" then (decStr (w.drop 5).toString).map some else none

def stepLine (d : DS) (args : List String) : DS × String :=
  match args with
  | ["reset", ms, now] => ({ cfg := { methods := methods ms, clients := [] }, st := { now := now.toNat?.getD 0, jtiSeen := [] } }, "ok")
  | ["keepreset", ms, now] => ({ cfg := { methods := methods ms, clients := [] }, st := { d.st with now := now.toNat?.getD 0 } }, "ok")
  | ["now", n] => ({ d with st := { d.st with now := n.toNat?.getD 0 } }, "ok")
  | ["client", id, secret, exp, allowed] =>
    match decStr id, optS secret with
    | some i, some s =>
      let al := if allowed = "-" then none else some (methods allowed)
      ({ d with cfg := { d.cfg with clients := d.cfg.clients ++ [{ id := i, secret := s, secretExpiresAt := exp.toNat?.getD 0, allowed := al }] } }, "ok")
    | _, _ => (d, "bad-op")
  | ["req", basic, pid, psec, assertion, bearer] =>
    let b : Option Basic :=
      if basic = "absent" then some .absent else if basic = "malformed" then some .malformed
      else match basic.splitOn ":" with
        | ["pair", i, s] => match decStr i, decStr s with | some a, some c => some (.pair a c) | _, _ => none
        | _ => none
    let a : Option (Option Jwt) :=
      if assertion = "none" then some none else
      match assertion.splitOn ":" with
      | [u, hs, iss, oct, aud, jti] =>
        match decStr iss, (if jti = "none" then some none else (decStr jti).map some) with
        | some i, some j => some (some { unpack := if u = "ok" then .ok else if u = "auth" then .authErr else .other,
                                         hs := hs = "1", iss := i, octIsSecret := oct = "1", audOk := aud = "1", jti := j })
        | _, _ => none
      | _ => none
    let br : Option (Option (Option Str)) :=
      if bearer = "none" then some none else if bearer = "some:none" then some (some none)
      else if bearer.startsWith "some:" then (decStr (bearer.drop 5).toString).map (fun x => some (some x)) else none
    match b, optS pid, optS psec, a, br with
    | some b', some p1, some p2, some a', some br' =>
      let c : Cred := { basic := b', postId := p1, postSecret := p2, assertion := a', bearer := br' }
      let (st', o) := verifyClient d.cfg d.st c
      let os := match o with
        | .accepted cl m => "accepted\t" ++ encStr cl ++ "\t" ++ methodStr m
        | .authnError => "authnError" | .unknownClient => "unknownClient" | .invalidClient => "invalidClient" | .nothing => "nothing"
      let ts := match treatedAs d.cfg o p1 with
        | none => "T:-"
        | some (i, a) => "T:" ++ (match i with | some x => encStr x | none => "none") ++ ":" ++ (if a then "1" else "0")
      ({ d with st := st' }, os ++ "\t" ++ ts ++ "\t|" ++ toString st'.jtiSeen.length)
    | _, _, _, _, _ => (d, "bad-op")
  | _ => (d, "bad-op")

end Idpy.Driver.ClientAuthn
