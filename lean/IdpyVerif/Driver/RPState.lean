import IdpyVerif.Model.RPState
import IdpyVerif.Model.UrlEnc
namespace Idpy.Driver.RPState
open Idpy Idpy.Wire Idpy.RPState

def optStr (w : String) : Option (Option Str) :=
  if w = "none" then some none else if w.startsWith "some:" then (decStr (w.drop 5).toString).map some else none

/-- `none` | `<nonce opt>|<sub>` -/
def idtOf (w : String) : Option (Option IdT) :=
  if w = "none" then some none else
  match w.splitOn "|" with
  | [n, s] => do some (some { nonce := ← optStr n, sub := ← decStr s })
  | [n, s, a, c] => do some (some { nonce := ← optStr n, sub := ← decStr s, atHash := ← optStr a, cHash := ← optStr c })
  | _ => none

def showOpt (o : Option Str) : String := match o with | none => "none" | some s => "some:" ++ encStr s

def dumpClient (c : Client) : String :=
  let recs := c.db.map fun (s, r) =>
    "|".intercalate [encStr s, showOpt r.nonce, showOpt r.code, showOpt r.accessToken,
      (match r.idt with | none => "none" | some t => showOpt t.nonce ++ "/" ++ encStr t.sub), showOpt r.userSub]
  let maps := c.map.map fun (k, v) => encStr k ++ ">" ++ encStr v
  encStr c.issuer ++ " " ++ ";".intercalate recs ++ " " ++ ";".intercalate maps

def dump (h : Handler) : String := "\t".intercalate (h.map dumpClient)

def stepLine (h : Handler) (args : List String) : Handler × String :=
  match args with
  | ["reset", issuers, cid] =>
    match decList issuers, decStr cid with
    | some is, some c => (is.map fun i => { issuer := i, clientId := c }, "ok")
    | _, _ => (h, "bad-op")
  | ["noop"] => (h, "noop")
  | "op" :: issuer :: rest =>
    match decStr issuer with
    | none => (h, "bad-op")
    | some iss =>
      let op : Option Op := match rest with
        | ["begin", s, n] => do some (.begin (← decStr s) (← decStr n))
        | ["authz", s, code, ip, cp, idt] => do
          some (.authz { state := ← optStr s, code := ← optStr code, issParam := ← optStr ip, clientIdParam := ← optStr cp, idt := ← idtOf idt })
        | ["authz", s, code, ip, cp, idt, at_] => do
          some (.authz { state := ← optStr s, code := ← optStr code, issParam := ← optStr ip, clientIdParam := ← optStr cp, idt := ← idtOf idt,
                         accessToken := ← optStr at_ })
        | ["authz", s, code, ip, cp, idt, at_, aud] => do
          some (.authz { state := ← optStr s, code := ← optStr code, issParam := ← optStr ip, clientIdParam := ← optStr cp, idt := ← idtOf idt,
                         accessToken := ← optStr at_, audParam := ← optStr aud })
        | ["token", s, at_, idt] => do some (.token (← decStr s) { accessToken := ← decStr at_, idt := ← idtOf idt })
        | ["userinfo", s, sub] => do some (.userinfo (← decStr s) (← decStr sub))
        | _ => none
      match op with
      | none => (h, "bad-op")
      | some o =>
        let (h', ok) := deliver h iss o
        (h', (if ok then "ok" else "rej") ++ "\t" ++ dump h')
  | _ => (h, "bad-op")

end Idpy.Driver.RPState
