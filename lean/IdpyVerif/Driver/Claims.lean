import IdpyVerif.Model.Claims
import IdpyVerif.Model.UrlEnc
namespace Idpy.Driver.Claims
open Idpy Idpy.Wire Idpy.Claims

/-- entry "key<US>tag<US>v1<US>v2…" with US = U+001F; tag n/v/s/e/x -/
def entry (e : Str) : Option (Str × Spec) :=
  match UrlEnc.splitAll 31 e with
  | k :: [110] :: _ => some (k, .any)
  | k :: [118] :: v :: _ => some (k, .value v)
  | k :: [115] :: vs => some (k, .values vs)
  | k :: [101] :: _ => some (k, .essentialOnly)
  | k :: [120] :: _ => some (k, .empty)
  | _ => none

def restr (l : List Str) : Option Restr := l.foldr (fun e acc => match entry e, acc with
  | some x, some r => some (x :: r) | _, _ => none) (some [])

def infoOf (l : List Str) : Str → Option Str := fun k =>
  (l.find? (fun e => (UrlEnc.splitAll 31 e).head? = some k)).bind (fun e => (UrlEnc.splitAll 31 e)[1]?)

def handle (args : List String) : Option String :=
  match args with
  | ["release", base, always, byScope, scopeClaims, requested, info] => do
    let cfg : PointCfg := { base := ← restr (← decList base), always := ← decList always, byScope := byScope = "1" }
    let r := restriction cfg (← decList scopeClaims) (← restr (← decList requested))
    let out := release (infoOf (← decList info)) r
    some (encList (out.map (·.1)))
  | ["resolve", base, mAlways, mByScope, perClient, bsNonEmpty, bsPoint, bsSec, alPoint, alSec, point, rtOnly, scopeClaims, requested, info] => do
    -- the whole path: rules chosen by resolvePoint for (point, response type), then restriction and release
    let optB : String → Option Bool := fun w => if w = "1" then some true else if w = "0" then some false else none
    let pt ← decStr point
    let sec := secondaryOf pt (rtOnly = "1")
    let m : ModuleConf := { base := ← restr (← decList base), byScope := mByScope = "1", always := ← decList mAlways, perClient := perClient = "1" }
    let alP ← decList alPoint
    let alS ← decList alSec
    let cl : ClientConf := { bsNonEmpty := bsNonEmpty = "1",
                             byScope := fun p => if p = pt then optB bsPoint else if some p = sec then optB bsSec else none,
                             always := fun p => if p = pt then alP else if some p = sec then alS else [] }
    let cfg := resolvePoint m cl pt sec
    let r := restriction cfg (← decList scopeClaims) (← restr (← decList requested))
    some (encList ((release (infoOf (← decList info)) r).map (·.1)))
  | ["audgate", e, cs, inAud] =>
    let c : Option Bool := if cs = "1" then some true else if cs = "0" then some false else none
    some (if audGate (e = "1") c (inAud = "1") then "1" else "0")
  | _ => none
end Idpy.Driver.Claims
