import IdpyVerif.Model.Claims
import IdpyVerif.Model.UrlEnc
namespace Idpy.Driver.Claims
open Idpy Idpy.Wire Idpy.Claims

/-- entry "key<US>tag<US>v1<US>v2…" with US = U+001F; tag n/v/s/e/x -/
def entry (e : Str) : Option (Str × Spec) :=
  match UrlEnc.splitAll 31 e with
  | k :: [110] :: _ => some (k, .any)
  | k :: [118] :: v :: _ => some (k, .value v)
  | k :: [115] :: vs => some (k, .values vs)
  | k :: [101] :: _ => some (k, .essentialOnly)
  | k :: [120] :: _ => some (k, .empty)
  | _ => none

def restr (l : List Str) : Option Restr := l.foldr (fun e acc => match entry e, acc with
  | some x, some r => some (x :: r) | _, _ => none) (some [])

def infoOf (l : List Str) : Str → Option Str := fun k =>
  (l.find? (fun e => (UrlEnc.splitAll 31 e).head? = some k)).bind (fun e => (UrlEnc.splitAll 31 e)[1]?)

def handle (args : List String) : Option String :=
  match args with
  | ["release", base, always, byScope, scopeClaims, requested, info] => do
    let cfg : PointCfg := { base := ← restr (← decList base), always := ← decList always, byScope := byScope = "1" }
    let r := restriction cfg (← decList scopeClaims) (← restr (← decList requested))
    let out := release (infoOf (← decList info)) r
    some (encList (out.map (·.1)))
  | _ => none
end Idpy.Driver.Claims
