import IdpyVerif.Model.Redirect
namespace Idpy.Driver.Redirect
open Idpy Idpy.Wire Idpy.Redirect Idpy.UrlEnc

def b (s : Str) : Bool := s = [49]

def mkParsed (l : List Str) (q : Query) : Option Parsed :=
  match l with
  | [clean, scheme, netloc, path, params, fragment, hostFlag, hostname, portOk, hasPort] =>
    some { clean := b clean, scheme := scheme, netloc := netloc, path := path, params := params, fragment := fragment,
           hostname := if b hostFlag then some hostname else none, portOk := b portOk, hasPort := b hasPort, query := q }
  | _ => none

def mkQuery (l : List Str) : Query :=
  l.map fun e => match splitAll 31 e with
    | [] => ([], [])
    | k :: vs => (k, vs)

def regs : List String → Option (List (Parsed × Query))
  | [] => some []
  | p :: q :: rest => do
    let qq := mkQuery (← decList q)
    let pp ← mkParsed (← decList p) qq
    let r ← regs rest
    some ((pp, qq) :: r)
  | _ => none

def pairsOf : List Str → List (List Nat × List Nat)
  | a :: c :: rest => (a, c) :: pairsOf rest
  | _ => []

def handle (args : List String) : Option String :=
  match args with
  | "verify" :: native :: oidc :: rp :: rq :: rest => do
    let q := mkQuery (← decList rq)
    let req ← mkParsed (← decList rp) q
    let rs ← regs rest
    some (match verifyUri (native = "1") (oidc = "1") req rs with
      | .ok => "ok" | .uriError => "uriError" | .redirectError => "redirectError")
  | ["deliver", mode, uri, ps] => do
    let m := if mode = "fragment" then Mode.fragment else Mode.query
    some (encStr (deliver m (← decStr uri) (pairsOf (← decList ps))))
  | ["escape", s] => do some (encStr (escape (← decStr s)))
  | _ => none

end Idpy.Driver.Redirect
