import IdpyVerif.Model.Interop
namespace Idpy.Driver.Interop
open Idpy Idpy.Interop

def rtOf : String → Option RT
  | "code" => some .code | "id_token" => some .idToken | "code id_token" => some .codeIdToken
  | "code token" => some .codeToken | "id_token token" => some .idTokenToken | "code id_token token" => some .codeIdTokenToken
  | "token" => some .token | _ => none
def rmOf : String → Option RM | "-" => some .default | "query" => some .query | "fragment" => some .fragment | "form_post" => some .formPost | _ => none
def amOf : String → Option AM
  | "client_secret_basic" => some .secretBasic | "client_secret_post" => some .secretPost | "client_secret_jwt" => some .secretJwt
  | "private_key_jwt" => some .privateKeyJwt | _ => none
def fmtOf : String → Option Fmt | "opaque" => some .opaque | "jwt" => some .jwt | _ => none
def sigOf : String → Option SigAlg
  | "RS256" => some .rs256 | "ES256" => some .es256 | "HS256" => some .hs256 | "PS256" => some .ps256
  | "HS384" => some .hs384 | "HS512" => some .hs512 | "RS384" => some .rs384 | _ => none
def encOf : String → Option Enc | "-" => some .none | "RSA-OAEP" => some .rsaOaep | "ECDH-ES" => some .ecdhEs | _ => none
def uiOf : String → Option UI | "json" => some .json | "RS256" => some .rs256 | "ES256" => some .es256 | "enc" => some .enc | _ => none
def reqOf : String → Option Req | "plain" => some .plain | "request" => some .byValue | "request_uri" => some .byReference | "par" => some .pushed | _ => none

def showP : Placement → String | .query => "query" | .fragment => "fragment" | .formPost => "form_post"
def showC : Call → String | .pushed => "pushed_authorization" | .authorization => "authorization" | .token => "token" | .userinfo => "userinfo"
def b (x : Bool) : String := if x then "1" else "0"

def handle (args : List String) : Option String :=
  match args with
  | ["run", rt, rm, am, atf, rtf, ialg, ienc, ui, req, pkce, offline] => do
    let c : Cell := { rt := ← rtOf rt, rm := ← rmOf rm, am := ← amOf am, atf := ← fmtOf atf, rtf := ← fmtOf rtf, ialg := ← sigOf ialg,
                      ienc := ← encOf ienc, ui := ← uiOf ui, req := ← reqOf req, pkce := pkce = "1" }
    match run c (offline = "1") with
    | none => some "refused"
    | some o => some ("\t".intercalate [showP o.placement, ",".intercalate (o.calls.map showC), b o.codeFront, b o.idTokenFront, b o.tokenResponse,
                                         b o.refreshToken, b o.idTokenEncrypted, b o.userinfoCalled, b o.tokenFront, b o.idToken, b o.accessToken])
  | _ => none

end Idpy.Driver.Interop
