import IdpyVerif.Model.Resolve
import IdpyVerif.Model.Handler
import IdpyVerif.Model.UrlEnc
namespace Idpy.Driver.Resolve
open Idpy Idpy.Wire Idpy.Resolve

def clsOf (s : Str) : Option Cls :=
  if s = lit "code" then some .code else if s = lit "access" then some .access
  else if s = lit "refresh" then some .refresh else if s = lit "idtoken" then some .idtoken else none

def slotOf : String → Option Slot
  | "tokenCode" => some .tokenCode | "userinfo" => some .userinfo | "refreshGrant" => some .refreshGrant
  | "introspect" => some .introspect | "revoke" => some .revoke | "bearerAuth" => some .bearerAuth | _ => none

def natOf (s : Str) : Nat := s.foldl (fun a c => a * 10 + (c - 48)) 0

def mintedOf (e : Str) : Option Minted :=
  match UrlEnc.splitAll 31 e with
  | [v, c, s, a] => (clsOf c).map fun cc => { value := v, cls := cc, session := natOf s, active := a = [49] }
  | _ => none

def handle (args : List String) : Option String :=
  match args with
  | ["honour", slot, s, minted] => do
    let sl ← slotOf slot
    let str ← decStr s
    let ms ← (← decList minted).foldr (fun e acc => match mintedOf e, acc with | some m, some l => some (m :: l) | _, _ => none) (some [])
    -- idealised handler layer: a genuine value decodes to the session it was minted in
    let decode : Decode := fun _ x => (ms.find? (·.value = x)).map (·.session)
    some (match honour decode ms sl str with | some sid => s!"honoured {sid}" | none => "refused")
  | ["handler", hs, hkey, tkey, plain] => do
    -- the handler layer: DefaultToken.info per handler, TokenHandler.get_handler, the sid get_session_info_by_token goes on with
    let hl ← (← decList hs).foldr (fun e acc => match UrlEnc.splitAll 31 e, acc with
        | [n, a, k], some l => some (({ name := n, alt := a, key := natOf k } : Handler.H) :: l)
        | _, _ => none) (some [])
    let hk ← if hkey = "none" then some none else (decStr hkey).map some
    let t : Handler.Tok := { key := natOf (← decStr tkey), plain := ← decStr plain }
    let showInfo (i : Handler.Info) : String := s!"ok {encStr i.id} {encStr i.cls} {encOpt i.sid} {encOpt i.exp}"
    let infos := hl.map fun h => match Handler.info h t with | .ok i => showInfo i | .skip => "skip" | .raise => "raise"
    let get := match Handler.getHandler hl t with
      | none => "raise" | some none => "none" | some (some (h, i)) => s!"{encStr h.name} {showInfo i}"
    some ("|".intercalate infos ++ " get=" ++ get ++ " sid=" ++ encOpt (Handler.sidBy hl hk t))
  | _ => none
end Idpy.Driver.Resolve
