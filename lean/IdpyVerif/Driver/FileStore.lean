import IdpyVerif.Model.FileStore
import IdpyVerif.Model.UrlEnc
import IdpyVerif.Model.ImpExp
import IdpyVerif.Model.HeapFlows
import IdpyVerif.Gen.Flows
namespace Idpy.Driver.FileStore
open Idpy Idpy.Wire Idpy.FileStore

structure DS where
  conv : Conv := { ser := id, deser := id, vser := id, vdeser := some }
  fs : FS := {}

def convOf (w : String) : Option Conv :=
  if w = "qp" then some { ser := UrlEnc.quotePlus, deser := UrlEnc.unquotePlus, vser := id, vdeser := some }
  else if w = "pass" then some { ser := id, deser := id, vser := id, vdeser := some }
  else none

def render : Out → String
  | .ok => "ok"
  | .val v => "val\t" ++ encStr v
  | .keyError => "keyError"
  | .osError => "osError"
  | .convError => "convError"
  | .bool b => if b then "bool\t1" else "bool\t0"
  | .keys ks => "keys\t" ++ encList ks
  | .num n => s!"num\t{n}"

def apply (d : DS) (op : Op) : DS × String :=
  let (s', o) := step d.conv d.fs op
  ({ d with fs := s' }, render o)

def stepLine (d : DS) (args : List String) : DS × String :=
  match args with
  | ["reset", w] => match convOf w with
    | some c => ({ conv := c, fs := {} }, "ok")
    | none => (d, "bad-op")
  | ["set", k, v] => match decStr k, decStr v with
    | some k', some v' => apply d (.set k' v')
    | _, _ => (d, "bad-op")
  | ["get", k] => match decStr k with | some k' => apply d (.get k') | none => (d, "bad-op")
  | ["del", k] => match decStr k with | some k' => apply d (.del k') | none => (d, "bad-op")
  | ["contains", k] => match decStr k with | some k' => apply d (.contains k') | none => (d, "bad-op")
  | ["keys"] => apply d .keys
  | ["len"] => apply d .len
  | ["clear"] => apply d .clear
  | ["reopen"] => apply d .reopen
  | _ => (d, "bad-op")

/-- `ie load <exported;…> <attrs;…> <fresh,…> <orig,…>` → the restored valuation on `attrs` -/
def ieLine (args : List String) : Option String :=
  match args with
  | ["load", ex, at_, fr, og] =>
    let exported := if ex = "" then [] else ex.splitOn ";"
    let attrs := if at_ = "" then [] else at_.splitOn ";"
    let nums (s : String) : Option (List Nat) := if s = "" then some [] else
      (s.splitOn ",").foldr (fun p acc => match p.toNat?, acc with | some n, some l => some (n :: l) | _, _ => none) (some [])
    match nums fr, nums og with
    | some f, some o =>
      if f.length ≠ attrs.length ∨ o.length ≠ attrs.length then none else
      let mk (vals : List Nat) : ImpExp.Obj := fun a => ((attrs.zip vals).lookup a).getD 0
      let r := ImpExp.load (mk f) (ImpExp.dump exported (mk o))
      some (",".intercalate (attrs.map fun a => toString (r a)))
    | _, _ => none
  | _ => none

-- `heap usage <client has rules 0/1> <rule has supports_minting 0/1>`: run the usage-rules flow AS THE CODE HAS IT on a heap of that
-- shape and say whether a cell of the client record changed
open Idpy.Heap in
def heapLine (args : List String) : Option String :=
  match args with
  | ["usage", hasRules, hasSm] =>
    let h : Heap :=
      { next := 5,
        store := fun a =>
          if a = 0 then some { isList := false, items := [(kAC, .ref 1)] }
          else if a = 1 then some { isList := false, items := [(7, .atom 300)] }
          else if a = 2 then some { isList := false, items := if hasRules = "1" then [(kAC, .ref 3)] else [] }
          else if a = 3 then some { isList := false, items := if hasSm = "1" then [(kSM, .ref 4)] else [(7, .atom 600)] }
          else if a = 4 then some { isList := true, items := [(0, .atom 8)] }
          else none }
    let h' := usageFlow Gen.usageRulesCopiesClient h (.ref 0) (.ref 2)
    let changed := [0, 1, 2, 3, 4].filter fun a => h'.store a != h.store a
    some (if changed.isEmpty && Gen.usageRulesCopiesConfig then "unchanged" else "changed")
  | ["settings"] =>
    some (if Gen.revocationSelfWrites.isEmpty && !Gen.userinfoWritesConfig && Gen.findTokenSchemaIsLocal then "unchanged" else "changed")
  | _ => none

end Idpy.Driver.FileStore
