import IdpyVerif.Model.Pkce
namespace Idpy.Driver.Pkce
open Idpy Idpy.Wire Idpy.Pkce

def asString (s : Str) : String := String.ofList (s.map Char.ofNat)

def optS (w : String) : Option (Option Str) :=
  if w = "none" then some none else if w.startsWith "some:" then (decStr (w.drop 5).toString).map some else none

def handle (args : List String) : Option String :=
  match args with
  | ["authz", methods, ess, ovr, chal, meth] => do
    let ms := (← decList methods).map asString
    let cfg : Cfg := { methods := ms, essential := ess = "1" }
    let cl : Client := { essential := if ovr = "none" then none else some (ovr = "1") }
    let c ← optS chal
    let m ← optS meth
    some (match authzParse cfg cl c (m.map asString) with
      | .error => "error"
      | .ok none => "ok\tnone"
      | .ok (some (c', m')) => "ok\t" ++ encStr c' ++ "\t" ++ encStr (m'.toList.map Char.toNat))
  | ["token", stored, sc, sm, verifier, hval] => do
    let scv ← decStr sc
    let smv ← decStr sm
    let st : Option (Str × Method) := if stored = "1" then some (scv, asString smv) else none
    let v ← optS verifier
    let hv ← decStr hval
    some (match tokenParse (fun _ _ => hv) st v with
      | .pass => "pass" | .error => "error" | .exc => "exc")
  | _ => none

end Idpy.Driver.Pkce
