import IdpyVerif.Model.Jar
namespace Idpy.Driver.Jar
open Idpy Idpy.Wire Idpy.Jar

structure DS where
  par : ParSt := {}

def stepLine (d : DS) (args : List String) : DS × String :=
  match args with
  | ["byref", reg, prov, client, ro] =>
    match decStr client with
    | none => (d, "bad-op")
    | some cl =>
      let p : Policy := { registeredAlg := if reg = "-" then none else some reg, providerAlgs := prov.splitOn "," }
      match ro.splitOn ":" with
      | [v, alg, cid, iss] =>
        let c : Option (Option Str) := if cid = "-" then some none else (decStr cid).map some
        let i : Option (Option Str) := if iss = "-" then some none else (decStr iss).map some
        match c, i with
        | some c', some i' =>
          -- outer: o=u ; the object: i=n and o=x (an inner value for the outer name)
          (d, match byReference p cl [([111], [117])] { verifies := v = "1", alg := alg, clientId := c', iss := i', params := [([105], [110]), ([111], [120])] } with
            | .refused => "refused"
            | .effective ps => if ps = [([105], [110]), ([111], [120])] then "inner" else "outer")
        | _, _ => (d, "bad-op")
      | _ => (d, "bad-op")
  | ["byvalue", reg, prov, client, ro] =>
    match decStr client with
    | none => (d, "bad-op")
    | some cl =>
      let p : Policy := { registeredAlg := if reg = "-" then none else some reg, providerAlgs := prov.splitOn "," }
      let o : Option (Option RO) :=
        if ro = "none" then some none else
        match ro.splitOn ":" with
        | [v, alg, cid, iss] =>
          let c : Option (Option Str) := if cid = "-" then some none else (decStr cid).map some
          let i : Option (Option Str) := if iss = "-" then some none else (decStr iss).map some
          match c, i with
          | some c', some i' => some (some { verifies := v = "1", alg := alg, clientId := c', iss := i', params := [([105], [110])] })
          | _, _ => none
        | _ => none
      match o with
      | none => (d, "bad-op")
      | some o' =>
        (d, match byValue p cl [([111], [117])] o' with
          | .refused => "refused"
          | .effective ps => if ps = [([105], [110])] then "inner" else "outer")
  | ["par", "reset"] => ({ d with par := {} }, "ok")
  | ["par", "push", c, ttl] =>
    match decStr c, ttl.toNat? with
    | some cl, some t => let (s', o) := parStep d.par (.push cl [] t); ({ d with par := s' }, match o with | .urn u => s!"urn {u}" | _ => "?")
    | _, _ => (d, "bad-op")
  | ["par", "redeem", c, u] =>
    match decStr c, u.toNat? with
    | some cl, some un =>
      let (s', o) := parStep d.par (.redeem cl un)
      ({ d with par := s' }, match o with | .proceeds a _ => "proceeds\t" ++ encStr a | .refused => "refused" | _ => "?")
    | _, _ => (d, "bad-op")
  | ["par", "tick", n] => let (s', _) := parStep d.par (.tick (n.toNat?.getD 0)); ({ d with par := s' }, "ok")
  | _ => (d, "bad-op")

end Idpy.Driver.Jar
