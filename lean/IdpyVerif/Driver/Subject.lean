import IdpyVerif.Model.Subject
namespace Idpy.Driver.Subject
open Idpy Idpy.Wire Idpy.Subject

def handle (args : List String) : Option String :=
  match args with
  | ["pre", typ, uid, sector, host, salt] => do
    let t : Option SubType := if typ = "public" then some .publicT else if typ = "pairwise" then some .pairwise else if typ = "ephemeral" then some .ephemeral else none
    let sec : Option Str ← if sector = "none" then some none else (decStr (sector.drop 5).toString).map some
    let c : Client := { subjectType := t, sectorId := sec, redirectHost := ← decStr host }
    let u ← decStr uid
    let s ← decStr salt
    some (match typeOf c with
      | .ephemeral => "fresh"
      | tt => "hash\t" ++ encStr (preimage tt u (sectorOf c) s))
  | ["views", sub, attr] => do
    let a : Option Str ← if attr = "none" then some none else (decStr (attr.drop 5).toString).map some
    let v := views (← decStr sub) a
    some ("\t".intercalate [encStr v.idToken, encStr v.userinfo, encStr v.jwtAccess, encStr v.introspection])
  | _ => none
end Idpy.Driver.Subject
