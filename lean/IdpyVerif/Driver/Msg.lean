import IdpyVerif.Model.Msg
import IdpyVerif.Model.MsgVerify
namespace Idpy.Driver.Msg
open Idpy Idpy.Wire Idpy.Msg Idpy.UrlEnc

def kindOf : String → Option Kind
  | "str" => some .str | "int" => some .int | "bool" => some .bool
  | "listStr" => some .listStr | "spSep" => some .spSep | "other" => some .other | _ => none

def decVal (w : String) : Option Val :=
  if w.startsWith "s:" then (decStr (w.drop 2).toString).map .str
  else if w.startsWith "i:" then ((w.drop 2).toString.toNat?).map .int
  else if w.startsWith "b:" then some (.bool ((w.drop 2).toString = "1"))
  else if w.startsWith "l:" then (decList (w.drop 2).toString).map .strs
  else if w.startsWith "o:" then ((w.drop 2).toString.toNat?).map .opaque
  else none

def encVal : Val → String
  | .str s => "s:" ++ encStr s
  | .int n => "i:" ++ toString n
  | .bool b => "b:" ++ (if b then "1" else "0")
  | .strs l => "l:" ++ encList l
  | .opaque n => "o:" ++ toString n

def pairsOf : List Str → List (Bytes × Bytes)
  | a :: b :: rest => (a, b) :: pairsOf rest
  | _ => []

/-- allowed-values field: "" = none, else values separated by U+001F, each `s<text>` or `i<digits>` -/
def decAllowed (a : Str) : Option (List Val) :=
  if a.isEmpty then none else
  some ((UrlEnc.splitAll 31 (a.drop 1)).filterMap fun item =>
    match item with
    | 115 :: rest => some (.str rest)
    | 105 :: rest => some (.int (rest.foldl (fun acc c => acc * 10 + (c - 48)) 0))
    | _ => none)

def mkSpec : List Str → List Str → List Str → List Str → List MsgVerify.PSpec
  | n :: ns, k :: ks, r :: rs, a :: as =>
    { name := n, kind := (kindOf (String.ofList (k.map Char.ofNat))).getD .other, required := r = [49], allowed := decAllowed a } :: mkSpec ns ks rs as
  | _, _, _, _ => []

def zipVals : List Str → List String → Option Msg
  | [], [] => some []
  | k :: ks, v :: vs => do
    let val ← decVal v
    let rest ← zipVals ks vs
    some ((k, val) :: rest)
  | _, _ => none

def handle (args : List String) : Option String :=
  match args with
  | ["dict", k, v] => do
    let kind ← kindOf k
    let val ← decVal v
    let w := serDict kind val
    some (encVal w ++ "\t" ++ match deserDict kind w with
      | none => "drop"
      | some none => "exc"
      | some (some r) => "ok " ++ encVal r)
  | ["url", k, v] => do
    let kind ← kindOf k
    let val ← decVal v
    match serUrl kind val with
    | none => some "none"
    | some t => some (encStr t ++ "\t" ++ encStr (quotePlus t) ++ "\t" ++ encVal (deserUrl kind t) ++ "\t" ++ encVal (textual kind val))
  | ["qs", kb, ps] => do
    let l ← decList ps
    let pairs := pairsOf l
    let qs := urlencode pairs
    let back := parseQsl (kb = "1") qs
    some (encStr qs ++ "\t" ++ encList (back.flatMap fun (k, v) => [k, v]))
  | ["parseqs", kb, qs] => do
    let q ← decStr qs
    some (encList ((parseQsl (kb = "1") q).flatMap fun (k, v) => [k, v]))
  | "verify" :: names :: kinds :: reqs :: allowed :: keys :: vals => do
    let spec := mkSpec (← decList names) (← decList kinds) (← decList reqs) (← decList allowed)
    let m ← zipVals (← decList keys) vals
    some (if MsgVerify.verifyGeneric spec m then "ok" else "raise")
  | ["unq", t] => do some (encStr (unquotePlus (← decStr t)))
  | ["unquote", t] => do some (encStr (unquote (← decStr t)))
  | _ => none

end Idpy.Driver.Msg
