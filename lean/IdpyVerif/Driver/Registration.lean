import IdpyVerif.Model.Registration
import IdpyVerif.Gen.Reg
namespace Idpy.Driver.Registration
open Idpy Idpy.Registration

def shape (w : String) : Option UriShape :=
  match w.splitOn "," with
  | [s, lb, fr] =>
    let sch := if s = "http" then some Scheme.http else if s = "https" then some .https else if s = "custom" then some .custom else none
    sch.map fun x => { scheme := x, loopbackName := lb = "1", hasFragment := fr = "1" }
  | _ => none

def stepLine (s : St) (args : List String) : St × String :=
  match args with
  | ["reset"] => ({}, "ok")
  | ["register", native, codeOnly, otherOk, uris] =>
    let us := if uris = "" then some [] else (uris.splitOn ";").foldr (fun w acc => match shape w, acc with
      | some u, some l => some (u :: l) | _, _ => none) (some [])
    match us with
    | none => (s, "bad-op")
    | some l =>
      let (s', o) := step s (.register { native := native = "1", codeOnly := codeOnly = "1", uris := l, otherOk := otherOk = "1" })
      (s', match o with | .registered i c t => s!"registered {i} {c} {t}" | _ => "error")
  | ["filter", table, k, v, ann] =>
    -- table: the generated register2preferred ("gen") ; ann: "-" (the metadata has no such name) or a comma-separated list ("" = empty)
    let t := if table = "gen" then Gen.register2preferred else []
    let a : String → Option (List String) := fun _ => if ann = "-" then none else some (if ann = "" then [] else ann.splitOn ",")
    (s, match filterParam t a k v with | some x => "keep " ++ x | none => "drop")
  | ["read", t, c] =>
    match t.toNat?, c.toNat? with
    | some tt, some cc => let (s', o) := step s (.read tt cc); (s', match o with | .read _ => "read" | _ => "refused")
    | _, _ => (s, "bad-op")
  | _ => (s, "bad-op")

end Idpy.Driver.Registration
