import IdpyVerif.Model.MsgRules
namespace Idpy.Driver.MsgRules
open Idpy Idpy.Wire Idpy.MsgRules

def b (w : String) : Bool := w = "1"
def ob (w : String) : Option Bool := if w = "1" then some true else if w = "0" then some false else none
def ol (w : String) : Option (Option (List Str)) := if w = "-" then some none else (decList w).map some
def os (w : String) : Option (Option Str) := if w = "-" then some none else (decStr w).map some
def pairs : List String → List (Bool × Bool)
  | a :: e :: rest => (b a, b e) :: pairs rest
  | _ => []
def yn (x : Bool) : String := if x then "ok" else "refuse"

def handle (args : List String) : Option String :=
  match args with
  | ["clientMetadata", gt, ru] => do some (yn (clientMetadata (← decList gt) (b ru)))
  | ["clientInformation", gt, ru, sec, exp] => do some (yn (clientInformation (← decList gt) (b ru) (b sec) (b exp)))
  | ["oidcAuthorizationRequest", rt, nonce, scope, prompt] => do
    some (yn (oidcAuthorizationRequest (← decList rt) (b nonce) (← decList scope) (← ol prompt)))
  | "registrationRequest" :: il :: none' :: ps => some (yn (registrationRequest (ob il) (pairs ps) (b none')))
  | "registrationResponse" :: _ :: uri :: at' :: _ => some (yn (registrationResponse (b uri) (b at')))
  | ["providerConfiguration", scopes, https, allow, authAlgs, idAlgs, plain, rts, tep] => do
    some (yn (providerConfiguration (← ol scopes) (b https) (b allow) (← ol authAlgs) (← decList idAlgs) (b plain) (← decList rts) (b tep)))
  | ["idTokenAudience", aud, azp, me] => do some (yn (idTokenAudience (← decList aud) (← os azp) (← os me)))
  | ["logoutToken", nonce, keys, emptyV, sub, sid, aud, wantAud, iss, wantIss] => do
    some (yn (logoutToken (b nonce) (← decList keys) (b emptyV) (b sub) (b sid) (← decList aud) (← os wantAud) (← decStr iss) (← os wantIss)))
  | ["authorizationResponse", cid, wcid, iss, wiss] => do
    some (yn (authorizationResponse (← os cid) (← os wcid) (← os iss) (← os wiss)))
  | ["endSessionRequest", pl, hint] => some (yn (endSessionRequest (b pl) (b hint)))
  | _ => none

end Idpy.Driver.MsgRules
