import IdpyVerif.Model.Cookie
import IdpyVerif.Model.ClientCookie
namespace Idpy.Driver.C17
open Idpy Idpy.Wire Idpy.Cookie

def pairs : List Str → List (Str × Str)
  | a :: b :: rest => (a, b) :: pairs rest
  | _ => []
def quads : List Str → List (Str × Str × Str × Str)
  | a :: b :: c :: d :: rest => (a, b, c, d) :: quads rest
  | _ => []

def lookupP (t : List (Str × Str)) (x : Str) : Option Str := (t.find? (·.1 = x)).map (·.2)

/-- crypto instance from tables computed by the harness with the real keys -/
def mkCrypto (macT b64T fernetT : List (Str × Str)) (aeadT : List (Str × Str × Str × Str)) : Crypto :=
  { mac := fun m => (lookupP macT m).getD (0 :: m)
    b64 := fun x => ((b64T.find? (·.2 = x)).map (·.1)).getD (1 :: x)
    unb64 := lookupP b64T
    aeadEnc := fun _ m => (m, [])
    aeadDec := fun iv ct tag => (aeadT.find? (fun q => q.1 = iv ∧ q.2.1 = ct ∧ q.2.2.1 = tag)).map (·.2.2.2)
    fernetEnc := id
    fernetDec := lookupP fernetT }

def quints : List Str → List (Str × Str × Str × Str × Str)
  | a :: b :: c :: d :: e :: rest => (a, b, c, d, e) :: quints rest
  | _ => []

/-- crypto instance of the relying-party cookie module from tables computed with the real seed / key -/
def mkClientCrypto (macT b64T : List (Str × Str)) (aeadT : List (Str × Str × Str × Str × Str)) : ClientCookie.Crypto :=
  { mac := fun m => (lookupP macT m).getD (0 :: m)
    b64 := fun x => ((b64T.find? (·.2 = x)).map (·.1)).getD (1 :: x)
    unb64 := lookupP b64T
    aeadEnc := fun _ m _ => (m, [])
    aeadDec := fun iv ct tag aad => (aeadT.find? (fun q => q.1 = iv ∧ q.2.1 = ct ∧ q.2.2.1 = tag ∧ q.2.2.2.1 = aad)).map (·.2.2.2.2) }

def modeOf : String → Option Mode
  | "signed" => some .signed | "signedEnc" => some .signedEnc
  | "encOnly" => some .encOnly | "crypt" => some .crypt | _ => none

def handle (args : List String) : Option String :=
  match args with
  | ["parse", m, cookie, macT, b64T, aeadT, fernetT] => do
    let mode ← modeOf m
    let c ← decStr cookie
    let k := mkCrypto (pairs (← decList macT)) (pairs (← decList b64T)) (pairs (← decList fernetT)) (quads (← decList aeadT))
    match parse k mode c with
    | .rejected => some "rejected"
    | .content v t ts => some ("content\t" ++ encStr v ++ "\t" ++ encStr t ++ "\t" ++ encStr ts)
  | ["clientparse", cookie, macT, b64T, aeadT] => do
    let c ← decStr cookie
    let k := mkClientCrypto (pairs (← decList macT)) (pairs (← decList b64T)) (quints (← decList aeadT))
    match ClientCookie.parse k c with
    | none => some "rejected"
    | some (l, ts) => some ("content\t" ++ encStr l ++ "\t" ++ encStr ts)
  | ["payload", v, t] => do some (encStr (payloadOf (← decStr v) (← decStr t)))
  | _ => none

end Idpy.Driver.C17
