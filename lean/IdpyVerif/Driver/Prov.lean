import IdpyVerif.Model.Provider
namespace Idpy.Driver.Prov
open Idpy Idpy.Wire Idpy.Provider

def clsStr : Cls → String
  | .code => "code" | .access => "access" | .refresh => "refresh" | .idtoken => "idtoken"

/-- usage rules of the harness configuration (USAGE_A in harness/prov.py) -/
def ruleA : Cls → Rule
  | .code => { mints := [.access, .refresh, .idtoken], expiresIn := 300 }
  | .access => { mints := [], expiresIn := 3600 }
  | .refresh => { mints := [.access, .refresh, .idtoken], expiresIn := 86400 }
  | .idtoken => { mints := [], expiresIn := 300 }

/-- the harness variant "norefrule": no usage rule for refresh tokens — `RefreshToken.set_defaults` gives the minting
    rights, `_mint_token` falls back to the refresh handler's lifetime (86400 s in the harness configuration) -/
def ruleNR : Cls → Rule
  | .refresh => { mints := [.access, .refresh], expiresIn := 86400 }
  | c => ruleA c

/-- the token-exchange variant of the harness configuration: access tokens may be exchanged -/
def ruleX : Cls → Rule
  | .access => { mints := [.access, .refresh], expiresIn := 3600 }
  | c => ruleA c

/-- the per-client rules of the harness variant "c1rules": client_1 registers
    {refresh_token: {supports_minting: [access_token]}, access_token: {expires_in: 600}} -/
def ovC1 : Str → Cls → Option RuleOv := fun c cls =>
  if c == lit "client_1" then
    match cls with
    | .refresh => some { mints := some [.access], expiresIn := none }
    | .access => some { mints := none, expiresIn := some 600 }
    | _ => none
  else none

structure DS where
  cfg : Cfg := { oidc := true, jwt := false, rule := ruleA, revokeRefreshOnIssue := false, allowed := fun _ => [], grantExpiresIn := 43200, authnExpiresIn := 3600 }
  st : St := {}

def optId : Option Nat → String
  | none => "-1" | some n => toString n

def outStr : Out → String
  | .err _ => "err"
  | .code id _ => s!"code {id}"
  | .parsed => "parsed"
  | .tokens _ a r i sc => s!"tokens {optId a} {optId r} {optId i} {encList sc}"
  | .userinfo _ _ => "userinfo"
  | .introspect a sc => s!"introspect {if a then "1" else "0"} {encList sc}"
  | .exchanged id sc => s!"exchanged {id} {encList sc}"
  | .ok => "ok"

def proj (s : St) : String :=
  let toks := " ".intercalate (s.toks.map fun t =>
    s!"{t.id}|{clsStr t.cls}|{t.gid}|{match t.basedOn with | none => "-1" | some b => toString b}|{t.used}|{if t.revoked then 1 else 0}|{t.exp}|{encList t.scope}")
  let grants := " ".intercalate (s.grants.map fun g => s!"{g.id}|{if g.revoked then 1 else 0}|{encList g.scope}")
  toks ++ "\t" ++ grants

def optStr (w : String) : Option (Option Str) :=
  if w = "none" then some none
  else if w.startsWith "some:" then (decStr (w.drop 5).toString).map some else none
def optList (w : String) : Option (Option (List Str)) :=
  if w = "none" then some none
  else if w.startsWith "some:" then (decList (w.drop 5).toString).map some else none

def parseAllowed (l : List Str) : Str → List Str := fun c =>
  -- entries "client=scope scope ..."
  match l.find? (fun e => (e.takeWhile (· ≠ 61)) = c) with
  | none => []
  | some e =>
    let rest := (e.dropWhile (· ≠ 61)).drop 1
    -- split on space
    (rest.foldr (fun ch (acc : List Str) => if ch = 32 then [] :: acc else match acc with
      | [] => [[ch]]
      | a :: as => (ch :: a) :: as) [[]]).filter (fun x => !x.isEmpty)

def parseCls : String → Option Cls
  | "code" => some .code | "access" => some .access | "refresh" => some .refresh | "idtoken" => some .idtoken
  | _ => none

def parseOp (args : List String) : Option Op :=
  match args with
  | ["tick", n] => do some (.tick (← n.toNat?))
  | ["authorize", u, c, sc, r] => do some (.authorize (← decStr u) (← decStr c) (← decList sc) (← optStr r))
  | ["tokenParse", c, code, r] => do some (.tokenParse (← decStr c) (← code.toNat?) (← optStr r))
  | ["tokenProcess", i] => do some (.tokenProcess (← i.toNat?))
  | ["refresh", c, rt, sc] => do some (.refresh (← decStr c) (← rt.toNat?) (← optList sc))
  | ["exchange", c, t, st, rt, sc] => do
    some (.exchange (← decStr c) (← t.toNat?) (← parseCls st) (← (if rt = "none" then some none else (parseCls rt).map some)) (← optList sc))
  | ["userinfo", t] => do some (.userinfo (← t.toNat?))
  | ["introspect", c, t] => do some (.introspect (← decStr c) (← t.toNat?))
  | ["revokeEp", c, t] => do some (.revokeEp (← decStr c) (← t.toNat?))
  | ["revokeTok", t, r] => do some (.revokeTok (← t.toNat?) (r = "1"))
  | ["revokeGrant", g] => do some (.revokeGrant (← g.toNat?))
  | ["revokeClient", u, c] => do some (.revokeClient (← decStr u) (← decStr c))
  | ["revokeUser", u] => do some (.revokeUser (← decStr u))
  | ["logoutAll", u] => do some (.logoutAll (← decStr u))
  | ["remove", g] => do some (.remove (← g.toNat?))
  | _ => none

def stepLine (d : DS) (args : List String) : DS × String :=
  match args with
  | "reset" :: oidc :: jwt :: al :: rest =>
    -- rest: [usage variant or "-"] [deny_unknown_scopes: "-" | "all" (provider preference) | a client id (that client's own setting)]
    let usage : List String := match rest.head? with | some "-" => [] | some u => [u] | none => []
    let deny : String := (rest.drop 1).head?.getD "-"
    match decList al with
    | none => (d, "bad-op")
    | some l =>
      ({ cfg := { oidc := oidc = "1", jwt := jwt = "1", rule := (if usage = ["x"] then ruleX else if usage = ["nr"] then ruleNR else ruleA), revokeRefreshOnIssue := false,
                  clientOv := (if usage = ["c1"] then ovC1 else fun _ _ => none),
                  allowed := parseAllowed l, grantExpiresIn := (if usage = ["ng"] ∨ usage = ["nr"] then 0 else 43200), authnExpiresIn := 3600,
                  -- harness configuration: client_1 back-channel, client_2 front-channel, client_3 no logout URI
                  logoutUri := fun c => c == lit "client_1" || c == lit "client_2",
                  denyUnknown := fun c => deny = "all" || (deny != "-" && c == lit deny) }, st := {} }, "ok")
  | ["ccscope", al] =>
    match optList al with
    | some a => (d, encList (configuredScope a))
    | none => (d, "bad-op")
  | _ =>
    match parseOp args with
    | none => (d, "bad-op")
    | some op =>
      let (s', o) := step d.cfg d.st op
      ({ d with st := s' }, outStr o ++ "\t" ++ proj s')

end Idpy.Driver.Prov
