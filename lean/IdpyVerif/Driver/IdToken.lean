import IdpyVerif.Model.IdToken
import IdpyVerif.Model.UrlEnc
namespace Idpy.Driver.IdToken
open Idpy Idpy.Wire Idpy.IdToken

def fStr (w : String) : Option (F Str) :=
  if w = "absent" then some .absent else if w = "bad" then some .bad
  else if w.startsWith "val:" then (decStr (w.drop 4).toString).map .val else none

def fList (w : String) : Option (F (List Str)) :=
  if w = "absent" then some .absent else if w = "bad" then some .bad
  else if w.startsWith "val:" then (decList (w.drop 4).toString).map .val else none

def fNat (w : String) : Option (F Nat) :=
  if w = "absent" then some .absent else if w = "bad" then some .bad
  else if w.startsWith "val:" then (w.drop 4).toString.toNat?.map .val else none

def fBool (w : String) : Option (F Bool) :=
  if w = "absent" then some .absent else if w = "bad" then some .bad
  else if w = "val:1" then some (.val true) else if w = "val:0" then some (.val false) else none

def optStr (w : String) : Option (Option Str) :=
  if w = "none" then some none else if w.startsWith "some:" then (decStr (w.drop 5).toString).map some else none

def famOf (w : String) : Option Fam :=
  if w = "rsa" then some .rsa else if w = "ec" then some .ec else if w = "oct" then some .oct else if w = "other" then some .other else none

def signerOf (w : String) : Option Signer :=
  if w = "secret" then some .secret else if w = "outsider" then some .outsider else
  match w.splitOn ":" with
  | ["jar", o, f] => do some (.jarKey (← decStr o) (← famOf f))
  | _ => none

def kidOf (w : String) : Option Kid :=
  if w = "ok" then some .ok else if w = "absent" then some .absent else if w = "wrong" then some .wrong else none

def handle (args : List String) : Option String :=
  match args with
  | ["accept", path, ep, issuer, cid, sigalg, allowNone, skew, storage, now, known, nonceKw, accCode, accAt,
     isJwt, alg, signer, intact, kid, iss, sub, aud, azp, exp, iat, nonce, atHash, cHash, state, sentNonce, nonceMap] => do
    let cfg : Cfg := { issuer := ← decStr issuer, clientId := ← decStr cid, sigalg := if sigalg = "-" then none else some sigalg,
                       allowNone := allowNone = "1", skew := ← skew.toNat?, storage := ← storage.toNat?, now := ← now.toNat?, known := ← decList known }
    let s : Sig := { isJwt := isJwt = "1", alg := alg, signer := ← signerOf signer, intact := intact = "1", kid := ← kidOf kid }
    let c : Claims := { iss := ← fStr iss, sub := ← fStr sub, aud := ← fList aud, azp := ← fStr azp, exp := ← fNat exp, iat := ← fNat iat,
                        nonce := ← fStr nonce, atHash := ← fBool atHash, cHash := ← fBool cHash }
    let acc : Accomp := { code := accCode = "1", accessToken := accAt = "1" }
    let e : Endpoint := if ep = "authz" then .authz else .token
    let nm ← (← decList nonceMap).foldr (fun e acc => match UrlEnc.splitAll 31 e with
        | [n, st] => acc.map fun l => (n, st.foldl (fun a c => a * 10 + (c - 48)) 0) :: l
        | _ => none) (some [])
    let fl : Flow := { state := ← state.toNat?, sentNonce := ← optStr sentNonce, nonceMap := nm }
    let nk ← optStr nonceKw
    let r := if path = "svc" then acceptService cfg e fl acc s c else acceptMsg cfg e nk acc s c
    some (if r then "accepted" else "rejected")
  | ["effsigalg", reg, conf] =>
    some (effectiveSigalg (if reg = "-" then none else some reg) (if conf = "-" then none else some conf))
  | _ => none

end Idpy.Driver.IdToken
