/-
Base definitions shared by all models.

Text is modelled as a list of Unicode code points (`Nat`), never `Char`/`String`:
kernel reduction on `Char` literals is slow, and Python's `len()`/indexing are
code-point based, which is what `List Nat` gives us.

This file is core-only (no Mathlib) so that the driver links as an executable.
-/
namespace Idpy

abbrev Str := List Nat

/-- result of a Python call: value, returned error message, or escaped exception -/
inductive Res (α : Type) where
  | ok  : α → Res α
  | err : String → Res α
  | exc : String → Res α
  deriving Repr, DecidableEq

namespace Wire
/-! Line protocol helpers (only used by the driver, not by theorems).
A string travels as its code points in hex joined by `,`; the empty string is `-`.
A list of strings is joined by `;`; the empty list is the empty field. -/

def hexDigit? (c : Char) : Option Nat :=
  if '0' ≤ c ∧ c ≤ '9' then some (c.toNat - 48)
  else if 'a' ≤ c ∧ c ≤ 'f' then some (c.toNat - 87)
  else none

def hexNat? (s : String) : Option Nat :=
  if s.isEmpty then none else
  s.toList.foldl (fun acc c => match acc, hexDigit? c with
    | some a, some d => some (a * 16 + d)
    | _, _ => none) (some 0)

def decStr (s : String) : Option Str :=
  if s = "-" then some [] else
  (s.splitOn ",").foldr (fun p acc => match hexNat? p, acc with
    | some n, some l => some (n :: l)
    | _, _ => none) (some [])

def decList (s : String) : Option (List Str) :=
  if s = "" then some [] else
  (s.splitOn ";").foldr (fun p acc => match decStr p, acc with
    | some n, some l => some (n :: l)
    | _, _ => none) (some [])

def hexOfNat (n : Nat) : String :=
  String.ofList (Nat.toDigits 16 n)

def encStr (s : Str) : String :=
  if s.isEmpty then "-" else ",".intercalate (s.map hexOfNat)

def encList (l : List Str) : String := ";".intercalate (l.map encStr)

def encOpt (o : Option Str) : String := match o with
  | none => "none"
  | some s => "some:" ++ encStr s

/-- ASCII literal to Str (driver/tests convenience) -/
def lit (s : String) : Str := s.toList.map Char.toNat

end Wire
end Idpy
