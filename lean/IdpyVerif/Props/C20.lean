/-
C20 — handling requests never alters static schemas, defaults or client configuration.
-/
import IdpyVerif.Proofs.Heap
import IdpyVerif.Model.HeapFlows
import IdpyVerif.Gen.Flows
namespace Idpy.Props.C20
open Idpy Idpy.Heap

theorem getItem_mem (c : Cell) (k : Nat) (v : Val) (h : getItem c k = some v) : ∃ kv ∈ c.items, kv.2 = v := by
  unfold getItem at h
  cases hf : c.items.find? (fun kv => kv.1 = k) with
  | none => rw [hf] at h; cases h
  | some kv =>
    rw [hf] at h
    simp only [Option.map_some, Option.some.injEq] at h
    exact ⟨kv, List.mem_of_find?_eq_some hf, h⟩

theorem cellOf_some (h : Heap) (v : Val) (a : Addr) (c : Cell) (hc : cellOf h v = some (a, c)) : v = .ref a ∧ h.store a = some c := by
  cases v with
  | atom _ => cases hc
  | ref b =>
    cases hs : h.store b with
    | none => simp [cellOf, hs] at hc
    | some c' =>
      simp only [cellOf, hs, Option.map_some, Option.some.injEq, Prod.mk.injEq] at hc
      obtain ⟨h1, h2⟩ := hc
      subst h1 h2
      exact ⟨rfl, hs⟩

/-- stepping through a fresh value stays fresh: an item of a cell reached from a fresh value -/
theorem fresh_item (lo : Addr) (st : Addr → Option Cell) (n : Nat) (a : Addr) (c : Cell) (k : Nat) (v : Val)
    (hf : Fresh lo st (n + 1) (.ref a)) (hs : st a = some c) (hg : getItem c k = some v) : Fresh lo st n v := by
  obtain ⟨_, c', hc', hk⟩ := hf
  rw [hs] at hc'
  cases hc'
  obtain ⟨kv, hm, rfl⟩ := getItem_mem c k v hg
  exact hk kv hm

theorem fresh_addr (lo : Addr) (st : Addr → Option Cell) (n : Nat) (a : Addr) (hf : Fresh lo st (n + 1) (.ref a)) : lo ≤ a := hf.1

/-- **the usage-rules flow after the fix writes no static cell**: for every heap, every provider-wide
    and per-client rules value (nested as rules are: token type → rule → list), every cell that
    existed before the request is the same afterwards -/
theorem usage_flow_fixed_static_unwritten (h : Heap) (gc cl : Val) (hw : WF h)
    (hg : Depth h.store 3 gc) (hc : Depth h.store 3 cl) (a : Addr) (ha : a < h.next) :
    (usageFlow true h gc cl).store a = h.store a := by
  obtain ⟨w1, n1, e1, f1, b1⟩ := deepcopy_fresh 3 h gc hw hg
  have hc1 : Depth (copyVal 3 h gc).1.store 3 cl := depth_ext _ _ e1 3 cl hc
  obtain ⟨w2, n2, e2, f2, b2⟩ := deepcopy_fresh 3 (copyVal 3 h gc).1 cl w1 hc1
  have base : (copyVal 3 (copyVal 3 h gc).1 cl).1.store a = h.store a :=
    (b2 a (Nat.lt_of_lt_of_le ha n1)).trans (b1 a ha)
  have fr1 : Fresh h.next (copyVal 3 (copyVal 3 h gc).1 cl).1.store 3 (copyVal 3 h gc).2 := fresh_ext _ _ _ e2 3 _ f1
  have fr2 : Fresh h.next (copyVal 3 (copyVal 3 h gc).1 cl).1.store 3 (copyVal 3 (copyVal 3 h gc).1 cl).2 := fresh_lo _ _ _ n1 3 _ f2
  unfold usageFlow
  simp only [if_true]
  generalize (copyVal 3 (copyVal 3 h gc).1 cl).1 = hh at base fr1 fr2 ⊢
  generalize (copyVal 3 h gc).2 = rv at fr1 ⊢
  generalize (copyVal 3 (copyVal 3 h gc).1 cl).2 = pv at fr2 ⊢
  split
  · rename_i ra rc pa pcc hr hp
    obtain ⟨rfl, hsr⟩ := cellOf_some hh rv ra rc hr
    obtain ⟨rfl, hsp⟩ := cellOf_some hh pv pa pcc hp
    split
    · rename_i rule pcRule hgr hgp
      have frule : Fresh h.next hh.store 2 rule := fresh_item _ _ 2 ra rc kAC rule fr1 hsr hgr
      have fprule : Fresh h.next hh.store 2 pcRule := fresh_item _ _ 2 pa pcc kAC pcRule fr2 hsp hgp
      split
      · rename_i a1 ruleC a2 pcRuleC hc1' hc2'
        obtain ⟨rfl, _⟩ := cellOf_some hh rule a1 ruleC hc1'
        obtain ⟨rfl, hs2⟩ := cellOf_some hh pcRule a2 pcRuleC hc2'
        have la1 : h.next ≤ a1 := fresh_addr _ _ 1 a1 frule
        split
        · rename_i sm hsm
          have fsm : Fresh h.next hh.store 1 sm := fresh_item _ _ 1 a2 pcRuleC kSM sm fprule hs2 hsm
          split
          · rename_i t smC hct
            obtain ⟨rfl, _⟩ := cellOf_some _ sm t smC hct
            have lt : h.next ≤ t := fresh_addr _ _ 0 t fsm
            rw [write_below _ t _ h.next lt a ha, write_below _ a1 _ h.next la1 a ha]
            exact base
          · rw [write_below _ a1 _ h.next la1 a ha]; exact base
        · rw [write_below _ a1 _ h.next la1 a ha]; exact base
      · exact base
    · exact base
  · exact base

/-- … hence no structural snapshot of static state can tell the difference -/
theorem usage_flow_fixed_snapshot_unchanged (h : Heap) (gc cl : Val) (hw : WF h)
    (hg : Depth h.store 3 gc) (hc : Depth h.store 3 cl) (hcl : StaticClosed h.next h.store)
    (f : Nat) (root : Val) (hr : ∀ b, root = .ref b → b < h.next) :
    snap (usageFlow true h gc cl).store f root = snap h.store f root :=
  snap_frame h.next h.store _ (fun a ha => usage_flow_fixed_static_unwritten h gc cl hw hg hc a ha) hcl f root hr

/-! ### the code before the fixes: concrete heaps on which static state changes -/

/-- a heap with provider-wide rules at 0..1 and a client record's rules at 2..4:
    `{authorization_code: {supports_minting: [access_token]}}` -/
def h0 : Heap :=
  { next := 5,
    store := fun a =>
      if a = 0 then some { isList := false, items := [(kAC, .ref 1)] }
      else if a = 1 then some { isList := false, items := [(7, .atom 300)] }
      else if a = 2 then some { isList := false, items := [(kAC, .ref 3)] }
      else if a = 3 then some { isList := false, items := [(kSM, .ref 4)] }
      else if a = 4 then some { isList := true, items := [(0, .atom 8)] }
      else none }

/-- F-C20-a: without the copy the client's `supports_minting` list (cell 4) is appended to -/
theorem usage_flow_unfixed_writes_client_record :
    (usageFlow false h0 (.ref 0) (.ref 2)).store 4 = some { isList := true, items := [(0, .atom 8), (1, .atom aRT)] } ∧
    h0.store 4 = some { isList := true, items := [(0, .atom 8)] } ∧
    (usageFlow true h0 (.ref 0) (.ref 2)).store 4 = h0.store 4 := by
  decide +kernel

/-- settings kept in a cell allocated for the request leave every existing cell alone … -/
theorem setting_local_static_unwritten (h : Heap) (ep : Addr) (k : Nat) (v : Val) (a : Addr) (ha : a < h.next) :
    (settingFlow true h ep k v).store a = h.store a := by
  unfold settingFlow
  simp only [if_true, alloc]
  have : a ≠ h.next := Nat.ne_of_lt ha
  simp [this]

/-- … kept on the endpoint / the class-level table they overwrite it (F-C20-b/c/d): the next request,
    of another client, reads what this one left -/
theorem setting_on_endpoint_writes_static :
    (settingFlow false h0 1 7 (.atom 60)).store 1 = some { isList := false, items := [(7, .atom 60)] } ∧
    h0.store 1 = some { isList := false, items := [(7, .atom 300)] } := by
  decide +kernel

/-- the hypotheses of the main theorem are satisfiable: `h0` is well-formed, closed, and its rules have depth < 3 -/
example : WF h0 ∧ Depth h0.store 3 (.ref 0) ∧ Depth h0.store 3 (.ref 2) := by
  refine ⟨?_, ?_, ?_⟩
  · intro a c hs
    show a < 5
    unfold h0 at hs
    simp only at hs
    by_cases h0' : a = 0; · subst h0'; decide
    by_cases h1 : a = 1; · subst h1; decide
    by_cases h2 : a = 2; · subst h2; decide
    by_cases h3 : a = 3; · subst h3; decide
    by_cases h4 : a = 4; · subst h4; decide
    simp [h0', h1, h2, h3, h4] at hs
  · refine ⟨{ isList := false, items := [(kAC, .ref 1)] }, rfl, ?_⟩
    intro kv hkv; simp at hkv; subst hkv
    refine ⟨{ isList := false, items := [(7, .atom 300)] }, rfl, ?_⟩
    intro kv hkv; simp at hkv; subst hkv; trivial
  · refine ⟨{ isList := false, items := [(kAC, .ref 3)] }, rfl, ?_⟩
    intro kv hkv; simp at hkv; subst hkv
    refine ⟨{ isList := false, items := [(kSM, .ref 4)] }, rfl, ?_⟩
    intro kv hkv; simp at hkv; subst hkv
    refine ⟨{ isList := true, items := [(0, .atom 8)] }, rfl, ?_⟩
    intro kv hkv; simp at hkv; subst hkv; trivial

/-! ### the tie to the source: where the transcribed flows write, read off the code on every run -/

/-- the code's flows are the fixed ones: the model instance that applies is `usageFlow true` /
    `settingFlow true` (table obligation over `Gen/Flows.lean`, regenerated from /repo's AST) -/
theorem flows_as_modelled :
    Gen.usageRulesCopiesClient = true ∧ Gen.revocationSelfWrites = [] ∧ Gen.userinfoWritesConfig = false ∧
    Gen.findTokenSchemaIsLocal = true ∧ Gen.usageRulesCopiesConfig = true := by decide

/-- the usage-rules flow AS THE CODE HAS IT writes no static cell -/
theorem usage_flow_static_unwritten (h : Heap) (gc cl : Val) (hw : WF h)
    (hg : Depth h.store 3 gc) (hc : Depth h.store 3 cl) (a : Addr) (ha : a < h.next) :
    (usageFlow Gen.usageRulesCopiesClient h gc cl).store a = h.store a := by
  rw [flows_as_modelled.1]
  exact usage_flow_fixed_static_unwritten h gc cl hw hg hc a ha

end Idpy.Props.C20
