/-
C16 — request objects and pushed requests are authenticated before they take effect.
-/
import IdpyVerif.Model.Jar
namespace Idpy.Props.C16
open Idpy Idpy.Jar

/-- by value (after the fix for F-C16-a/b): if the endpoint goes on with anything else than the
    plain outer parameters, the object verified under the identified client's keys, used an
    algorithm permitted for that client, and names no other client — and then ALL effective
    parameters are the object's (inner overrides outer) -/
theorem by_value_sound (p : Policy) (client : Str) (outer : Params) (o : RO) (ps : Params)
    (h : byValue p client outer (some o) = .effective ps) :
    o.verifies = true ∧ allowedAlg p o.alg = true ∧ o.clientId = some client ∧ ps = o.params ∧
    (o.iss = some client ∨ (o.iss = none ∧ o.alg = "none")) := by
  unfold byValue at h
  simp only at h
  split at h; · simp at h
  split at h; · simp at h
  split at h; · simp at h
  split at h; · simp at h
  split at h; · simp at h
  split at h; · simp at h
  rename_i h1 h2 hi1 hi2 h3 h4
  simp only [Res.effective.injEq] at h
  have hiss : o.iss = some client ∨ (o.iss = none ∧ o.alg = "none") := by
    cases hc : o.iss with
    | none =>
      right; refine ⟨rfl, ?_⟩
      cases hd : decide (o.alg = "none") with
      | true => simpa using hd
      | false => exfalso; apply hi2; rw [hc]; exact ⟨rfl, by simpa using hd⟩
    | some c =>
      left
      cases hd : decide (c = client) with
      | true => have : c = client := by simpa using hd
                rw [this]
      | false => exfalso; apply hi1; rw [hc]; have hne : c ≠ client := by simpa using hd
                 simp [hne]
  refine ⟨by simpa using h1, by simpa using h2, ?_, h.symm, hiss⟩
  cases hc : o.clientId with
  | none => simp [hc] at h4
  | some c =>
    cases hdec : decide (c = client) with
    | true => have : c = client := by simpa using hdec
              rw [this]
    | false =>
      exfalso; apply h3
      have hne : c ≠ client := by simpa using hdec
      rw [hc]; simp [hne]

/-- first value of a parameter name -/
def getP (ps : Params) (k : Str) : Option Str := (ps.find? (fun kv => kv.1 == k)).map (·.2)

/-- laying the object over the outer parameters: a name the object has takes the object's value -/
theorem overlay_inner_wins (outer inner : Params) (k v : Str) (h : getP inner k = some v) : getP (overlay outer inner) k = some v := by
  unfold getP overlay at *
  rw [List.find?_append]
  cases hf : inner.find? (fun kv => kv.1 == k) with
  | none => rw [hf] at h; cases h
  | some kv => rw [hf] at h; simpa using h

/-- … and a name the object does not have keeps the outer value -/
theorem overlay_keeps_rest (outer inner : Params) (k : Str) (h : getP inner k = none) : getP (overlay outer inner) k = getP outer k := by
  unfold getP overlay at *
  have hin : inner.find? (fun kv => kv.1 == k) = none := by
    cases hf : inner.find? (fun kv => kv.1 == k) with
    | none => rfl
    | some kv => rw [hf] at h; cases h
  rw [List.find?_append, hin]
  simp only [Option.none_or]
  congr 1
  induction outer with
  | nil => rfl
  | cons x xs ih =>
    simp only [List.filter_cons]
    by_cases hx : x.1 == k
    · have hk : x.1 = k := by simpa using hx
      have hno : inner.any (fun iv => iv.1 == x.1) = false := by
        rw [hk]
        rw [List.find?_eq_none] at hin
        simp only [List.any_eq_false]
        intro y hy; exact hin y hy
      simp [hno, hx]
    · by_cases hany : inner.any (fun iv => iv.1 == x.1)
      · simp only [hany, Bool.not_true]
        simp only [List.find?_cons, hx]
        exact ih
      · simp only [hany, Bool.not_false, if_true, List.find?_cons, hx]
        exact ih

/-- **by reference** (after the fix for F-C16-g): whatever the endpoint goes on with, the fetched object was signed by the identified
    client with an algorithm permitted for that client and names no other issuer — and its parameters lie over the outer ones -/
theorem by_reference_sound (p : Policy) (client : Str) (outer : Params) (o : RO) (ps : Params)
    (h : byReference p client outer o = .effective ps) :
    o.verifies = true ∧ allowedAlg p o.alg = true ∧ (o.iss = none ∨ o.iss = some client) ∧ ps = overlay outer o.params := by
  unfold byReference at h
  split at h; · simp at h
  split at h; · simp at h
  split at h; · simp at h
  rename_i h1 h2 h3
  simp only [Res.effective.injEq] at h
  refine ⟨by simpa using h1, by simpa using h2, ?_, h.symm⟩
  cases hc : o.iss with
  | none => exact Or.inl rfl
  | some c =>
    right
    cases hd : decide (c = client) with
    | true => have : c = client := by simpa using hd
              rw [this]
    | false => exfalso; apply h3; rw [hc]; have hne : c ≠ client := by simpa using hd
               simp [hne]

/-- a fetched object issued by (hence verified under the keys of) another client is refused -/
theorem by_reference_other_issuer_refused (p : Policy) (client other : Str) (outer : Params) (o : RO)
    (hc : o.iss = some other) (hne : other ≠ client) : byReference p client outer o = .refused := by
  unfold byReference
  split; · rfl
  split; · rfl
  split; · rfl
  rename_i _ _ h3
  exfalso; apply h3; rw [hc]; simp [hne]

/-- **the full statement fails by reference** (known finding F-C16-h): the property wants a request object that names a different client
    refused; the code — and therefore the model — lets a correctly signed fetched object naming ANOTHER client take effect, and the
    request goes on as that client. `by_reference_sound` is what remains provable. -/
theorem by_reference_other_client_takes_effect :
    ∃ (p : Policy) (client other : Str) (o : RO) (ps : Params), other ≠ client ∧ o.clientId = some other ∧
      byReference p client [] o = .effective ps ∧ getP ps [99] = some other := by
  refine ⟨{ registeredAlg := some "RS256", providerAlgs := [] }, [97], [98],
    { verifies := true, alg := "RS256", clientId := some [98], iss := some [97], params := [([99], [98])] }, [([99], [98])], by decide, rfl, by simp [byReference, allowedAlg, overlay], by decide⟩

/-- an unsigned object is refused when the client registered a signing algorithm -/
theorem unsigned_refused_when_alg_registered (p : Policy) (client : Str) (outer : Params) (o : RO) (a : String)
    (hreg : p.registeredAlg = some a) (ha : a ≠ "none") (hnone : o.alg = "none") :
    byValue p client outer (some o) = .refused := by
  unfold byValue
  simp only
  split; · rfl
  have : allowedAlg p o.alg = false := by
    simp [allowedAlg, hreg, hnone]; exact fun e => ha e.symm
  simp [this]

/-- an object naming a different client is refused -/
theorem other_client_refused (p : Policy) (client other : Str) (outer : Params) (o : RO)
    (hc : o.clientId = some other) (hne : other ≠ client) : byValue p client outer (some o) = .refused := by
  unfold byValue
  simp only
  split; · rfl
  split; · rfl
  split; · rfl
  split; · rfl
  simp [hc, hne]

/-- an object issued by (hence verified with the keys of) another client is refused -/
theorem other_issuer_refused (p : Policy) (client other : Str) (outer : Params) (o : RO)
    (hc : o.iss = some other) (hne : other ≠ client) : byValue p client outer (some o) = .refused := by
  unfold byValue
  simp only
  split; · rfl
  split; · rfl
  simp [hc, hne]

/-- wrong key (does not verify) or non-permitted algorithm: refused -/
theorem bad_signature_or_alg_refused (p : Policy) (client : Str) (outer : Params) (o : RO)
    (h : o.verifies = false ∨ allowedAlg p o.alg = false) : byValue p client outer (some o) = .refused := by
  unfold byValue
  rcases h with h | h
  · simp [h]
  · simp only; split; · rfl
    simp [h]

/-! ### PAR: one-shot redemption, only through the issued URN, only by the pushing client, only within the announced lifetime -/

def redeems (u : Nat) : ParOp × ParOut → Bool
  | (.redeem _ u', .proceeds _ _) => u' = u
  | _ => false

/-- URNs in the store are below the fresh counter and distinct -/
def ParInv (s : ParSt) : Prop := (∀ e ∈ s.db, e.urn < s.next) ∧ (s.db.map (·.urn)).Nodup

theorem parInv_step (s : ParSt) (op : ParOp) (h : ParInv s) : ParInv (parStep s op).1 := by
  cases op with
  | push c ps ttl =>
    simp only [parStep]
    constructor
    · intro e he
      simp only [List.mem_append, List.mem_singleton] at he
      rcases he with he | rfl
      · have := h.1 e he; simp only; omega
      · simp
    · simp only [List.map_append, List.map_cons, List.map_nil]
      rw [List.nodup_append]
      refine ⟨h.2, by simp, ?_⟩
      intro a ha b hb
      simp at hb; subst hb
      obtain ⟨e, he, rfl⟩ := List.mem_map.mp ha
      have := h.1 e he; omega
  | redeem c u =>
    simp only [parStep]
    have hf : ParInv { s with db := s.db.filter (fun x => decide (x.urn ≠ u)) } :=
      ⟨fun e he => h.1 e (List.mem_filter.mp he).1, List.Nodup.sublist (List.Sublist.map _ List.filter_sublist) h.2⟩
    split
    · split
      · exact hf
      · split
        · exact hf
        · exact hf
    · exact h
  | tick n => exact h

/-- after a URN has been redeemed (or was never issued and is below the counter) it is gone for good -/
def Gone (s : ParSt) (u : Nat) : Prop := u < s.next ∧ ∀ e ∈ s.db, e.urn ≠ u

theorem gone_step (s : ParSt) (op : ParOp) (u : Nat) (h : Gone s u) : Gone (parStep s op).1 u := by
  cases op with
  | push c ps ttl =>
    simp only [parStep]
    refine ⟨by have := h.1; simp only; omega, ?_⟩
    intro e he
    simp only [List.mem_append, List.mem_singleton] at he
    rcases he with he | rfl
    · exact h.2 e he
    · simp only; have := h.1; omega
  | redeem c u' =>
    simp only [parStep]
    have hf : Gone { s with db := s.db.filter (fun x => decide (x.urn ≠ u')) } u :=
      ⟨h.1, fun e he => h.2 e (List.mem_filter.mp he).1⟩
    split
    · split
      · exact hf
      · split
        · exact hf
        · exact hf
    · exact h
  | tick n => exact h

/-- what a successful redemption establishes — **only the issued URN, only the pushing client, only
    within the announced lifetime**, and the stored request is what goes on -/
theorem redeem_proceeds (s : ParSt) (c : Str) (u : Nat) (a : Str) (ps : Params)
    (h : (parStep s (.redeem c u)).2 = .proceeds a ps) :
    ∃ e ∈ s.db, e.urn = u ∧ e.client = c ∧ a = c ∧ ps = e.params ∧ s.now ≤ e.expiresAt ∧
      (parStep s (.redeem c u)).1.db = s.db.filter (fun x => decide (x.urn ≠ u)) := by
  simp only [parStep] at h ⊢
  split at h
  · rename_i e hfind
    have hm := List.mem_of_find?_eq_some hfind
    have hu : e.urn = u := by simpa using List.find?_some hfind
    split at h
    · cases h
    · rename_i hexp
      split at h
      · cases h
      · rename_i hcl
        simp only [ParOut.proceeds.injEq] at h
        have hc : e.client = c := by
          cases hd : decide (e.client = c) with
          | true => simpa using hd
          | false => exact absurd (by simpa using hd) hcl
        refine ⟨e, hm, hu, hc, by rw [← h.1, hc], h.2.symm, Nat.le_of_not_lt hexp, ?_⟩
        simp [hexp, hcl]
  · cases h

theorem gone_not_redeemed (s : ParSt) (op : ParOp) (u : Nat) (h : Gone s u) : redeems u (op, (parStep s op).2) = false := by
  cases op with
  | redeem c u' =>
    cases ho : (parStep s (.redeem c u')).2 with
    | proceeds a ps =>
      obtain ⟨e, hm, hu, _⟩ := redeem_proceeds s c u' a ps ho
      have : u' ≠ u := by
        intro e'; subst e'
        exact h.2 e hm hu
      simp [redeems, this]
    | urn _ => simp [redeems]
    | refused => simp [redeems]
    | ok => simp [redeems]
  | push c ps ttl => simp [parStep, redeems]
  | tick n => simp [parStep, redeems]

theorem redeem_makes_gone (s : ParSt) (c : Str) (u : Nat) (hi : ParInv s)
    (h : redeems u (.redeem c u, (parStep s (.redeem c u)).2) = true) : Gone (parStep s (.redeem c u)).1 u := by
  cases ho : (parStep s (.redeem c u)).2 with
  | proceeds a ps =>
    obtain ⟨e, hm, hu, _, _, _, _, hdb⟩ := redeem_proceeds s c u a ps ho
    refine ⟨?_, ?_⟩
    · have : (parStep s (.redeem c u)).1.next = s.next := by
        simp only [parStep]; split
        · split
          · rfl
          · split <;> rfl
        · rfl
      rw [this, ← hu]; exact hi.1 e hm
    · rw [hdb]
      intro x hx
      simpa using (List.mem_filter.mp hx).2
  | urn _ => rw [ho] at h; simp [redeems] at h
  | refused => rw [ho] at h; simp [redeems] at h
  | ok => rw [ho] at h; simp [redeems] at h

/-- **one-shot**: in every history of pushes, redemptions (by any client, of any URN, replayed any
    number of times) and clock advances, each URN is honoured at most once -/
theorem par_one_shot_from (ops : List ParOp) (s : ParSt) (u : Nat) (hi : ParInv s) :
    (((ops.zip (parRun s ops).2).filter (redeems u)).length ≤ 1) ∧
    (Gone s u → ((ops.zip (parRun s ops).2).filter (redeems u)).length = 0) := by
  induction ops generalizing s with
  | nil => simp [parRun]
  | cons op ops ih =>
    obtain ⟨ih1, ih2⟩ := ih (parStep s op).1 (parInv_step s op hi)
    simp only [parRun, List.zip_cons_cons, List.filter_cons]
    by_cases hr : redeems u (op, (parStep s op).2) = true
    · have hg : Gone (parStep s op).1 u := by
        cases op with
        | redeem c u' =>
          have : u' = u := by
            cases ho : (parStep s (.redeem c u')).2 with
            | proceeds a ps => rw [ho] at hr; simpa [redeems] using hr
            | urn _ => rw [ho] at hr; simp [redeems] at hr
            | refused => rw [ho] at hr; simp [redeems] at hr
            | ok => rw [ho] at hr; simp [redeems] at hr
          subst this
          exact redeem_makes_gone s c u' hi hr
        | push c ps ttl => simp [parStep, redeems] at hr
        | tick n => simp [parStep, redeems] at hr
      simp only [hr, if_true, List.length_cons]
      refine ⟨by rw [ih2 hg]; omega, ?_⟩
      intro hgone
      have := gone_not_redeemed s op u hgone
      rw [this] at hr; simp at hr
    · simp only [hr, Bool.false_eq_true, if_false]
      exact ⟨ih1, fun hg => ih2 (gone_step s op u hg)⟩

theorem par_one_shot (ops : List ParOp) (u : Nat) :
    ((ops.zip (parRun {} ops).2).filter (redeems u)).length ≤ 1 :=
  (par_one_shot_from ops {} u ⟨by simp, by simp⟩).1

/-- only the issued URN: a URN that was never issued is refused -/
theorem unknown_urn_refused (s : ParSt) (c : Str) (u : Nat) (h : ∀ e ∈ s.db, e.urn ≠ u) :
    (parStep s (.redeem c u)).2 = .refused := by
  cases ho : (parStep s (.redeem c u)).2 with
  | proceeds a ps =>
    obtain ⟨e, hm, hu, _⟩ := redeem_proceeds s c u a ps ho
    exact absurd hu (h e hm)
  | refused => rfl
  | urn _ => simp only [parStep] at ho; split at ho <;> (try split at ho) <;> (try split at ho) <;> cases ho
  | ok => simp only [parStep] at ho; split at ho <;> (try split at ho) <;> (try split at ho) <;> cases ho

/-- the announced lifetime and the pushing client are enforced (F-C16-c/d, fixed): worked histories —
    pushed with ttl 60, redeemed 61 s later: refused; pushed by client 49, redeemed by 50: refused, and
    the request cannot be used by its owner afterwards either (the entry is consumed); in time and by
    its owner: proceeds, once -/
theorem par_lifetime_and_client :
    (parRun {} [.push [49] [] 60, .tick 61, .redeem [49] 0]).2 = [.urn 0, .ok, .refused] ∧
    (parRun {} [.push [49] [] 60, .redeem [50] 0, .redeem [49] 0]).2 = [.urn 0, .refused, .refused] ∧
    (parRun {} [.push [49] [] 60, .tick 60, .redeem [49] 0, .redeem [49] 0]).2 = [.urn 0, .ok, .proceeds [49] [], .refused] := by
  decide

end Idpy.Props.C16
