/-
C16 — request objects and pushed requests are authenticated before they take effect.
-/
import IdpyVerif.Model.Jar
namespace Idpy.Props.C16
open Idpy Idpy.Jar

/-- by value (after the fix for F-C16-a/b): if the endpoint goes on with anything else than the
    plain outer parameters, the object verified under the identified client's keys, used an
    algorithm permitted for that client, and names no other client — and then ALL effective
    parameters are the object's (inner overrides outer) -/
theorem by_value_sound (p : Policy) (client : Str) (outer : Params) (o : RO) (ps : Params)
    (h : byValue p client outer (some o) = .effective ps) :
    o.verifies = true ∧ allowedAlg p o.alg = true ∧ o.clientId = some client ∧ ps = o.params ∧
    (o.iss = some client ∨ (o.iss = none ∧ o.alg = "none")) := by
  unfold byValue at h
  simp only at h
  split at h; · simp at h
  split at h; · simp at h
  split at h; · simp at h
  split at h; · simp at h
  split at h; · simp at h
  split at h; · simp at h
  rename_i h1 h2 hi1 hi2 h3 h4
  simp only [Res.effective.injEq] at h
  have hiss : o.iss = some client ∨ (o.iss = none ∧ o.alg = "none") := by
    cases hc : o.iss with
    | none =>
      right; refine ⟨rfl, ?_⟩
      cases hd : decide (o.alg = "none") with
      | true => simpa using hd
      | false => exfalso; apply hi2; rw [hc]; exact ⟨rfl, by simpa using hd⟩
    | some c =>
      left
      cases hd : decide (c = client) with
      | true => have : c = client := by simpa using hd
                rw [this]
      | false => exfalso; apply hi1; rw [hc]; have hne : c ≠ client := by simpa using hd
                 simp [hne]
  refine ⟨by simpa using h1, by simpa using h2, ?_, h.symm, hiss⟩
  cases hc : o.clientId with
  | none => simp [hc] at h4
  | some c =>
    cases hdec : decide (c = client) with
    | true => have : c = client := by simpa using hdec
              rw [this]
    | false =>
      exfalso; apply h3
      have hne : c ≠ client := by simpa using hdec
      rw [hc]; simp [hne]

/-- an unsigned object is refused when the client registered a signing algorithm -/
theorem unsigned_refused_when_alg_registered (p : Policy) (client : Str) (outer : Params) (o : RO) (a : String)
    (hreg : p.registeredAlg = some a) (ha : a ≠ "none") (hnone : o.alg = "none") :
    byValue p client outer (some o) = .refused := by
  unfold byValue
  simp only
  split; · rfl
  have : allowedAlg p o.alg = false := by
    simp [allowedAlg, hreg, hnone]; exact fun e => ha e.symm
  simp [this]

/-- an object naming a different client is refused -/
theorem other_client_refused (p : Policy) (client other : Str) (outer : Params) (o : RO)
    (hc : o.clientId = some other) (hne : other ≠ client) : byValue p client outer (some o) = .refused := by
  unfold byValue
  simp only
  split; · rfl
  split; · rfl
  split; · rfl
  split; · rfl
  simp [hc, hne]

/-- an object issued by (hence verified with the keys of) another client is refused -/
theorem other_issuer_refused (p : Policy) (client other : Str) (outer : Params) (o : RO)
    (hc : o.iss = some other) (hne : other ≠ client) : byValue p client outer (some o) = .refused := by
  unfold byValue
  simp only
  split; · rfl
  split; · rfl
  simp [hc, hne]

/-- wrong key (does not verify) or non-permitted algorithm: refused -/
theorem bad_signature_or_alg_refused (p : Policy) (client : Str) (outer : Params) (o : RO)
    (h : o.verifies = false ∨ allowedAlg p o.alg = false) : byValue p client outer (some o) = .refused := by
  unfold byValue
  rcases h with h | h
  · simp [h]
  · simp only; split; · rfl
    simp [h]

/-! ### PAR: one-shot redemption, only through the issued URN, only by the pushing client, only within the announced lifetime -/

def redeems (u : Nat) : ParOp × ParOut → Bool
  | (.redeem _ u', .proceeds _ _) => u' = u
  | _ => false

/-- URNs in the store are below the fresh counter and distinct -/
def ParInv (s : ParSt) : Prop := (∀ e ∈ s.db, e.urn < s.next) ∧ (s.db.map (·.urn)).Nodup

theorem parInv_step (s : ParSt) (op : ParOp) (h : ParInv s) : ParInv (parStep s op).1 := by
  cases op with
  | push c ps ttl =>
    simp only [parStep]
    constructor
    · intro e he
      simp only [List.mem_append, List.mem_singleton] at he
      rcases he with he | rfl
      · have := h.1 e he; simp only; omega
      · simp
    · simp only [List.map_append, List.map_cons, List.map_nil]
      rw [List.nodup_append]
      refine ⟨h.2, by simp, ?_⟩
      intro a ha b hb
      simp at hb; subst hb
      obtain ⟨e, he, rfl⟩ := List.mem_map.mp ha
      have := h.1 e he; omega
  | redeem c u =>
    simp only [parStep]
    have hf : ParInv { s with db := s.db.filter (fun x => decide (x.urn ≠ u)) } :=
      ⟨fun e he => h.1 e (List.mem_filter.mp he).1, List.Nodup.sublist (List.Sublist.map _ List.filter_sublist) h.2⟩
    split
    · split
      · exact hf
      · split
        · exact hf
        · exact hf
    · exact h
  | tick n => exact h

/-- after a URN has been redeemed (or was never issued and is below the counter) it is gone for good -/
def Gone (s : ParSt) (u : Nat) : Prop := u < s.next ∧ ∀ e ∈ s.db, e.urn ≠ u

theorem gone_step (s : ParSt) (op : ParOp) (u : Nat) (h : Gone s u) : Gone (parStep s op).1 u := by
  cases op with
  | push c ps ttl =>
    simp only [parStep]
    refine ⟨by have := h.1; simp only; omega, ?_⟩
    intro e he
    simp only [List.mem_append, List.mem_singleton] at he
    rcases he with he | rfl
    · exact h.2 e he
    · simp only; have := h.1; omega
  | redeem c u' =>
    simp only [parStep]
    have hf : Gone { s with db := s.db.filter (fun x => decide (x.urn ≠ u')) } u :=
      ⟨h.1, fun e he => h.2 e (List.mem_filter.mp he).1⟩
    split
    · split
      · exact hf
      · split
        · exact hf
        · exact hf
    · exact h
  | tick n => exact h

/-- what a successful redemption establishes — **only the issued URN, only the pushing client, only
    within the announced lifetime**, and the stored request is what goes on -/
theorem redeem_proceeds (s : ParSt) (c : Str) (u : Nat) (a : Str) (ps : Params)
    (h : (parStep s (.redeem c u)).2 = .proceeds a ps) :
    ∃ e ∈ s.db, e.urn = u ∧ e.client = c ∧ a = c ∧ ps = e.params ∧ s.now ≤ e.expiresAt ∧
      (parStep s (.redeem c u)).1.db = s.db.filter (fun x => decide (x.urn ≠ u)) := by
  simp only [parStep] at h ⊢
  split at h
  · rename_i e hfind
    have hm := List.mem_of_find?_eq_some hfind
    have hu : e.urn = u := by simpa using List.find?_some hfind
    split at h
    · cases h
    · rename_i hexp
      split at h
      · cases h
      · rename_i hcl
        simp only [ParOut.proceeds.injEq] at h
        have hc : e.client = c := by
          cases hd : decide (e.client = c) with
          | true => simpa using hd
          | false => exact absurd (by simpa using hd) hcl
        refine ⟨e, hm, hu, hc, by rw [← h.1, hc], h.2.symm, Nat.le_of_not_lt hexp, ?_⟩
        simp [hexp, hcl]
  · cases h

theorem gone_not_redeemed (s : ParSt) (op : ParOp) (u : Nat) (h : Gone s u) : redeems u (op, (parStep s op).2) = false := by
  cases op with
  | redeem c u' =>
    cases ho : (parStep s (.redeem c u')).2 with
    | proceeds a ps =>
      obtain ⟨e, hm, hu, _⟩ := redeem_proceeds s c u' a ps ho
      have : u' ≠ u := by
        intro e'; subst e'
        exact h.2 e hm hu
      simp [redeems, this]
    | urn _ => simp [redeems]
    | refused => simp [redeems]
    | ok => simp [redeems]
  | push c ps ttl => simp [parStep, redeems]
  | tick n => simp [parStep, redeems]

theorem redeem_makes_gone (s : ParSt) (c : Str) (u : Nat) (hi : ParInv s)
    (h : redeems u (.redeem c u, (parStep s (.redeem c u)).2) = true) : Gone (parStep s (.redeem c u)).1 u := by
  cases ho : (parStep s (.redeem c u)).2 with
  | proceeds a ps =>
    obtain ⟨e, hm, hu, _, _, _, _, hdb⟩ := redeem_proceeds s c u a ps ho
    refine ⟨?_, ?_⟩
    · have : (parStep s (.redeem c u)).1.next = s.next := by
        simp only [parStep]; split
        · split
          · rfl
          · split <;> rfl
        · rfl
      rw [this, ← hu]; exact hi.1 e hm
    · rw [hdb]
      intro x hx
      simpa using (List.mem_filter.mp hx).2
  | urn _ => rw [ho] at h; simp [redeems] at h
  | refused => rw [ho] at h; simp [redeems] at h
  | ok => rw [ho] at h; simp [redeems] at h

/-- **one-shot**: in every history of pushes, redemptions (by any client, of any URN, replayed any
    number of times) and clock advances, each URN is honoured at most once -/
theorem par_one_shot_from (ops : List ParOp) (s : ParSt) (u : Nat) (hi : ParInv s) :
    (((ops.zip (parRun s ops).2).filter (redeems u)).length ≤ 1) ∧
    (Gone s u → ((ops.zip (parRun s ops).2).filter (redeems u)).length = 0) := by
  induction ops generalizing s with
  | nil => simp [parRun]
  | cons op ops ih =>
    obtain ⟨ih1, ih2⟩ := ih (parStep s op).1 (parInv_step s op hi)
    simp only [parRun, List.zip_cons_cons, List.filter_cons]
    by_cases hr : redeems u (op, (parStep s op).2) = true
    · have hg : Gone (parStep s op).1 u := by
        cases op with
        | redeem c u' =>
          have : u' = u := by
            cases ho : (parStep s (.redeem c u')).2 with
            | proceeds a ps => rw [ho] at hr; simpa [redeems] using hr
            | urn _ => rw [ho] at hr; simp [redeems] at hr
            | refused => rw [ho] at hr; simp [redeems] at hr
            | ok => rw [ho] at hr; simp [redeems] at hr
          subst this
          exact redeem_makes_gone s c u' hi hr
        | push c ps ttl => simp [parStep, redeems] at hr
        | tick n => simp [parStep, redeems] at hr
      simp only [hr, if_true, List.length_cons]
      refine ⟨by rw [ih2 hg]; omega, ?_⟩
      intro hgone
      have := gone_not_redeemed s op u hgone
      rw [this] at hr; simp at hr
    · simp only [hr, Bool.false_eq_true, if_false]
      exact ⟨ih1, fun hg => ih2 (gone_step s op u hg)⟩

theorem par_one_shot (ops : List ParOp) (u : Nat) :
    ((ops.zip (parRun {} ops).2).filter (redeems u)).length ≤ 1 :=
  (par_one_shot_from ops {} u ⟨by simp, by simp⟩).1

/-- only the issued URN: a URN that was never issued is refused -/
theorem unknown_urn_refused (s : ParSt) (c : Str) (u : Nat) (h : ∀ e ∈ s.db, e.urn ≠ u) :
    (parStep s (.redeem c u)).2 = .refused := by
  cases ho : (parStep s (.redeem c u)).2 with
  | proceeds a ps =>
    obtain ⟨e, hm, hu, _⟩ := redeem_proceeds s c u a ps ho
    exact absurd hu (h e hm)
  | refused => rfl
  | urn _ => simp only [parStep] at ho; split at ho <;> (try split at ho) <;> (try split at ho) <;> cases ho
  | ok => simp only [parStep] at ho; split at ho <;> (try split at ho) <;> (try split at ho) <;> cases ho

/-- the announced lifetime and the pushing client are enforced (F-C16-c/d, fixed): worked histories —
    pushed with ttl 60, redeemed 61 s later: refused; pushed by client 49, redeemed by 50: refused, and
    the request cannot be used by its owner afterwards either (the entry is consumed); in time and by
    its owner: proceeds, once -/
theorem par_lifetime_and_client :
    (parRun {} [.push [49] [] 60, .tick 61, .redeem [49] 0]).2 = [.urn 0, .ok, .refused] ∧
    (parRun {} [.push [49] [] 60, .redeem [50] 0, .redeem [49] 0]).2 = [.urn 0, .refused, .refused] ∧
    (parRun {} [.push [49] [] 60, .tick 60, .redeem [49] 0, .redeem [49] 0]).2 = [.urn 0, .ok, .proceeds [49] [], .refused] := by
  decide

end Idpy.Props.C16
