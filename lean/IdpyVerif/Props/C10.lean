/-
C10 — protocol messages survive every wire format unchanged.
The laws are generic in the schema (`kindOf`); the schemas of all Message subclasses are
regenerated from the source into Gen/Schemas.lean on every run and the table obligations
below are re-decided against them.
-/
import IdpyVerif.Proofs.Msg
import IdpyVerif.Gen.Schemas
namespace Idpy.Props.C10
open Idpy Idpy.Msg Idpy.UrlEnc

/-- dict / JSON round trip, for every schema and every valid message of any size -/
theorem roundtrip_dict (kindOf : Bytes → Kind) (m : Msg) (h : MsgValid kindOf m) :
    fromDict kindOf (toDict kindOf m) = some m := dict_roundtrip kindOf m h

/-- form-encoding round trip: equal up to the textual rendering of integers and booleans -/
theorem roundtrip_url (kindOf : Bytes → Kind) (m : Msg) (h : MsgValid kindOf m) (hu : MsgUrlValid kindOf m) :
    ∃ qs, toUrl kindOf m = some qs ∧
      fromUrl kindOf qs = some (m.map (fun (k, v) => (k, textual (kindOf k) v))) := url_roundtrip kindOf m h hu

/-- characters with special meaning on the wire survive: percent-decoding inverts
    percent-encoding on every byte string (space, +, &, =, %, #, quotes, UTF-8 of non-ASCII) -/
theorem special_chars_survive (bs : Bytes) (h : AllBytes bs) : unquotePlus (quotePlus bs) = bs :=
  unquotePlus_quotePlus bs h

/-- … and no encoded value can introduce a parameter separator -/
theorem encoded_value_has_no_separator (bs : Bytes) (h : AllBytes bs) : amp ∉ quotePlus bs ∧ eqc ∉ quotePlus bs :=
  ⟨amp_not_in_quote bs h, eqc_not_in_quote bs h⟩

/-- the whole query string parses back to exactly the pairs that were encoded -/
theorem query_parses_back (ps : List (Bytes × Bytes)) (h : PairsOk ps) (hnb : ∀ p ∈ ps, p.2 ≠ []) :
    parseQsl false (urlencode ps) = ps := by
  rw [parseQsl_urlencode false ps h]
  exact List.filter_eq_self.mpr (fun p hp => by simp [keepPair, hnb p hp])

/-- the guard `UrlValid` is forced: a `list_serializer` element containing a space is split by
    the form encoding (F-C10-a) -/
theorem list_space_counterexample :
    deserUrl .listStr ((serUrl .listStr (.strs [[97], [98, 32, 99]])).getD []) = .strs [[97], [98], [99]] := by
  decide +kernel

/-- the guard "non-empty" is forced: an empty string is not stored at all -/
theorem empty_string_dropped (k : Kind) : deserDict k (.str []) = none := by
  simp [deserDict, blank]

/-! ### obligations over the regenerated schema tables -/

/-- (type, serializer, deserializer) triples that are deliberately left opaque (nested messages,
    JSON objects, identity-assurance specials): a NEW triple in the source is not in this list and
    re-opens this obligation -/
def knownOpaque : List String :=
  ["dict/json_serializer/json_deserializer", "dict/msg_ser_json/dict_deser", "str/time_stamp_ser/time_stamp_deser",
   "[Message]/msg_list_ser/msg_list_deser", "Message/msg_ser/msg_deser", "Message/msg_ser/None", "str/date_ser/date_deser",
   "Message/claims_ser/claims_deser", "[CheckDetails]/msg_list_ser/check_details_list_deser", "Message/msg_ser/address_deser",
   "[Evidence]/msg_list_ser/evidence_list_deser", "Message/msg_ser_json/claims_request_deser", "Issuer/msg_ser/issuer_deser",
   "[Verifier]/msg_ser/verifier_list_deser", "[Link]/link_list_ser/link_deser", "[Any]/ser_any_list/deser_any_list",
   "Voucher/msg_ser/voucher_deser", "VerificationElement/msg_ser/verification_element_deser", "Record/msg_list_ser/record_deser",
   "Provider/msg_ser/provider_deser", "PlaceOfBirth/msg_ser_json/place_of_birth_deser", "EvidenceRef/msg_ser/evidence_ref_deser",
   "EvidenceMetadata/msg_ser/evidence_metadata_deser", "DocumentDetails/msg_ser/document_details_deser", "Digest/msg_ser/digest_deser",
   "Attestation/msg_ser/attestation_deser", "AssuranceProcess/msg_ser/assurance_process_deser",
   "AssuranceDetails/msg_ser/assurance_details_deser", "Any/any_ser/any_deser"]

def allParams : List Gen.ParamInfo := Gen.classes.flatMap (·.params)

/-- every declared parameter of every Message subclass is of a modelled kind or of a known
    opaque triple -/
theorem every_parameter_classified :
    allParams.all (fun p => p.kind != .other || knownOpaque.contains p.triple) = true := by
  decide +kernel

/-- the five modelled kinds cover at least 85 % of all declared parameters -/
theorem modelled_share :
    85 * allParams.length ≤ 100 * (allParams.filter (fun p => p.kind != .other)).length := by
  decide +kernel

/-- schema lookup of a key as the code does it: exact name, else name before `#` -/
def kindIn (c : Gen.ClassInfo) (key : String) : Kind :=
  match c.params.find? (fun p => p.name = key) with
  | some p => p.kind
  | none =>
    match c.params.find? (fun p => p.name = (key.splitOn "#").headD "") with
    | some p => p.kind
    | none => .str       -- extra parameter: stored and rendered as it is

/-- instantiation: the laws hold for the schema of every class found in the source today -/
theorem roundtrip_every_class (c : Gen.ClassInfo) (_hc : c ∈ Gen.classes) (key2name : Bytes → String)
    (m : Msg) (h : MsgValid (fun k => kindIn c (key2name k)) m) :
    fromDict (fun k => kindIn c (key2name k)) (toDict (fun k => kindIn c (key2name k)) m) = some m :=
  dict_roundtrip _ m h

/-- non-vacuity: a valid two-parameter message -/
example : MsgValid (fun k => if k = [115] then Kind.spSep else Kind.int) [([115], .strs [[97], [98]]), ([116], .int 5)] := by
  intro p hp
  simp at hp
  rcases hp with rfl | rfl
  · simp [Valid, sp_eq, AllBytes]
  · simp [Valid]

end Idpy.Props.C10
