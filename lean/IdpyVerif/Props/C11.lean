/-
C11 — message verification enforces the declared schema.
-/
import IdpyVerif.Model.MsgVerify
import IdpyVerif.Gen.Schemas
import IdpyVerif.Model.MsgRules
namespace Idpy.Props.C11
open Idpy Idpy.Msg Idpy.MsgVerify

/-- verify ok ⇒ every required parameter is present and non-empty (booleans exempt, as in the code) -/
theorem verify_ok_required (spec : List PSpec) (m : Msg) (h : verifyGeneric spec m = true) :
    ∀ p ∈ spec, p.required = true → ∃ v, lookup m p.name = some v ∧ (p.kind = .bool ∨ truthy v = true) := by
  intro p hp hreq
  have hc : checkParam m p = true := by
    simp only [verifyGeneric, List.all_eq_true] at h; exact h p hp
  unfold checkParam at hc
  cases hl : lookup m p.name with
  | none => simp [hl, hreq] at hc
  | some v =>
    refine ⟨v, rfl, ?_⟩
    rw [hl] at hc
    simp only at hc
    by_cases hk : p.kind = .bool
    · exact Or.inl hk
    · right
      cases ht : truthy v with
      | true => rfl
      | false => simp [hk, ht, hreq] at hc

/-- verify ok ⇒ every non-empty value restricted to an enumerated set lies in that set
    (for the types `_type_check` constrains: str, int, lists of str) -/
theorem verify_ok_allowed (spec : List PSpec) (m : Msg) (h : verifyGeneric spec m = true) :
    ∀ p ∈ spec, ∀ al v, p.allowed = some al → lookup m p.name = some v → (p.kind = .bool ∨ truthy v = true) →
      typeCheck p.kind al v = true := by
  intro p hp al v hal hl ht
  have hc : checkParam m p = true := by
    simp only [verifyGeneric, List.all_eq_true] at h; exact h p hp
  unfold checkParam at hc
  rw [hl] at hc
  simp only at hc
  rcases ht with hk | ht
  · simp [hk, hal] at hc; rw [hk]; rfl
  · simp [ht, hal] at hc; exact hc

theorem typeCheck_str (al : List Val) (s : Bytes) (h : typeCheck .str al (.str s) = true) : Val.str s ∈ al := by
  simpa [typeCheck] using h

theorem typeCheck_list (al : List Val) (l : List Bytes) (h : typeCheck .listStr al (.strs l) = true) :
    ∀ x ∈ l, Val.str x ∈ al := by
  intro x hx
  simp only [typeCheck, List.all_eq_true] at h
  simpa using h x hx

/-- a subclass whose overrides all chain reaches the generic check: its `verify` succeeds only
    if the generic schema check succeeds -/
theorem chain_reaches_generic (spec : List PSpec) (chain : List Override) (m : Msg)
    (hall : chain.all (·.chains) = true) (h : verifyClass spec chain m = true) : verifyGeneric spec m = true := by
  induction chain with
  | nil => simpa [verifyClass] using h
  | cons o rest ih =>
    simp only [List.all_cons, Bool.and_eq_true] at hall
    simp only [verifyClass, Bool.and_eq_true] at h
    rw [if_pos hall.1] at h
    exact ih hall.2 h.2

/-- … and a non-chaining override really loses it (what F-C11 is about): with a rule that accepts,
    an empty message verifies although a parameter is required -/
theorem non_chaining_counterexample :
    verifyClass [{ name := [99], kind := .str, required := true, allowed := none }]
      [{ rule := fun _ => true, chains := false }] [] = true ∧
    verifyGeneric [{ name := [99], kind := .str, required := true, allowed := none }] [] = false := by
  decide

/-! ### obligations over the regenerated verify-chain table -/

def chainsToGeneric (c : Gen.ClassInfo) : Bool := c.verifyChain.all (·.2)

/-- classes whose `verify` does not reach the generic check today (known findings F-C11-c/d);
    any other class that stops chaining re-opens this obligation -/
def knownNonChaining : List String :=
  ["idpyoidc.message.oauth2.JWTSecuredAuthorizationRequest",
   "idpyoidc.message.oidc.identity_assurance.VerificationElement"]

theorem all_classes_chain :
    ((Gen.classes.filter (fun c => !chainsToGeneric c)).map (·.name)) = knownNonChaining := by
  decide +kernel

/-- every verify chain ends in the generic `Message.verify` -/
theorem all_chains_end_in_generic :
    Gen.classes.all (fun c => (c.verifyChain.getLast?.map (·.1)) == some "idpyoidc.message.Message") = true := by
  decide +kernel

/-! ### typed slots: lossless coercion or rejection -/

/-- what `_add_value` may store for a dict-level value `w` in a slot of kind `k`: the value
    itself, or one of three lossless coercions; everything else is rejected or dropped -/
theorem typed_slot_lossless (k : Kind) (w v : Val) (h : deserDict k w = some (some v)) :
    v = w ∨
    (k = .int ∧ ∃ s, w = .str s ∧ s.all LV.isDig = true ∧ v = .int (s.foldl (fun a c => a * 10 + LV.dval c) 0)) ∨
    (k = .listStr ∧ ∃ s, w = .str s ∧ v = .strs [s]) ∨
    (k = .spSep ∧ ∃ s, w = .str s ∧ v = .strs (splitSp s)) := by
  unfold deserDict at h
  split at h
  · simp at h
  · clear ‹¬ blank w = true›
    cases k <;> cases w
    all_goals first
      | (simp [addValue] at h; done)
      | (simp [addValue] at h; exact Or.inl h.symm)
      | (simp [addValue] at h; exact Or.inr (Or.inr (Or.inl ⟨rfl, _, rfl, h.symm⟩)))
      | (simp [addValue] at h; exact Or.inr (Or.inr (Or.inr ⟨rfl, _, rfl, h.symm⟩)))
      | skip
    · -- int slot, string value
      rename_i s
      simp only [addValue] at h
      split at h
      · rename_i hc
        simp at h
        exact Or.inr (Or.inl ⟨rfl, s, rfl, hc.1, h.symm⟩)
      · simp at h
    · rename_i l
      cases l with
      | nil => simp [addValue] at h
      | cons a as => simp [addValue] at h; exact Or.inl h.symm
    · rename_i l
      cases l with
      | nil => simp [addValue] at h
      | cons a as => simp [addValue] at h; exact Or.inl h.symm

/-- a string slot never stores a number, a number slot never stores a boolean or a list,
    a boolean slot stores booleans only -/
theorem wrong_type_rejected :
    (∀ n, deserDict .str (.int n) = some none) ∧ (∀ b, deserDict .str (.bool b) = some none) ∧
    (∀ b, deserDict .int (.bool b) = some none) ∧ (∀ n, deserDict .bool (.int n) = some none) ∧
    (∀ n, deserDict .listStr (.int n) = some none) := by
  refine ⟨fun _ => rfl, fun _ => rfl, fun _ => rfl, fun _ => rfl, fun _ => rfl⟩

/-! ### the cross-parameter rules: what acceptance means, for every input of the rule -/
section rules
open Idpy.MsgRules Idpy.Wire

theorem containsSub_sound (n : Str) (h : Str) (hc : containsSub n h = true) : ∃ a b, h = a ++ n ++ b := by
  induction h with
  | nil =>
    have : n = [] := by simpa [containsSub] using hc
    exact ⟨[], [], by simp [this]⟩
  | cons c cs ih =>
    simp only [containsSub, Bool.or_eq_true] at hc
    rcases hc with hp | hr
    · -- a prefix
      have key : ∀ (x y : Str), isPrefix x y = true → ∃ b, y = x ++ b := by
        intro x
        induction x with
        | nil => intro y _; exact ⟨y, rfl⟩
        | cons a as iha =>
          intro y hy
          cases y with
          | nil => simp [isPrefix] at hy
          | cons b bs =>
            simp only [isPrefix, Bool.and_eq_true, beq_iff_eq] at hy
            obtain ⟨b', hb'⟩ := iha bs hy.2
            exact ⟨b', by rw [hy.1, hb']; rfl⟩
      obtain ⟨b, hb⟩ := key n (c :: cs) hp
      exact ⟨[], b, by simpa using hb⟩
    · obtain ⟨a, b, hab⟩ := ih hr
      exact ⟨c :: a, b, by rw [hab]; simp⟩

/-- provider metadata: accepted ⇒ whenever ANY supported response type involves the code there is a token endpoint -/
theorem provider_configuration_accept (scopes : Option (List Str)) (https allow : Bool) (authAlgs : Option (List Str))
    (idAlgs : List Str) (plain : Bool) (rts : List Str) (tep : Bool)
    (h : providerConfiguration scopes https allow authAlgs idAlgs plain rts tep = true) :
    (∀ s, scopes = some s → lit "openid" ∈ s) ∧ (allow = true ∨ https = true) ∧
    (∀ a, authAlgs = some a → lit "none" ∉ a) ∧ (∃ a ∈ idAlgs, lowerAscii a ≠ lit "none") ∧ plain = true ∧
    ((∃ rt ∈ rts, containsSub (lit "code") rt = true) → tep = true) := by
  simp only [providerConfiguration, Bool.and_eq_true, Bool.or_eq_true, Bool.not_eq_true'] at h
  obtain ⟨⟨⟨⟨⟨h1, h2⟩, h3⟩, h4⟩, h5⟩, h6⟩ := h
  refine ⟨?_, h2, ?_, ?_, h5, ?_⟩
  · intro s hs; subst hs; simpa using h1
  · intro a ha; subst ha; simpa using h3
  · obtain ⟨a, ha, hne⟩ := List.any_eq_true.mp h4
    exact ⟨a, ha, by simpa using hne⟩
  · rintro ⟨rt, hrt, hc⟩
    rcases h6 with h6 | h6
    · have := List.any_eq_false.mp h6 rt hrt
      simp [hc] at this
    · exact h6

/-- OIDC authorization request: accepted ⇒ the four rules -/
theorem oidc_authorization_request_accept (rt : List Str) (nonce : Bool) (scope : List Str) (prompt : Option (List Str))
    (h : oidcAuthorizationRequest rt nonce scope prompt = true) :
    (lit "id_token" ∈ rt → nonce = true) ∧ lit "openid" ∈ scope ∧
    (lit "offline_access" ∈ scope → ∃ p, prompt = some p ∧ lit "consent" ∈ p) ∧
    (∀ p, prompt = some p → lit "none" ∈ p → p.length ≤ 1) := by
  simp only [oidcAuthorizationRequest, Bool.and_eq_true, Bool.or_eq_true, Bool.not_eq_true'] at h
  obtain ⟨⟨⟨h1, h2⟩, h3⟩, h4⟩ := h
  refine ⟨?_, by simpa using h2, ?_, ?_⟩
  · intro hin
    rcases h1 with h1 | h1
    · simp [hin] at h1
    · exact h1
  · intro hin
    rcases h3 with h3 | h3
    · simp [hin] at h3
    · cases prompt with
      | none => simp at h3
      | some p => exact ⟨p, rfl, by simpa using h3⟩
  · intro p hp hnone
    subst hp
    have h4' : (!(p.contains (lit "none") && decide (p.length > 1))) = true := h4
    have hn : p.contains (lit "none") = true := by simpa using hnone
    rw [hn] at h4'
    simp at h4'
    exact h4'

theorem client_metadata_accept (gt : List Str) (ru : Bool) (h : clientMetadata gt ru = true) :
    (lit "authorization_code" ∈ gt ∨ lit "implicit" ∈ gt) → ru = true := by
  intro hin
  simp only [clientMetadata, Bool.or_eq_true, Bool.not_eq_true'] at h
  rcases h with h | h
  · have := List.any_eq_false.mp h
    rcases hin with hin | hin
    · have := this _ hin; simp at this
    · have := this _ hin; simp at this
  · exact h

theorem registration_accept (il : Option Bool) (ps : List (Bool × Bool)) (n : Bool) (h : registrationRequest il ps n = true) :
    il ≠ some false ∧ (∀ p ∈ ps, p.2 = true → p.1 = true) ∧ n = false := by
  simp only [registrationRequest, Bool.and_eq_true, Bool.not_eq_true'] at h
  obtain ⟨⟨h1, h2⟩, h3⟩ := h
  refine ⟨by intro hc; simp [hc] at h1, ?_, h3⟩
  intro p hp henc
  have := List.all_eq_true.mp h2 p hp
  simpa [henc] using this

theorem registration_response_accept (u a : Bool) (h : registrationResponse u a = true) : u = a := by
  simpa [registrationResponse] using h

theorem id_token_audience_accept (aud : List Str) (azp me : Option Str) (h : idTokenAudience aud azp me = true) :
    (∀ m, me = some m → m ∈ aud) ∧ (aud.length > 1 → ∃ a, azp = some a ∧ a ∈ aud) ∧ (∀ a m, azp = some a → me = some m → a = m) := by
  simp only [idTokenAudience, Bool.and_eq_true] at h
  obtain ⟨⟨h1, h2⟩, h3⟩ := h
  refine ⟨?_, ?_, ?_⟩
  · intro m hm; subst hm; simpa using h1
  · intro hl
    simp only [hl, ↓reduceIte] at h2
    cases azp with
    | none => simp at h2
    | some a => exact ⟨a, rfl, by simpa using h2⟩
  · intro a m ha hm; subst ha; subst hm; simpa using h3

theorem logout_token_accept (nonce : Bool) (keys : List Str) (ev sub sid : Bool) (aud : List Str) (wa : Option Str) (iss : Str) (wi : Option Str)
    (h : logoutToken nonce keys ev sub sid aud wa iss wi = true) :
    nonce = false ∧ keys = [lit "http://schemas.openid.net/event/backchannel-logout"] ∧ ev = true ∧ (sub = true ∨ sid = true) ∧
    (∀ a, wa = some a → a ∈ aud) ∧ (∀ i, wi = some i → i = iss) := by
  simp only [logoutToken, Bool.and_eq_true, Bool.not_eq_true', Bool.or_eq_true] at h
  obtain ⟨⟨⟨⟨h1, h2⟩, h3⟩, h4⟩, h5⟩ := h
  refine ⟨h1, ?_, ?_, h3, ?_, ?_⟩
  · match keys, h2 with
    | [k], h2 => simp only [Bool.and_eq_true, beq_iff_eq] at h2; rw [h2.1]
  · match keys, h2 with
    | [k], h2 => simp only [Bool.and_eq_true] at h2; exact h2.2
  · intro a ha; subst ha; simpa using h4
  · intro i hi; subst hi; simpa using h5

/-- the truth table is not vacuous: each rule has accepting and refusing inputs -/
example : providerConfiguration none true false none [lit "RS256"] true [lit "code id_token"] false = false := by decide
example : providerConfiguration none true false none [lit "RS256"] true [lit "id_token"] false = true := by decide
example : oidcAuthorizationRequest [lit "code", lit "id_token"] false [lit "openid"] none = false := by decide
example : oidcAuthorizationRequest [lit "code"] false [lit "openid"] none = true := by decide

end rules

end Idpy.Props.C11
