/-
C11 — message verification enforces the declared schema.
-/
import IdpyVerif.Model.MsgVerify
import IdpyVerif.Gen.Schemas
namespace Idpy.Props.C11
open Idpy Idpy.Msg Idpy.MsgVerify

/-- verify ok ⇒ every required parameter is present and non-empty (booleans exempt, as in the code) -/
theorem verify_ok_required (spec : List PSpec) (m : Msg) (h : verifyGeneric spec m = true) :
    ∀ p ∈ spec, p.required = true → ∃ v, lookup m p.name = some v ∧ (p.kind = .bool ∨ truthy v = true) := by
  intro p hp hreq
  have hc : checkParam m p = true := by
    simp only [verifyGeneric, List.all_eq_true] at h; exact h p hp
  unfold checkParam at hc
  cases hl : lookup m p.name with
  | none => simp [hl, hreq] at hc
  | some v =>
    refine ⟨v, rfl, ?_⟩
    rw [hl] at hc
    simp only at hc
    by_cases hk : p.kind = .bool
    · exact Or.inl hk
    · right
      cases ht : truthy v with
      | true => rfl
      | false => simp [hk, ht, hreq] at hc

/-- verify ok ⇒ every non-empty value restricted to an enumerated set lies in that set
    (for the types `_type_check` constrains: str, int, lists of str) -/
theorem verify_ok_allowed (spec : List PSpec) (m : Msg) (h : verifyGeneric spec m = true) :
    ∀ p ∈ spec, ∀ al v, p.allowed = some al → lookup m p.name = some v → (p.kind = .bool ∨ truthy v = true) →
      typeCheck p.kind al v = true := by
  intro p hp al v hal hl ht
  have hc : checkParam m p = true := by
    simp only [verifyGeneric, List.all_eq_true] at h; exact h p hp
  unfold checkParam at hc
  rw [hl] at hc
  simp only at hc
  rcases ht with hk | ht
  · simp [hk, hal] at hc; rw [hk]; rfl
  · simp [ht, hal] at hc; exact hc

theorem typeCheck_str (al : List Val) (s : Bytes) (h : typeCheck .str al (.str s) = true) : Val.str s ∈ al := by
  simpa [typeCheck] using h

theorem typeCheck_list (al : List Val) (l : List Bytes) (h : typeCheck .listStr al (.strs l) = true) :
    ∀ x ∈ l, Val.str x ∈ al := by
  intro x hx
  simp only [typeCheck, List.all_eq_true] at h
  simpa using h x hx

/-- a subclass whose overrides all chain reaches the generic check: its `verify` succeeds only
    if the generic schema check succeeds -/
theorem chain_reaches_generic (spec : List PSpec) (chain : List Override) (m : Msg)
    (hall : chain.all (·.chains) = true) (h : verifyClass spec chain m = true) : verifyGeneric spec m = true := by
  induction chain with
  | nil => simpa [verifyClass] using h
  | cons o rest ih =>
    simp only [List.all_cons, Bool.and_eq_true] at hall
    simp only [verifyClass, Bool.and_eq_true] at h
    rw [if_pos hall.1] at h
    exact ih hall.2 h.2

/-- … and a non-chaining override really loses it (what F-C11 is about): with a rule that accepts,
    an empty message verifies although a parameter is required -/
theorem non_chaining_counterexample :
    verifyClass [{ name := [99], kind := .str, required := true, allowed := none }]
      [{ rule := fun _ => true, chains := false }] [] = true ∧
    verifyGeneric [{ name := [99], kind := .str, required := true, allowed := none }] [] = false := by
  decide

/-! ### obligations over the regenerated verify-chain table -/

def chainsToGeneric (c : Gen.ClassInfo) : Bool := c.verifyChain.all (·.2)

/-- classes whose `verify` does not reach the generic check today (known findings F-C11-c/d);
    any other class that stops chaining re-opens this obligation -/
def knownNonChaining : List String :=
  ["idpyoidc.message.oauth2.JWTSecuredAuthorizationRequest",
   "idpyoidc.message.oidc.identity_assurance.VerificationElement"]

theorem all_classes_chain :
    ((Gen.classes.filter (fun c => !chainsToGeneric c)).map (·.name)) = knownNonChaining := by
  decide +kernel

/-- every verify chain ends in the generic `Message.verify` -/
theorem all_chains_end_in_generic :
    Gen.classes.all (fun c => (c.verifyChain.getLast?.map (·.1)) == some "idpyoidc.message.Message") = true := by
  decide +kernel

/-! ### typed slots: lossless coercion or rejection -/

/-- what `_add_value` may store for a dict-level value `w` in a slot of kind `k`: the value
    itself, or one of three lossless coercions; everything else is rejected or dropped -/
theorem typed_slot_lossless (k : Kind) (w v : Val) (h : deserDict k w = some (some v)) :
    v = w ∨
    (k = .int ∧ ∃ s, w = .str s ∧ s.all LV.isDig = true ∧ v = .int (s.foldl (fun a c => a * 10 + LV.dval c) 0)) ∨
    (k = .listStr ∧ ∃ s, w = .str s ∧ v = .strs [s]) ∨
    (k = .spSep ∧ ∃ s, w = .str s ∧ v = .strs (splitSp s)) := by
  unfold deserDict at h
  split at h
  · simp at h
  · clear ‹¬ blank w = true›
    cases k <;> cases w
    all_goals first
      | (simp [addValue] at h; done)
      | (simp [addValue] at h; exact Or.inl h.symm)
      | (simp [addValue] at h; exact Or.inr (Or.inr (Or.inl ⟨rfl, _, rfl, h.symm⟩)))
      | (simp [addValue] at h; exact Or.inr (Or.inr (Or.inr ⟨rfl, _, rfl, h.symm⟩)))
      | skip
    · -- int slot, string value
      rename_i s
      simp only [addValue] at h
      split at h
      · rename_i hc
        simp at h
        exact Or.inr (Or.inl ⟨rfl, s, rfl, hc.1, h.symm⟩)
      · simp at h
    · rename_i l
      cases l with
      | nil => simp [addValue] at h
      | cons a as => simp [addValue] at h; exact Or.inl h.symm
    · rename_i l
      cases l with
      | nil => simp [addValue] at h
      | cons a as => simp [addValue] at h; exact Or.inl h.symm

/-- a string slot never stores a number, a number slot never stores a boolean or a list,
    a boolean slot stores booleans only -/
theorem wrong_type_rejected :
    (∀ n, deserDict .str (.int n) = some none) ∧ (∀ b, deserDict .str (.bool b) = some none) ∧
    (∀ b, deserDict .int (.bool b) = some none) ∧ (∀ n, deserDict .bool (.int n) = some none) ∧
    (∀ n, deserDict .listStr (.int n) = some none) := by
  refine ⟨fun _ => rfl, fun _ => rfl, fun _ => rfl, fun _ => rfl, fun _ => rfl⟩

end Idpy.Props.C11
