/-
C13 — exported state restores to an equivalent provider or relying party; the file-backed store
shows a new instance what was written through the dictionary interface.
-/
import IdpyVerif.Proofs.FileStore
import IdpyVerif.Proofs.ImpExp
import IdpyVerif.Proofs.UrlEnc
import IdpyVerif.Model.Provider
import IdpyVerif.Gen.ImpExp
namespace Idpy.Props.C13
open Idpy Idpy.FileStore

/-! ## export / import of one object (`ImpExp`) -/

/-- **restore is exact** (re-export of `ImpExp.load_dump_id`): if every attribute of the object
    either is exported (and is not a `None` the constructor would replace) or is re-derived by the
    constructor from the configuration, then `load` into a fresh instance yields the original -/
theorem restore_exact (exported : List ImpExp.Attr) (fresh o : ImpExp.Obj)
    (h : ∀ a, ImpExp.Survives exported fresh o a) : ImpExp.load fresh (ImpExp.dump exported o) = o :=
  ImpExp.load_dump_id exported fresh o h

/-- an attribute that is neither exported nor re-derived is lost: the hypothesis of `restore_exact`
    is forced (this is F-C13-a/b/g before their fixes: `Grant.id`, `original_branch_id`,
    `auth_req_id_map`) -/
theorem unexported_state_is_lost :
    ∃ (fresh o : ImpExp.Obj), ImpExp.load fresh (ImpExp.dump ["scope"] o) "id" ≠ o "id" :=
  ⟨fun _ => 1, fun _ => 2, by decide⟩

/-- export ∘ import ∘ export = export -/
theorem export_idempotent (exported : List ImpExp.Attr) (fresh o : ImpExp.Obj)
    (h : ∀ a ∈ exported, ImpExp.Survives exported fresh o a) :
    ImpExp.dump exported (ImpExp.load fresh (ImpExp.dump exported o)) = ImpExp.dump exported o :=
  ImpExp.dump_load_dump exported fresh o h

/-- equal states answer every future request sequence equally (the provider core model is a
    function of its state): with `restore_exact` this is the crash-point statement — for every
    prefix `h₁` of a history, continuing from the restored state is continuing from the original -/
theorem equal_state_equal_future (cfg : Provider.Cfg) (s s' : Provider.St) (h : s' = s) (ops : List Provider.Op) :
    Provider.run cfg s' ops = Provider.run cfg s ops := by rw [h]

/-! ### which attributes are state: the generated table

`Gen.ieClasses` lists, for every `ImpExp` subclass of the package, the keys of `parameter` and the
attributes its constructors assign (from the AST).  Every assigned attribute must be exported, or
be on one of the two hand-written lists below — attributes the constructor re-derives from the
configuration or the embedding unit (checked dynamically by the correspondence: original and
restored instance are compared after every restore).  A new attribute that is neither makes this
obligation fail. -/

/-- re-derived from configuration / wiring, whatever the class -/
def configAttrs : List String := [
  -- wiring to the embedding unit and transport
  "upstream_get", "httpc", "httpc_params", "context", "entity_id", "client_id", "client_type", "issuer",
  -- the configuration itself and what constructors compute from it
  "conf", "keyjar", "endpoint", "persistence", "_service", "_part", "claims",
  -- client services: callables and defaults wired from configuration
  "client_authn_methods", "construct_extra_headers", "default_request_args", "post_construct", "post_parse_process", "pre_construct", "rel",
  -- session managers: cipher re-created from the exported crypt_config (local_load_adjustments), classes, handlers
  "crypt", "node_info_class", "node_type", "token_handler", "sub_func", "remember_token", "remove_inactive_token"]

/-- per class, with the reason -/
def perClass : List (String × List String) := [
  -- components the endpoint context builds from its configuration
  ("idpyoidc.server.endpoint_context.EndpointContext",
    ["_sub_func", "add_on", "authn_broker", "authz", "claims_interface", "cookie_handler", "dev_auth_db", "idtoken", "jwx_def",
     "remove_token", "template_handler", "token_handler_args", "userinfo"]),
  -- constants after construction (never assigned elsewhere)
  ("idpyoidc.client.service_context.ServiceContext", ["client_secret_expires_at", "kid"]),
  -- never read
  ("idpyoidc.server.session.grant.ExchangeGrant", ["users"])]

def covered (c : Gen.IEClass) : Bool :=
  c.initAttrs.all fun a => c.exported.contains a || configAttrs.contains a ||
    (match perClass.lookup c.name with | some l => l.contains a | none => false)

/-- **table obligation** (regenerated from /repo on every run) -/
theorem all_state_exported : Gen.ieClasses.all covered = true := by decide +kernel

/-- the obligation is not vacuous: the grant class is in the table, exports its identity, and a
    class that forgot an attribute would not be covered -/
theorem table_nonvacuous :
    (Gen.ieClasses.any fun c => c.name = "idpyoidc.server.session.grant.Grant" && c.exported.contains "id" && c.initAttrs.contains "id") = true ∧
    (Gen.ieClasses.any fun c => c.name = "idpyoidc.server.session.grant.ExchangeGrant" && c.exported.contains "original_branch_id") = true ∧
    (Gen.ieClasses.any fun c => c.name = "idpyoidc.server.session.manager.SessionManager" && c.exported.contains "auth_req_id_map") = true ∧
    covered { name := "X", exported := ["a"], special := [], initArgs := [], initAttrs := ["a", "forgotten"] } = false := by
  decide +kernel

/-! ## the file-backed store -/

theorem get_of_coh (c : Conv) (s' : FS) (k : Str) (d0 : Dir) (hcoh : Coh c s')
    (hd : get? s'.dir (c.ser k) = get? d0 (c.ser k))
    (hcomp : ∀ content v, get? d0 (c.ser k) = some content → c.vdeser (LV.strip content) = some v → c.ser k ∈ s'.known) :
    (step c s' (.get k)).2 =
      match get? d0 (c.ser k) with
      | none => .keyError
      | some content => match c.vdeser (LV.strip content) with
        | some v => .val v
        | none => .convError := by
  simp only [step]
  rw [hd]
  cases hg : get? d0 (c.ser k) with
  | none => rfl
  | some content =>
    simp only
    by_cases hk : s'.known.contains (c.ser k) = true
    · simp only [hk, if_true]
      obtain ⟨_, content', v, hg', hv, hst⟩ := hcoh.1 (c.ser k) (by simpa using hk)
      rw [hd, hg] at hg'
      cases hg'
      simp [hst, hv]
    · simp only [hk, Bool.false_eq_true, if_false]
      have h2 := readInfo_snd c s'.dir (c.ser k)
      rw [hd, hg] at h2
      cases hv : c.vdeser (LV.strip content) with
      | some v =>
        exfalso
        apply hk
        simpa using hcomp content v hg hv
      | none =>
        simp only [hv, Option.map_some] at h2
        split
        · rename_i d' v heq
          rw [heq] at h2; cases h2
        · rfl

/-- what a NEW instance over the directory of `s` answers for `get k` -/
theorem fresh_get_dir (c : Conv) (s : FS) (k : Str) (hl : isLock (c.ser k) = false) :
    (step c (step c s .reopen).1 (.get k)).2 =
      match get? s.dir (c.ser k) with
      | none => .keyError
      | some content => match c.vdeser (LV.strip content) with
        | some v => .val v
        | none => .convError := by
  have hsame := synch_same c { dir := s.dir, storage := [], known := [] }
  have hcoh : Coh c (synch c { dir := s.dir, storage := [], known := [] }) := synchLoop_coh c _ _ (coh_fresh c s.dir)
  refine get_of_coh c _ k s.dir hcoh (hsame (c.ser k) hl) ?_
  intro content v hg hv
  have hm : c.ser k ∈ s.dir.map (·.1) := get?_mem_names _ _ _ hg
  exact synchLoop_complete c (s.dir.map (·.1)) { dir := s.dir, storage := [], known := [] } (c.ser k) content v hm hl hg hv

/-- **the file-store clause of C13.** Whatever sequence of dictionary operations (set, get, delete,
    membership, listing, length, clear, and discarding the instance for a new one at any point)
    over well-formed keys produced the directory, a NEW instance over that directory answers
    `get k` exactly as a plain dictionary that saw the same operations — provided the stored value
    survives its own file format (`vdeser (strip (vser v)) = some v`) -/
theorem fresh_instance_sees_dictionary (c : Conv) (ops : List Op) (k : Str)
    (hops : ∀ op ∈ ops, OpGood c op) (hk : Good c k)
    (hval : ∀ v, specRun (fun _ => none) ops k = some v → c.vdeser (LV.strip (c.vser v)) = some v) :
    (step c (step c (run c {} ops) .reopen).1 (.get k)).2 =
      match specRun (fun _ => none) ops k with
      | some v => .val v
      | none => .keyError := by
  have hrep := rep_run c ops {} (fun _ => none) (rep_init c) hops
  rw [fresh_get_dir c _ k hk.2.1]
  have := hrep (c.ser k) hk.2.1
  rw [hk.2.2] at this
  simp only [if_true] at this
  rw [this]
  cases hm : specRun (fun _ => none) ops k with
  | none => rfl
  | some v => simp [hval v hm]

/-- … and lists exactly the dictionary's keys -/
theorem fresh_instance_lists_dictionary (c : Conv) (ops : List Op) (k : Str)
    (hops : ∀ op ∈ ops, OpGood c op) (hk : Good c k)
    (hval : ∀ k v, specRun (fun _ => none) ops k = some v → c.vdeser (LV.strip (c.vser v)) = some v) :
    (k ∈ ((step c (run c {} ops) .reopen).1.storage.map (fun e => c.deser e.1))) ↔
      (specRun (fun _ => none) ops k).isSome := by
  have hrep := rep_run c ops {} (fun _ => none) (rep_init c) hops
  generalize run c {} ops = s at *
  have hsame : SameFiles s.dir (synch c { dir := s.dir, storage := [], known := [] }).dir := synch_same c { dir := s.dir, storage := [], known := [] }
  have hcoh : Coh c (synch c { dir := s.dir, storage := [], known := [] }) := synchLoop_coh c _ _ (coh_fresh c s.dir)
  have hcomp : ∀ n content v, n ∈ s.dir.map (·.1) → isLock n = false → get? s.dir n = some content →
      c.vdeser (LV.strip content) = some v → n ∈ (synch c { dir := s.dir, storage := [], known := [] }).known :=
    fun n content v hm hl hg hv => by
      have := synchLoop_complete c (s.dir.map (·.1)) { dir := s.dir, storage := [], known := [] } n content v hm hl hg hv
      simpa [synch] using this
  simp only [step]
  generalize synch c { dir := s.dir, storage := [], known := [] } = s' at *
  constructor
  · intro hmem
    obtain ⟨e, he, hke⟩ := List.mem_map.mp hmem
    have hst : (get? s'.storage e.1).isSome := by
      unfold get?
      cases hf : s'.storage.find? (fun x => x.1 = e.1) with
      | some _ => simp
      | none =>
        exfalso
        rw [List.find?_eq_none] at hf
        exact hf e he (by simp)
    obtain ⟨hl, content, v, hg, _, _⟩ := hcoh.1 e.1 (hcoh.2 e.1 hst)
    rw [hsame e.1 hl] at hg
    have := hrep e.1 hl
    rw [hg] at this
    by_cases hc : c.ser (c.deser e.1) = e.1
    · simp only [hc, if_true] at this
      rw [hke] at this
      cases hm : specRun (fun _ => none) ops k with
      | none => rw [hm] at this; cases this
      | some _ => rfl
    · simp [hc] at this
  · intro hsome
    obtain ⟨v, hm⟩ := Option.isSome_iff_exists.mp hsome
    have hf := hrep (c.ser k) hk.2.1
    rw [hk.2.2] at hf
    simp only [if_true, hm, Option.map_some] at hf
    have hkn : c.ser k ∈ s'.known := hcomp _ _ _ (get?_mem_names _ _ _ hf) hk.2.1 hf (hval k v hm)
    obtain ⟨_, _, v', _, _, hst⟩ := hcoh.1 (c.ser k) hkn
    unfold get? at hst
    cases hfind : s'.storage.find? (fun x => x.1 = c.ser k) with
    | none => rw [hfind] at hst; cases hst
    | some e =>
      have hmem := List.mem_of_find?_eq_some hfind
      have he : e.1 = c.ser k := by simpa using List.find?_some hfind
      exact List.mem_map.mpr ⟨e, hmem, by rw [he, hk.2.2]⟩


/-! ### the default key conversion (`QPKey`: `quote_plus` / `unquote_plus`) -/

def qpConv (vser : Str → Str) (vdeser : Str → Option Str) : Conv :=
  { ser := UrlEnc.quotePlus, deser := UrlEnc.unquotePlus, vser := vser, vdeser := vdeser }

/-- for the default key conversion, a key (UTF-8 bytes) is well-formed exactly when its quoted
    form is an acceptable file name that does not look like a lock file: URL-shaped client
    identifiers are (`qp_url_key_good`), `""`, `"."`, `".."`, over-long keys and keys ending in
    `.lock` are not -/
theorem qp_good (vser : Str → Str) (vdeser : Str → Option Str) (k : Str) (hb : UrlEnc.AllBytes k)
    (h1 : badName (UrlEnc.quotePlus k) = false) (h2 : isLock (UrlEnc.quotePlus k) = false) :
    Good (qpConv vser vdeser) k :=
  ⟨h1, h2, UrlEnc.unquotePlus_quotePlus k hb⟩

/-- `https://rp.example.org/cb?x=1 2` as a key -/
def urlKey : Str := [104,116,116,112,115,58,47,47,114,112,46,101,120,97,109,112,108,101,46,111,114,103,47,99,98,63,120,61,49,32,50]

theorem qp_url_key_good : Good (qpConv id some) urlKey := by
  refine qp_good id some urlKey ?_ ?_ ?_
  · intro b hb; revert b; decide +kernel
  · decide +kernel
  · decide +kernel

/-- non-vacuity and a worked history: URL-shaped key set, overwritten, another key set and deleted,
    instance discarded — the new instance answers like the dictionary -/
theorem worked_history :
    let c := qpConv id some
    let ops := [Op.set urlKey [97], .set [107] [98], .set urlKey [99], .del [107], .reopen, .keys]
    (step c (step c (run c {} ops) .reopen).1 (.get urlKey)).2 = .val [99] ∧
    (step c (step c (run c {} ops) .reopen).1 (.get [107])).2 = .keyError := by
  decide +kernel

/-! ### outside the guard (F-C13-d): replayed on the implementation on every run -/

/-- a key ending in `.lock` is written but a new instance does not list it -/
theorem lock_key_invisible :
    let c := qpConv id some
    let k : Str := [120] ++ [46, 108, 111, 99, 107]
    (step c (run c {} [.set k [118], .reopen]) .keys).2 = .keys [] ∧
    (step c (run c {} [.set k [118]]) .len).2 = .num 0 := by
  decide +kernel

/-- with the pass-through value conversion, surrounding whitespace does not survive the file -/
theorem passthru_strips :
    let c := qpConv id some
    (step c (run c {} [.set [107] [32, 118, 32], .reopen]) (.get [107])).2 = .val [118] ∧
    (step c (run c {} [.set [107] [32, 118, 32]]) (.get [107])).2 = .val [32, 118, 32] := by
  decide +kernel

end Idpy.Props.C13
