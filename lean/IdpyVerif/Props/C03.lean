/-
C03 — expiry and revocation are final and cascade to every endpoint.
Property theorems about the provider core model (Model/Provider.lean).
-/
import IdpyVerif.Proofs.Provider
import IdpyVerif.Proofs.Scope
import IdpyVerif.Proofs.Cascade
namespace Idpy.Props.C03
open Idpy Idpy.Provider

/-- token `c` is dead in state `s`: it was minted before (`c < s.next`) and every stored token
    with that value is revoked or expired — which includes "no longer stored" (session removed) -/
def Dead (s : St) (c : Nat) : Prop :=
  c < s.next ∧ ∀ t ∈ s.toks, t.id = c → t.revoked = true ∨ (t.exp ≠ 0 ∧ t.exp < s.now)

/-- an endpoint honours token `c`: userinfo answers, introspection says active, refresh mints,
    the token endpoint redeems it -/
def Honours (op : Op) (o : Out) (c : Nat) : Prop :=
  match op, o with
  | .userinfo tok, .userinfo _ _ => tok = c
  | .introspect _ tok, .introspect true _ => tok = c
  | .refresh _ rt _, .tokens _ _ _ _ _ => rt = c
  | .exchange _ subj _ _ _, .exchanged _ _ => subj = c
  | .tokenProcess _, .tokens (some code) _ _ _ _ => code = c
  | _, _ => False

theorem dead_inactive {s : St} {c : Nat} {t : Tok} (hd : Dead s c) (h : findTok s c = some t) :
    tokActive s.now t = false := by
  obtain ⟨hm, hid⟩ := findTok_mem h
  rcases hd.2 t hm hid with hr | ⟨h0, hlt⟩
  · simp [tokActive, hr]
  · simp [tokActive, h0]; omega

/-- death is final across one API step (any operation) -/
theorem dead_step (cfg : Cfg) (s : St) (op : Op) (c : Nat) (h : Dead s c) : Dead (step cfg s op).1 c := by
  have ha := step_adv cfg s op
  refine ⟨Nat.lt_of_lt_of_le h.1 ha.next, ?_⟩
  intro t' ht' hid
  rcases ha.ev t' ht' with ⟨t, ht, hk⟩ | hfresh
  · rcases h.2 t ht (by rw [← hk.id]; exact hid) with hr | ⟨h0, hlt⟩
    · exact Or.inl (hk.revoked hr)
    · exact Or.inr ⟨by rw [hk.exp]; exact h0, by rw [hk.exp]; exact Nat.lt_of_lt_of_le hlt ha.now⟩
  · exact absurd hfresh (by have := h.1; omega)

/-- … and across every history -/
theorem dead_is_final (cfg : Cfg) (ops : List Op) (s : St) (c : Nat) (h : Dead s c) :
    Dead (run cfg s ops).1 c := by
  induction ops generalizing s with
  | nil => simpa [run] using h
  | cons op ops ih =>
    simp only [run]
    exact ih _ (dead_step cfg s op c h)

/-- no endpoint honours a dead token (one step) -/
theorem dead_not_honoured_step (cfg : Cfg) (s : St) (op : Op) (c : Nat) (h : Dead s c) :
    ¬ Honours op (step cfg s op).2 c := by
  intro hh
  cases op with
  | userinfo tok =>
    simp only [step] at hh
    split at hh
    · simp [Honours] at hh
    · rename_i t ht
      split at hh
      · simp [Honours] at hh
      · split at hh
        · simp [Honours] at hh
        · split at hh
          · simp [Honours] at hh
          · rename_i hact
            split at hh
            · simp [Honours] at hh
            · simp only [Honours] at hh; subst hh
              simp [dead_inactive h ht] at hact
  | introspect cl tok =>
    simp only [step] at hh
    split at hh
    · simp [Honours] at hh
    · rename_i t ht
      split at hh
      · simp [Honours] at hh
      · split at hh
        · simp [Honours] at hh
        · split at hh
          · simp [Honours] at hh
          · rename_i hact
            simp only [Honours] at hh; subst hh
            simp [dead_inactive h ht] at hact
  | refresh cl rt sc =>
    simp only [step] at hh
    split at hh
    · simp [Honours] at hh
    · rename_i t ht
      split at hh
      · simp [Honours] at hh
      · split at hh
        · simp [Honours] at hh
        · split at hh
          · simp [Honours] at hh
          · rename_i hact
            split at hh
            · simp [Honours] at hh
            · split at hh
              · simp [Honours] at hh
              · split at hh
                · simp [Honours] at hh
                · simp [Honours] at hh
                · simp only [Honours] at hh; subst hh
                  simp [dead_inactive h ht] at hact
  | tokenProcess idx =>
    simp only [step] at hh
    split at hh
    · simp [Honours] at hh
    · split at hh
      · simp [Honours] at hh
      · rename_i r hr _ ct hct
        split at hh
        · simp [Honours] at hh
        · split at hh
          · simp [Honours] at hh
          · split at hh
            · simp [Honours] at hh
            · split at hh
              · simp [Honours] at hh
              · split at hh
                · simp [Honours] at hh
                · simp [Honours] at hh
              · rename_i hm
                simp only [Honours] at hh
                -- the access-token mint succeeded although the code is dead: impossible
                unfold mint at hm
                split at hm
                · simp at hm
                · simp only at hm
                  have hct' : findTok s r.code = some ct := by simpa [findTok] using hct
                  have hf : findTok { s with pending := s.pending.eraseIdx idx } r.code = some ct := by
                    simpa [findTok] using hct
                  rw [hf] at hm
                  simp only at hm
                  split at hm
                  · simp at hm
                  · split at hm
                    · simp at hm
                    · rename_i hact
                      have := dead_inactive (hh ▸ h) hct'
                      simp [this] at hact
  | exchange cl subj st rt sc =>
    simp only [step] at hh
    split at hh
    · simp [Honours] at hh
    · rename_i t ht
      split at hh
      · simp [Honours] at hh
      · split at hh
        · simp [Honours] at hh
        · split at hh
          · simp [Honours] at hh
          · split at hh
            · simp [Honours] at hh
            · rename_i hact
              -- whatever follows the liveness check, honouring means the subject token is `c`
              have hc : subj = c := by
                repeat (first | (simp [Honours] at hh; done) | (simpa [Honours] using hh) | split at hh)
              subst hc
              simp [dead_inactive h ht] at hact
  | tick n => simp [step, Honours] at hh
  | authorize u cl sc r =>
    simp only [step] at hh
    split at hh <;> simp [Honours] at hh
  | tokenParse cl code r =>
    simp only [step] at hh
    repeat (first | (simp [Honours] at hh; done) | split at hh)
  | revokeEp cl tok =>
    simp only [step] at hh
    repeat (first | (simp [Honours] at hh; done) | split at hh)
  | revokeTok tok r =>
    simp only [step] at hh
    repeat (first | (simp [Honours] at hh; done) | split at hh)
  | revokeGrant g =>
    simp only [step] at hh
    repeat (first | (simp [Honours] at hh; done) | split at hh)
  | revokeClient u cl =>
    simp only [step] at hh
    repeat (first | (simp [Honours] at hh; done) | split at hh)
  | revokeUser u =>
    simp only [step] at hh
    repeat (first | (simp [Honours] at hh; done) | split at hh)
  | logoutAll u =>
    simp only [step] at hh
    repeat (first | (simp [Honours] at hh; done) | split at hh)
  | remove g =>
    simp only [step] at hh
    repeat (first | (simp [Honours] at hh; done) | split at hh)


/-- once dead, never honoured again: for every history that follows -/
theorem never_honoured_again (cfg : Cfg) (ops : List Op) (s : St) (c : Nat) (h : Dead s c) :
    ∀ p ∈ ops.zip (run cfg s ops).2, ¬ Honours p.1 p.2 c := by
  induction ops generalizing s with
  | nil => intro p hp; simp [run] at hp
  | cons op ops ih =>
    intro p hp
    simp only [run, List.zip_cons_cons, List.mem_cons] at hp
    rcases hp with rfl | hp
    · exact dead_not_honoured_step cfg s op c h
    · exact ih _ (dead_step cfg s op c h) p hp

/-- a client's own usage rule that says nothing about the lifetime keeps the general lifetime: its
    tokens still expire -/
theorem client_rule_keeps_general_lifetime (general : Rule) (m : Option (List Cls)) :
    (mergeRule general (some { mints := m, expiresIn := none })).expiresIn = general.expiresIn := rfl

/-- … and one that does not say what may be minted keeps the general list -/
theorem client_rule_keeps_general_minting (general : Rule) (e : Option Nat) :
    (mergeRule general (some { mints := none, expiresIn := e })).mints = general.mints := rfl

/-- a revoked token is dead (entry point of the cascade theorems) -/
theorem dead_of_all_revoked {s : St} {c : Nat} (hc : c < s.next)
    (h : ∀ t ∈ s.toks, t.id = c → t.revoked = true) : Dead s c :=
  ⟨hc, fun t ht hid => Or.inl (h t ht hid)⟩

/-- revoking a grant kills every token issued under it (after the fix for F-C03-a) -/
theorem revoke_grant_cascades (cfg : Cfg) (s : St) (gid : Nat) (hi : Inv s) (hg : (findGr s gid).isSome)
    (t : Tok) (ht : t ∈ s.toks) (hgid : t.gid = gid) :
    Dead (step cfg s (.revokeGrant gid)).1 t.id := by
  have hs : (step cfg s (.revokeGrant gid)).1 = revokeGr s gid := by
    simp only [step]
    cases h : findGr s gid with
    | none => simp [h] at hg
    | some g => rfl
  rw [hs]
  apply dead_of_all_revoked
  · simpa [revokeGr] using inv_lt hi ht
  · intro t' ht' hid
    simp only [revokeGr, revokeGrantToks, List.mem_map] at ht'
    obtain ⟨t0, ht0, rfl⟩ := ht'
    have h0 : t0.id = t.id := by
      split at hid <;> simpa using hid
    have : t0 = t := inv_uniq hi ht0 ht h0
    subst this
    simp [hgid]

theorem revokeGr_toks_mono (s : St) (g : Nat) (t' : Tok) (ht' : t' ∈ (revokeGr s g).toks) :
    ∃ t0 ∈ s.toks, t'.id = t0.id ∧ t'.gid = t0.gid ∧ (t0.revoked = true ∨ t0.gid = g → t'.revoked = true) := by
  simp only [revokeGr, revokeGrantToks, List.mem_map] at ht'
  obtain ⟨t0, ht0, rfl⟩ := ht'
  refine ⟨t0, ht0, ?_⟩
  split <;> simp_all

theorem foldl_revokeGr_kills (gs : List Nat) (s : St) (t' : Tok) (ht' : t' ∈ (gs.foldl revokeGr s).toks) :
    ∃ t0 ∈ s.toks, t'.id = t0.id ∧ t'.gid = t0.gid ∧ (t0.revoked = true ∨ t0.gid ∈ gs → t'.revoked = true) := by
  induction gs generalizing s with
  | nil => exact ⟨t', by simpa using ht', rfl, rfl, by simp⟩
  | cons g gs ih =>
    simp only [List.foldl_cons] at ht'
    obtain ⟨t1, ht1, hid1, hg1, hr1⟩ := ih (revokeGr s g) ht'
    obtain ⟨t0, ht0, hid0, hg0, hr0⟩ := revokeGr_toks_mono s g t1 ht1
    refine ⟨t0, ht0, hid1.trans hid0, hg1.trans hg0, ?_⟩
    intro h
    apply hr1
    rcases h with h | h
    · exact Or.inl (hr0 (Or.inl h))
    · rcases List.mem_cons.mp h with h | h
      · exact Or.inl (hr0 (Or.inr h))
      · exact Or.inr (by rw [hg0]; exact h)

/-- logout from a client / revocation of a client session kills every token of every grant the
    user has with that client -/
theorem revoke_client_cascades (cfg : Cfg) (s : St) (user client : Str) (hi : Inv s)
    (g : Gr) (hg : g ∈ s.grants) (hu : g.user = user) (hc : g.client = client)
    (t : Tok) (ht : t ∈ s.toks) (hgid : t.gid = g.id) :
    Dead (step cfg s (.revokeClient user client)).1 t.id := by
  have hmem : g.id ∈ (s.grants.filter (fun g => g.user = user ∧ g.client = client)).map (·.id) :=
    List.mem_map.mpr ⟨g, List.mem_filter.mpr ⟨hg, by simp [hu, hc]⟩, rfl⟩
  have hne : ((s.grants.filter (fun g => g.user = user ∧ g.client = client)).map (·.id)).isEmpty = false := by
    cases h : (s.grants.filter (fun g => g.user = user ∧ g.client = client)).map (·.id) with
    | nil => rw [h] at hmem; simp at hmem
    | cons => rfl
  simp only [step, hne]
  apply dead_of_all_revoked
  · have := (foldl_revokeGr_adv ((s.grants.filter (fun g => g.user = user ∧ g.client = client)).map (·.id)) s).next
    exact Nat.lt_of_lt_of_le (inv_lt hi ht) this
  · intro t' ht' hid
    obtain ⟨t0, ht0, hid0, _, hr⟩ := foldl_revokeGr_kills _ s t' ht'
    have : t0 = t := inv_uniq hi ht0 ht (by rw [← hid0]; exact hid)
    subst this
    exact hr (Or.inr (by rw [hgid]; exact hmem))

/-- logout from all clients ends every client session that is told about it: the client registered
    a logout URI and an ID token was ever issued in the session — however old or revoked that ID
    token is by now -/
theorem logout_all_cascades (cfg : Cfg) (s : St) (user : Str) (hi : Inv s)
    (g g' : Gr) (hg : g ∈ s.grants) (hu : g.user = user) (hl : cfg.logoutUri g.client = true)
    (hg' : g' ∈ s.grants) (hu' : g'.user = user) (hc' : g'.client = g.client) (hid' : hasIdToken s g' = true)
    (t : Tok) (ht : t ∈ s.toks) (hgid : t.gid = g.id) :
    Dead (step cfg s (.logoutAll user)).1 t.id := by
  have hmem : g.id ∈ logoutTargets cfg s user := by
    unfold logoutTargets
    refine List.mem_map.mpr ⟨g, List.mem_filter.mpr ⟨hg, ?_⟩, rfl⟩
    simp only [hu, hl, decide_true, Bool.and_true, Bool.true_and, List.any_eq_true]
    simp only [true_and, decide_eq_true_eq]
    exact ⟨g', hg', by simp [hu', hc', hid']⟩
  have hne : (s.grants.filter (fun g => g.user = user)).isEmpty = false := by
    cases h : s.grants.filter (fun g => g.user = user) with
    | nil =>
      have : g ∈ s.grants.filter (fun g => g.user = user) := List.mem_filter.mpr ⟨hg, by simp [hu]⟩
      rw [h] at this; simp at this
    | cons => rfl
  simp only [step, hne]
  apply dead_of_all_revoked
  · have := (foldl_revokeGr_adv (logoutTargets cfg s user) s).next
    exact Nat.lt_of_lt_of_le (inv_lt hi ht) this
  · intro t' ht' hid
    obtain ⟨t0, ht0, hid0, _, hr⟩ := foldl_revokeGr_kills _ s t' ht'
    have : t0 = t := inv_uniq hi ht0 ht (by rw [← hid0]; exact hid)
    subst this
    exact hr (Or.inr (by rw [hgid]; exact hmem))

/-- revoking a token (endpoint or API) kills that token -/
theorem revoke_token_kills (cfg : Cfg) (s : St) (tok : Nat) (rec : Bool) (hi : Inv s)
    (t : Tok) (ht : t ∈ s.toks) (hid : t.id = tok) :
    Dead (step cfg s (.revokeTok tok rec)).1 tok := by
  have ha := step_adv cfg s (.revokeTok tok rec)
  refine ⟨Nat.lt_of_lt_of_le (hid ▸ inv_lt hi ht) ha.next, ?_⟩
  intro t' ht' hid'
  left
  have hf : findTok s tok = some t := hid ▸ findTok_of_mem hi ht
  simp only [step, hf] at ht'
  -- t' comes from the token list after `updTok … revoked := true` (possibly followed by the recursion)
  have key : ∀ l : List Tok, (∀ x ∈ l, x.id = tok → x.revoked = true) →
      ∀ fuel g v, ∀ x ∈ revokeBasedOn fuel l g v, x.id = tok → x.revoked = true := by
    intro l hl fuel g v x hx hxid
    rcases revokeBasedOn_evolve 0 fuel l g v x hx with ⟨x0, hx0, hk⟩ | _
    · exact hk.revoked (hl x0 hx0 (by rw [← hk.id]; exact hxid))
    · rcases revokeBasedOn_evolve (tok + 1) fuel l g v x hx with ⟨x0, hx0, hk⟩ | hfr
      · exact hk.revoked (hl x0 hx0 (by rw [← hk.id]; exact hxid))
      · omega
  have base : ∀ x ∈ updTok s.toks tok (fun x => { x with revoked := true }), x.id = tok → x.revoked = true := by
    intro x hx hxid
    simp only [updTok, List.mem_map] at hx
    obtain ⟨x0, _, rfl⟩ := hx
    split
    · rfl
    · rename_i hne; split at hxid <;> simp_all
  split at ht'
  · exact key _ base _ _ _ t' ht' hid'
  · exact base t' ht' hid'

theorem fwd_updTok (toks : List Tok) (id : Nat) (f : Tok → Tok) (hf : ∀ t, Keeps t (f t)) : Fwd toks (updTok toks id f) := by
  intro x hx
  refine ⟨_, List.mem_map.mpr ⟨x, hx, rfl⟩, ?_⟩
  split
  · exact hf x
  · exact Keeps.refl x

theorem desc_mem {toks : List Tok} {gid v : Nat} {d : Tok} (hd : Desc toks gid v d) : d ∈ toks := by
  induction hd with
  | child h _ _ => exact h
  | via _ _ _ _ ih => exact ih

/-- **revocation reaches every derived token**: in every reachable state (`SInv`, proved for all
    histories by `run_sinv`), revoking token `tok` recursively leaves dead every token derived from
    it inside its grant through ANY number of `based_on` links -/
theorem revoke_token_cascades (cfg : Cfg) (s : St) (tok : Nat) (hs : SInv s)
    (t : Tok) (ht : t ∈ s.toks) (hid : t.id = tok)
    (d : Tok) (hd : Desc s.toks t.gid tok d) :
    Dead (step cfg s (.revokeTok tok true)).1 d.id := by
  have hi := hs.inv
  have hdm : d ∈ s.toks := desc_mem hd
  have ha := step_adv cfg s (.revokeTok tok true)
  have hi' := ha.inv hi
  refine ⟨Nat.lt_of_lt_of_le (inv_lt hi hdm) ha.next, ?_⟩
  intro t' ht' hid'
  left
  have hblt : BLt s.toks := fun x hx => (hs.lt x hx).2
  have hn := desc_within_length hblt hd
  have hf : findTok s tok = some t := hid ▸ findTok_of_mem hi ht
  have hfw := fwd_updTok s.toks tok (fun x => { x with revoked := true }) (fun t => keeps_revoke t)
  obtain ⟨d1, _, k1, hd1⟩ := DescN.transport hfw hn
  have hlen : (updTok s.toks tok (fun x => { x with revoked := true })).length = s.toks.length := by simp [updTok]
  have hd2 := DescN.mono (m := (updTok s.toks tok (fun x => { x with revoked := true })).length + 1) (by omega) hd1
  obtain ⟨y, hy, k2, hrev⟩ := revokeBasedOn_reaches _ _ _ _ _ hd2
  have hst : (step cfg s (.revokeTok tok true)).1.toks =
      revokeBasedOn ((updTok s.toks tok (fun x => { x with revoked := true })).length + 1)
        (updTok s.toks tok (fun x => { x with revoked := true })) t.gid tok := by
    simp [step, hf]
  rw [hst] at ht'
  have hy' : y ∈ (step cfg s (.revokeTok tok true)).1.toks := by rw [hst]; exact hy
  have ht'' : t' ∈ (step cfg s (.revokeTok tok true)).1.toks := by rw [hst]; exact ht'
  have : t' = y := inv_uniq hi' ht'' hy' (by rw [hid', k2.id, k1.id])
  rw [this]; exact hrev

/-- … for every state the provider can reach -/
theorem revoke_token_cascades_reachable (cfg : Cfg) (ops : List Op) (tok : Nat)
    (t : Tok) (ht : t ∈ (run cfg {} ops).1.toks) (hid : t.id = tok)
    (d : Tok) (hd : Desc (run cfg {} ops).1.toks t.gid tok d) :
    Dead (step cfg (run cfg {} ops).1 (.revokeTok tok true)).1 d.id :=
  revoke_token_cascades cfg _ tok (run_sinv cfg ops {} sinv_init) t ht hid d hd

/-- non-vacuity: an access token two links below a code -/
def demoTok (id : Nat) (cls : Cls) (b : Option Nat) : Tok :=
  { id := id, gid := 7, cls := cls, basedOn := b, used := 0, maxUsage := none, mints := [], revoked := false, exp := 0, scope := [] }
example : Desc [demoTok 0 .code none, demoTok 1 .refresh (some 0), demoTok 2 .access (some 1)] 7 0 (demoTok 2 .access (some 1)) :=
  .via (u := demoTok 1 .refresh (some 0)) (by simp) rfl rfl (.child (by simp) rfl rfl)

theorem revokeBasedOn_other_grant (fuel : Nat) (toks : List Tok) (gid v : Nat) (x : Tok) (hx : x ∈ toks) (hg : x.gid ≠ gid) :
    x ∈ revokeBasedOn fuel toks gid v := by
  induction fuel generalizing toks v with
  | zero => exact hx
  | succ f ih =>
    unfold revokeBasedOn
    simp only
    have h1 : x ∈ toks.map (fun t => if t.gid = gid ∧ t.basedOn = some v then { t with revoked := true } else t) :=
      List.mem_map.mpr ⟨x, hx, by simp [hg]⟩
    generalize (toks.map (fun t => if t.gid = gid ∧ t.basedOn = some v then { t with revoked := true } else t)) = toks1 at h1
    generalize ((toks.filter (fun t => decide (t.gid = gid ∧ t.basedOn = some v))).map (·.id)) = kids
    induction kids generalizing toks1 with
    | nil => simpa using h1
    | cons k ks ihk =>
      simp only [List.foldl_cons]
      exact ihk _ (ih toks1 k h1)

/-- **revoking a token, recursively or not, never touches another grant**: every token of every other grant — another client's, another
    user's, another session of the same user at the same client — is afterwards exactly what it was -/
theorem revoke_token_is_grant_local (cfg : Cfg) (s : St) (tok : Nat) (rec : Bool) (hi : Inv s)
    (t : Tok) (ht : t ∈ s.toks) (hid : t.id = tok) (x : Tok) (hx : x ∈ s.toks) (hg : x.gid ≠ t.gid) :
    x ∈ (step cfg s (.revokeTok tok rec)).1.toks := by
  have hf : findTok s tok = some t := hid ▸ findTok_of_mem hi ht
  have hne : x.id ≠ tok := by
    intro e
    have : x = t := inv_uniq hi hx ht (by rw [e, hid])
    exact hg (by rw [this])
  have h1 : x ∈ updTok s.toks tok (fun y => { y with revoked := true }) :=
    List.mem_map.mpr ⟨x, hx, by simp [hne]⟩
  simp only [step, hf]
  split
  · exact revokeBasedOn_other_grant _ _ _ _ x h1 hg
  · exact h1

/-- locality: revoking a grant leaves every token of every other grant exactly as it was -/
theorem revoke_grant_is_local (cfg : Cfg) (s : St) (gid : Nat) (t : Tok) (hne : t.gid ≠ gid) :
    t ∈ s.toks ↔ t ∈ (step cfg s (.revokeGrant gid)).1.toks := by
  simp only [step]
  split
  · rfl
  · simp only [revokeGr, revokeGrantToks, List.mem_map]
    constructor
    · intro h; exact ⟨t, h, by simp [hne]⟩
    · rintro ⟨t0, h0, rfl⟩
      split
      · rename_i h; simp [h] at hne
      · exact h0

/-- locality of session removal -/
theorem remove_is_local (cfg : Cfg) (s : St) (gid : Nat) (t : Tok) (hne : t.gid ≠ gid) :
    t ∈ s.toks ↔ t ∈ (step cfg s (.remove gid)).1.toks := by
  simp only [step]
  split
  · rfl
  · simp [List.mem_filter, hne]

/-- locality of token revocation (endpoint): only the named token changes, and only its flag -/
theorem revoke_ep_is_local (cfg : Cfg) (s : St) (client : Str) (tok : Nat) (t : Tok) (hne : t.id ≠ tok) :
    t ∈ s.toks ↔ t ∈ (step cfg s (.revokeEp client tok)).1.toks := by
  simp only [step]
  repeat (first | rfl | split)
  simp only [updTok, List.mem_map]
  constructor
  · intro h; exact ⟨t, h, by simp [hne]⟩
  · rintro ⟨t0, h0, rfl⟩
    split
    · rename_i h; simp [h] at hne
    · exact h0

/-- non-vacuity: a reachable state with a live token that a revocation then kills -/
example : ∃ cfg : Cfg, ∃ s : St, Inv s ∧ ∃ t ∈ s.toks, tokActive s.now t = true :=
  ⟨{ oidc := true, jwt := false, rule := fun _ => { mints := [], expiresIn := 10 }, revokeRefreshOnIssue := false,
     allowed := fun _ => [], grantExpiresIn := 0, authnExpiresIn := 10 },
   (step { oidc := true, jwt := false, rule := fun _ => { mints := [], expiresIn := 10 }, revokeRefreshOnIssue := false,
           allowed := fun _ => [], grantExpiresIn := 0, authnExpiresIn := 10 } {} (.authorize [1] [2] [] none)).1,
   (step_adv _ _ _).inv inv_init, by decide⟩

end Idpy.Props.C03
