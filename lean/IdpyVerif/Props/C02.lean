/-
C02 — authorization codes: single use, client-bound, redirect-bound, expiring.
-/
import IdpyVerif.Proofs.Redeem
import IdpyVerif.Proofs.Scope
import IdpyVerif.Proofs.Cascade
namespace Idpy.Props.C02
open Idpy Idpy.Provider

/-- the token endpoint delivers tokens for code `c` in this step -/
def Delivers (op : Op) (o : Out) (c : Nat) : Prop :=
  match op, o with
  | .tokenProcess _, .tokens (some code) _ _ _ _ => code = c
  | _, _ => False

instance (op : Op) (o : Out) (c : Nat) : Decidable (Delivers op o c) := by
  unfold Delivers; split <;> infer_instance

/-- decision logic of a delivering redemption: which request it answers and what held -/
theorem delivery_facts (cfg : Cfg) (s : St) (idx c : Nat)
    (h : Delivers (.tokenProcess idx) (step cfg s (.tokenProcess idx)).2 c) :
    ∃ r ct g, s.pending[idx]? = some r ∧ r.code = c ∧ findTok s c = some ct ∧ findGr s ct.gid = some g ∧
      g.client = r.client ∧                                   -- only the client the code was issued to
      (g.redirect.isSome → r.redirect = g.redirect) ∧         -- only with the redirect_uri of the authorization request
      tokActive s.now ct = true ∧                             -- unused, not revoked, not expired — checked when minting
      grActive s.now g = true := by
  simp only [step] at h
  split at h
  · simp [Delivers] at h
  · rename_i r hr
    split at h
    · simp [Delivers] at h
    · rename_i _ ct hct
      split at h
      · simp [Delivers] at h
      · rename_i _ g hg
        split at h
        · simp [Delivers] at h
        · rename_i hcl
          split at h
          · simp [Delivers] at h
          · rename_i hrd
            split at h
            · simp [Delivers] at h
            · split at h <;> simp [Delivers] at h
            · rename_i hm
              simp only [Delivers] at h
              have hct' : findTok s r.code = some ct := by simpa [findTok] using hct
              have hg' : findGr s ct.gid = some g := by simpa [findGr] using hg
              refine ⟨r, ct, g, hr, h, h ▸ hct', hg', by simpa using hcl, ?_, ?_, ?_⟩
              · intro hsome
                by_cases hrr : r.redirect = g.redirect
                · exact hrr
                · exact absurd ⟨hsome, hrr⟩ hrd
              · unfold mint at hm
                split at hm
                · simp at hm
                · simp only at hm
                  rw [show findTok { s with pending := s.pending.eraseIdx idx } r.code = some ct from hct] at hm
                  simp only at hm
                  split at hm
                  · simp at hm
                  · split at hm
                    · simp at hm
                    · rename_i hact; simpa using hact
              · unfold mint at hm
                split at hm
                · simp at hm
                · rename_i hga; simpa using hga

/-- code `c` has been used: every stored token with that value has `used ≥ 1` -/
def Spent (s : St) (c : Nat) : Prop := c < s.next ∧ ∀ t ∈ s.toks, t.id = c → 1 ≤ t.used

theorem spent_step (cfg : Cfg) (s : St) (op : Op) (c : Nat) (h : Spent s c) : Spent (step cfg s op).1 c := by
  have ha := step_adv cfg s op
  refine ⟨Nat.lt_of_lt_of_le h.1 ha.next, ?_⟩
  intro t' ht' hid
  rcases ha.ev t' ht' with ⟨t, ht, hk⟩ | hf
  · exact Nat.le_trans (h.2 t ht (by rw [← hk.id]; exact hid)) hk.used
  · have := h.1; omega

/-- shape of a `tokenProcess` step: it either answers with an error or ends with the usage
    registration of the redeemed code -/
theorem process_shape (cfg : Cfg) (s : St) (idx : Nat) :
    (∃ X code a r i sc, step cfg s (.tokenProcess idx) = (incUsed X code, .tokens (some code) a r i sc)) ∨
    (∃ s' k, step cfg s (.tokenProcess idx) = (s', .err k)) := by
  simp only [step]
  split
  · exact Or.inr ⟨_, _, rfl⟩
  · split
    · exact Or.inr ⟨_, _, rfl⟩
    · split
      · exact Or.inr ⟨_, _, rfl⟩
      · split
        · exact Or.inr ⟨_, _, rfl⟩
        · split
          · exact Or.inr ⟨_, _, rfl⟩
          · split
            · exact Or.inr ⟨_, _, rfl⟩
            · split
              · exact Or.inr ⟨_, _, rfl⟩
              · exact Or.inr ⟨_, _, rfl⟩
            · exact Or.inl ⟨_, _, _, _, _, _, rfl⟩

/-- a delivering redemption leaves the code spent -/
theorem delivery_spends (cfg : Cfg) (s : St) (idx c : Nat) (hi : Inv s)
    (h : Delivers (.tokenProcess idx) (step cfg s (.tokenProcess idx)).2 c) :
    Spent (step cfg s (.tokenProcess idx)).1 c := by
  obtain ⟨r, ct, g, hr, hrc, hct, hg, hcl, hrd, hact, hga⟩ := delivery_facts cfg s idx c h
  have hlt : c < s.next := by
    have := findTok_mem hct; rw [← this.2]; exact inv_lt hi this.1
  refine ⟨Nat.lt_of_lt_of_le hlt (step_adv cfg s _).next, ?_⟩
  rcases process_shape cfg s idx with ⟨X, code, a, rr, i, sc, he⟩ | ⟨s', k, he⟩
  · rw [he] at h ⊢
    simp only [Delivers] at h
    subst h
    intro t' ht' hid
    simp only [incUsed, updTok, List.mem_map] at ht'
    obtain ⟨t0, _, rfl⟩ := ht'
    split
    · simp
    · rename_i hne
      split at hid
      · rename_i he'; exact absurd he' hne
      · exact absurd hid hne
  · rw [he] at h; simp [Delivers] at h

/-- a spent code cannot be redeemed (single step) -/
theorem spent_not_delivered (cfg : Cfg) (s : St) (op : Op) (c : Nat) (hr : Reach s) (h : Spent s c) :
    ¬ Delivers op (step cfg s op).2 c := by
  intro hd
  cases op with
  | tokenProcess idx =>
    obtain ⟨r, ct, g, hpr, hrc, hct, _, _, _, hact, _⟩ := delivery_facts cfg s idx c hd
    have hm := findTok_mem hct
    have hmem : r ∈ s.pending := List.mem_of_getElem? hpr
    have hcls : ct.cls = .code := (hr.pend r hmem).2 ct hm.1 (by rw [hm.2, hrc])
    have hmax : ct.maxUsage = some 1 := hr.cls ct hm.1 hcls
    have hu := h.2 ct hm.1 hm.2
    simp [tokActive, maxReached, hmax] at hact
    omega
  | _ => simp [Delivers] at hd

/-- **at most one redemption**: in every history from the initial state — any number of users,
    clients, codes, any interleaving of the parse and process steps of concurrent token
    requests — the token endpoint delivers tokens for one code at most once. -/
theorem redeem_at_most_once_from (cfg : Cfg) (ops : List Op) (s : St) (c : Nat) (hr : Reach s) :
    ((ops.zip (run cfg s ops).2).filter (fun p => decide (Delivers p.1 p.2 c))).length ≤ 1 ∧
    (Spent s c → ((ops.zip (run cfg s ops).2).filter (fun p => decide (Delivers p.1 p.2 c))).length = 0) := by
  induction ops generalizing s with
  | nil => simp [run]
  | cons op ops ih =>
    have hr' := reach_step cfg s op hr
    obtain ⟨ih1, ih2⟩ := ih (step cfg s op).1 hr'
    simp only [run, List.zip_cons_cons, List.filter_cons]
    by_cases hd : Delivers op (step cfg s op).2 c
    · -- this step delivers: the code is spent afterwards, so nothing later delivers
      have hsp : Spent (step cfg s op).1 c := by
        cases op with
        | tokenProcess idx => exact delivery_spends cfg s idx c hr.inv hd
        | _ => simp [Delivers] at hd
      simp only [hd, decide_true, if_true, List.length_cons]
      refine ⟨by rw [ih2 hsp]; omega, ?_⟩
      intro hs; exact absurd hd (spent_not_delivered cfg s op c hr hs)
    · simp only [hd, decide_false]
      exact ⟨ih1, fun hs => ih2 (spent_step cfg s op c hs)⟩

theorem redeem_at_most_once (cfg : Cfg) (ops : List Op) (c : Nat) :
    ((ops.zip (run cfg {} ops).2).filter (fun p => decide (Delivers p.1 p.2 c))).length ≤ 1 :=
  (redeem_at_most_once_from cfg ops {} c reach_init).1

/-- OIDC token endpoint: presenting a used code again revokes what was minted from it
    (tokens of the same grant whose `based_on` is the code) -/
theorem replay_revokes (cfg : Cfg) (s : St) (client : Str) (code : Nat) (rd : Option Str)
    (hoidc : cfg.oidc = true) (ct : Tok) (hct : findTok s code = some ct) (hcls : ct.cls = .code)
    (g : Gr) (hg : findGr s ct.gid = some g) (hused : ct.used ≠ 0) :
    ∀ t ∈ s.toks, t.gid = g.id → t.basedOn = some code →
      ∃ t' ∈ (step cfg s (.tokenParse client code rd)).1.toks, t'.id = t.id ∧ t'.revoked = true := by
  intro t ht hgid hb
  simp only [step, hct, hg, hcls, hoidc]
  simp only [ne_eq, not_true_eq_false, if_false, true_and, hused, not_false_eq_true, if_true]
  -- first level of `revokeBasedOn` marks every direct child; later levels only add marks
  unfold revokeBasedOn
  simp only
  have h1 : ({ t with revoked := true } : Tok) ∈ s.toks.map (fun t => if t.gid = g.id ∧ t.basedOn = some code then { t with revoked := true } else t) :=
    List.mem_map.mpr ⟨t, ht, by simp [hgid, hb]⟩
  generalize (s.toks.map (fun t => if t.gid = g.id ∧ t.basedOn = some code then { t with revoked := true } else t)) = toks1 at h1
  generalize ((s.toks.filter (fun t => decide (t.gid = g.id ∧ t.basedOn = some code))).map (·.id)) = kids
  have key : ∀ (kids : List Nat) (l : List Tok), (∃ x ∈ l, x.id = t.id ∧ x.revoked = true) →
      ∃ x ∈ kids.foldl (fun acc k => revokeBasedOn s.toks.length acc g.id k) l, x.id = t.id ∧ x.revoked = true := by
    intro kids
    induction kids with
    | nil => intro l h; simpa using h
    | cons k ks ih =>
      intro l ⟨x, hx, hxid, hxr⟩
      simp only [List.foldl_cons]
      apply ih
      -- one more recursion level keeps identities and only sets flags
      have hs := revokeBasedOn_idsSub s.toks.length l g.id k
      have he := revokeBasedOn_evolve 0 s.toks.length l g.id k
      -- x survives by identity: use the map structure (ids preserved exactly)
      have : ∃ y ∈ revokeBasedOn s.toks.length l g.id k, Keeps x y := by
        exact revokeBasedOn_keeps s.toks.length l g.id k x hx
      obtain ⟨y, hy, hk⟩ := this
      exact ⟨y, hy, hk.id.trans hxid, hk.revoked hxr⟩
  exact key kids toks1 ⟨_, h1, rfl, rfl⟩

/-- … and everything derived from those tokens in turn, through any number of `based_on` links
    (refresh tokens minted from the code, access tokens minted from those refresh tokens, …), in
    every reachable state (`SInv`, proved for all histories by `run_sinv`) -/
theorem replay_revokes_transitively (cfg : Cfg) (s : St) (client : Str) (code : Nat) (rd : Option Str)
    (hs : SInv s)
    (hoidc : cfg.oidc = true) (ct : Tok) (hct : findTok s code = some ct) (hcls : ct.cls = .code)
    (g : Gr) (hg : findGr s ct.gid = some g) (hused : ct.used ≠ 0) :
    ∀ d, Desc s.toks g.id code d →
      ∃ t' ∈ (step cfg s (.tokenParse client code rd)).1.toks, t'.id = d.id ∧ t'.revoked = true := by
  intro d hd
  simp only [step, hct, hg, hcls, hoidc]
  simp only [ne_eq, not_true_eq_false, if_false, true_and, hused, not_false_eq_true, if_true]
  have hblt : BLt s.toks := fun x hx => (hs.lt x hx).2
  have hn := DescN.mono (Nat.le_succ _) (desc_within_length hblt hd)
  obtain ⟨y, hy, k, hrev⟩ := revokeBasedOn_reaches _ _ _ _ _ hn
  exact ⟨y, hy, k.id, hrev⟩

end Idpy.Props.C02

namespace Idpy.Props.C02
open Idpy Idpy.Provider
/-- non-vacuity: a concrete history in which a code is delivered exactly once although it is
    presented twice (schedule p1 p2 x1 x2) -/
def demoCfg : Cfg :=
  { oidc := true, jwt := false, rule := fun c => match c with
      | .code => { mints := [.access, .refresh, .idtoken], expiresIn := 300 }
      | _ => { mints := [], expiresIn := 3600 },
    revokeRefreshOnIssue := false, allowed := fun _ => [[1]], grantExpiresIn := 0, authnExpiresIn := 3600 }
def demoOps : List Op :=
  [.authorize [100] [99] [[1]] none, .tokenParse [99] 1 none, .tokenParse [99] 1 none, .tokenProcess 0, .tokenProcess 0]
example : ((demoOps.zip (run demoCfg {} demoOps).2).filter (fun p => decide (Delivers p.1 p.2 1))).length = 1 := by
  decide +kernel
end Idpy.Props.C02
