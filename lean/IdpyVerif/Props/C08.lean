/-
C08 — the relying party accepts only valid ID Tokens.
-/
import IdpyVerif.Model.IdToken
namespace Idpy.Props.C08
open Idpy Idpy.IdToken

/-- what a verifying signature means, in terms of who signed -/
theorem sigOk_sound (cfg : Cfg) (i : Str) (s : Sig) (h : sigOk cfg i s = true) :
    s.intact = true ∧ s.kid ≠ .wrong ∧ (∀ a, cfg.sigalg = some a → a = s.alg) ∧
    ((∃ fam, s.signer = .jarKey i fam ∧ fam = family s.alg ∧ fam ≠ .other) ∨ (s.signer = .secret ∧ family s.alg = .oct)) := by
  unfold sigOk at h
  simp only [Bool.and_eq_true, bne_iff_ne, ne_eq] at h
  obtain ⟨⟨⟨h1, h2⟩, h3⟩, h4⟩ := h
  refine ⟨h1, h2, ?_, ?_⟩
  · intro a ha; rw [ha] at h3; simpa using h3
  · cases hs : s.signer with
    | jarKey owner fam =>
      rw [hs] at h4
      simp only [Bool.and_eq_true, beq_iff_eq, bne_iff_ne, ne_eq] at h4
      left; exact ⟨fam, by rw [h4.1.1], h4.1.2, h4.2⟩
    | secret =>
      rw [hs] at h4
      right; exact ⟨rfl, by simpa using h4⟩
    | outsider => rw [hs] at h4; cases h4

/-- the claim checks of `IdToken.verify` -/
theorem claimsOk_sound (cfg : Cfg) (nk : Option Str) (c : Claims) (h : claimsOk cfg nk c = true) :
    c.iss = .val cfg.issuer ∧
    (∃ aud, c.aud = .val aud ∧ cfg.clientId ∈ aud ∧ (aud.length > 1 → c.azp = .val cfg.clientId)) ∧
    (∀ z, c.azp = .val z → z = cfg.clientId) ∧
    (∃ exp iat, c.exp = .val exp ∧ c.iat = .val iat ∧ cfg.now ≤ exp + cfg.skew ∧ iat ≤ cfg.now + cfg.skew ∧ iat ≤ exp ∧
      cfg.now ≤ iat + cfg.storage + cfg.skew) ∧
    (∀ n, nk = some n → c.nonce = .val n) ∧
    (∃ sub, c.sub = .val sub) := by
  unfold claimsOk at h
  simp only [Bool.and_eq_true] at h
  obtain ⟨⟨⟨⟨⟨hs, hiss⟩, haud⟩, hazp⟩, htime⟩, hn⟩ := h
  have hiss' : c.iss = .val cfg.issuer := by simpa using hiss
  have hazp' : ∀ z, c.azp = .val z → z = cfg.clientId := by
    intro z hz; rw [hz] at hazp; simpa using hazp
  refine ⟨hiss', ?_, hazp', ?_, ?_, ?_⟩
  · cases ha : c.aud with
    | val aud =>
      rw [ha] at haud
      simp only [Bool.and_eq_true, List.contains_iff_mem] at haud
      refine ⟨aud, rfl, haud.1, ?_⟩
      intro hl
      have h2 := haud.2
      simp only [hl, if_true] at h2
      cases hz : c.azp with
      | val z => rw [hazp' z hz]
      | absent => rw [hz] at h2; cases h2
      | bad => rw [hz] at h2; cases h2
    | absent => rw [ha] at haud; cases haud
    | bad => rw [ha] at haud; cases haud
  · cases he : c.exp with
    | val exp =>
      cases hi : c.iat with
      | val iat =>
        rw [he, hi] at htime
        simp only [Bool.and_eq_true, Bool.not_eq_true', decide_eq_false_iff_not] at htime
        exact ⟨exp, iat, rfl, rfl, by omega, by omega, by omega, by omega⟩
      | absent => rw [he, hi] at htime; cases htime
      | bad => rw [he, hi] at htime; cases htime
    | absent => rw [he] at htime; cases htime
    | bad => rw [he] at htime; cases htime
  · intro n hnk; rw [hnk] at hn; simpa using hn
  · unfold schemaOk at hs
    simp only [Bool.and_eq_true] at hs
    cases hsub : c.sub with
    | val s => exact ⟨s, rfl⟩
    | absent => have := hs.1.1.1.1.1.1.1.2; rw [hsub] at this; cases this
    | bad => have := hs.1.1.1.1.1.1.1.2; rw [hsub] at this; cases this


/-- everything `verify_id_token` establishes -/
structure Valid (cfg : Cfg) (nk : Option Str) (checkHash : Bool) (acc : Accomp) (s : Sig) (c : Claims) : Prop where
  /-- `none` only when explicitly allowed -/
  none_allowed : s.alg = "none" → cfg.sigalg = some "none" ∨ cfg.allowNone = true
  /-- signed: by a key the jar holds for the EXPECTED issuer (or the shared client secret with an HMAC
      algorithm), over exactly this header and payload, with the requested algorithm -/
  signed : s.alg ≠ "none" → cfg.issuer ∈ cfg.known ∧ s.intact = true ∧ (∀ a, cfg.sigalg = some a → a = s.alg) ∧
    ((∃ fam, s.signer = .jarKey cfg.issuer fam ∧ fam = family s.alg ∧ fam ≠ .other) ∨ (s.signer = .secret ∧ family s.alg = .oct))
  iss : c.iss = .val cfg.issuer
  aud : ∃ aud, c.aud = .val aud ∧ cfg.clientId ∈ aud ∧ (aud.length > 1 → c.azp = .val cfg.clientId)
  azp : ∀ z, c.azp = .val z → z = cfg.clientId
  time : ∃ exp iat, c.exp = .val exp ∧ c.iat = .val iat ∧ cfg.now ≤ exp + cfg.skew ∧ iat ≤ cfg.now + cfg.skew ∧ iat ≤ exp ∧
    cfg.now ≤ iat + cfg.storage + cfg.skew
  nonce_kw : ∀ n, nk = some n → c.nonce = .val n
  hashes : s.alg ≠ "none" → checkHash = true → (acc.accessToken = true → c.atHash = .val true) ∧ (acc.code = true → c.cHash = .val true)

theorem verifyIdToken_valid (cfg : Cfg) (nk : Option Str) (ch : Bool) (acc : Accomp) (s : Sig) (c : Claims)
    (h : verifyIdToken cfg nk ch acc s c = true) : Valid cfg nk ch acc s c := by
  unfold verifyIdToken at h
  simp only [Bool.and_eq_true] at h
  obtain ⟨⟨⟨_, hsig⟩, hcl⟩, hh⟩ := h
  obtain ⟨hiss, haud, hazp, htime, hnk, _⟩ := claimsOk_sound cfg nk c hcl
  refine { none_allowed := ?_, signed := ?_, iss := hiss, aud := haud, azp := hazp, time := htime, nonce_kw := hnk, hashes := ?_ }
  · intro hn
    simp only [hn, if_true, Bool.or_eq_true, beq_iff_eq] at hsig
    exact hsig
  · intro hn
    simp only [hn, if_false] at hsig
    rw [hiss] at hsig
    simp only [Bool.and_eq_true, List.contains_iff_mem] at hsig
    obtain ⟨h1, h2, h3, h4⟩ := sigOk_sound cfg cfg.issuer s hsig.2
    exact ⟨hsig.1, h1, h3, h4⟩
  · intro hn hc
    have hcond : (s.alg ≠ "none" ∧ ch = true) := ⟨hn, hc⟩
    rw [if_pos hcond] at hh
    simp only [Bool.and_eq_true] at hh
    constructor
    · intro ha; have := hh.1; simp only [ha, if_true] at this; simpa using this
    · intro ha; have := hh.2; simp only [ha, if_true] at this; simpa using this

/-- **message API** (`AuthorizationResponse.verify` / `AccessTokenResponse.verify`): acceptance
    implies the whole conjunction; the hash checks apply at the authorization endpoint -/
theorem accept_msg_valid (cfg : Cfg) (ep : Endpoint) (nk : Option Str) (acc : Accomp) (s : Sig) (c : Claims)
    (h : acceptMsg cfg ep nk acc s c = true) : Valid cfg nk (ep == .authz) acc s c :=
  verifyIdToken_valid cfg nk _ acc s c h

/-- **service path** (`parse_response` + `post_parse_response` / `update_service_context`):
    acceptance implies the whole conjunction AND the nonce binding to the pending flow the response
    is processed for: at the authorization endpoint the nonce stored with that state, at the token
    endpoint a nonce the RP's nonce→state map binds to that very state -/
theorem accept_service_valid (cfg : Cfg) (ep : Endpoint) (fl : Flow) (acc : Accomp) (s : Sig) (c : Claims)
    (h : acceptService cfg ep fl acc s c = true) :
    Valid cfg none (ep == .authz) acc s c ∧
    (ep = .authz → ∀ n, fl.sentNonce = some n → c.nonce = .val n) ∧
    (ep = .token → ∃ n, c.nonce = .val n ∧ fl.nonceMap.lookup n = some fl.state) := by
  unfold acceptService at h
  simp only [Bool.and_eq_true] at h
  refine ⟨verifyIdToken_valid cfg none _ acc s c h.1, ?_, ?_⟩
  · intro he n hn
    have h2 := h.2
    rw [he] at h2
    simp only [hn] at h2
    simpa using h2
  · intro he
    have h2 := h.2
    rw [he] at h2
    cases hc : c.nonce with
    | val n => rw [hc] at h2; exact ⟨n, rfl, by simpa using h2⟩
    | absent => rw [hc] at h2; cases h2
    | bad => rw [hc] at h2; cases h2

/-- the RP always asks for one specific algorithm (registered dynamically, configured statically,
    or the protocol default): on the service path a signed token's algorithm is that one -/
theorem service_alg_is_the_registered_one (cfg : Cfg) (reg conf : Option String) (ep : Endpoint) (fl : Flow) (acc : Accomp) (s : Sig) (c : Claims)
    (hcfg : cfg.sigalg = some (effectiveSigalg reg conf)) (hn : s.alg ≠ "none")
    (h : acceptService cfg ep fl acc s c = true) : s.alg = effectiveSigalg reg conf :=
  ((accept_service_valid cfg ep fl acc s c h).1.signed hn).2.2.1 _ hcfg |>.symm

/-- an unsigned token is never accepted unless `none` is the registered algorithm or the
    application allowed it explicitly -/
theorem none_needs_explicit_permission (cfg : Cfg) (ep : Endpoint) (fl : Flow) (acc : Accomp) (s : Sig) (c : Claims)
    (hs : cfg.sigalg ≠ some "none") (ha : cfg.allowNone = false) (hn : s.alg = "none") :
    acceptService cfg ep fl acc s c = false := by
  cases h : acceptService cfg ep fl acc s c with
  | false => rfl
  | true =>
    rcases (accept_service_valid cfg ep fl acc s c h).1.none_allowed hn with h1 | h1
    · exact absurd h1 hs
    · rw [ha] at h1; cases h1

/-- outsiders — foreign keys, the issuer's public key used as HMAC secret, a key of ANOTHER issuer
    the RP also knows — never produce an accepted signed token -/
theorem outsider_never_accepted (cfg : Cfg) (ep : Endpoint) (fl : Flow) (acc : Accomp) (s : Sig) (c : Claims)
    (hn : s.alg ≠ "none")
    (hs : s.signer = .outsider ∨ ∃ owner fam, owner ≠ cfg.issuer ∧ s.signer = .jarKey owner fam) :
    acceptService cfg ep fl acc s c = false := by
  cases h : acceptService cfg ep fl acc s c with
  | false => rfl
  | true =>
    have hv := ((accept_service_valid cfg ep fl acc s c h).1.signed hn).2.2.2
    rcases hs with hs | ⟨owner, fam, hne, hs⟩
    · rcases hv with ⟨f, hf, _⟩ | ⟨hf, _⟩ <;> rw [hs] at hf <;> cases hf
    · rcases hv with ⟨f, hf, _⟩ | ⟨hf, _⟩
      · rw [hs] at hf; injection hf with h1 _; exact absurd h1 hne
      · rw [hs] at hf; cases hf

/-- the store changes only on acceptance: a rejected token is never recorded as verified -/
def deliver (cfg : Cfg) (ep : Endpoint) (fl : Flow) (acc : Accomp) (s : Sig) (c : Claims) (tokenId : Nat)
    (store : List (Nat × Nat)) : List (Nat × Nat) :=
  if acceptService cfg ep fl acc s c then (fl.state, tokenId) :: store else store

theorem reject_stores_nothing (cfg : Cfg) (ep : Endpoint) (fl : Flow) (acc : Accomp) (s : Sig) (c : Claims) (t : Nat)
    (store : List (Nat × Nat)) (h : acceptService cfg ep fl acc s c = false) :
    deliver cfg ep fl acc s c t store = store := by
  simp [deliver, h]

theorem stored_means_valid (cfg : Cfg) (ep : Endpoint) (fl : Flow) (acc : Accomp) (s : Sig) (c : Claims) (t : Nat)
    (store : List (Nat × Nat)) (h : deliver cfg ep fl acc s c t store ≠ store) :
    Valid cfg none (ep == .authz) acc s c := by
  cases ha : acceptService cfg ep fl acc s c with
  | true => exact (accept_service_valid cfg ep fl acc s c ha).1
  | false => exact absurd (reject_stores_nothing cfg ep fl acc s c t store ha) h

/-! ### non-vacuity: a genuine token is accepted on both paths, and single defects are refused -/

def cfg0 : Cfg := { issuer := [105], clientId := [99], sigalg := some "RS256", allowNone := false, skew := 15, storage := 14400, now := 1000, known := [[105], [106]] }
def sig0 : Sig := { isJwt := true, alg := "RS256", signer := .jarKey [105] .rsa, intact := true, kid := .ok }
def cl0 : Claims := { iss := .val [105], sub := .val [117], aud := .val [[99]], azp := .absent, exp := .val 1600, iat := .val 1000, nonce := .val [110],
                      atHash := .val true, cHash := .val true }
def fl0 : Flow := { state := 7, sentNonce := some [110], nonceMap := [([110], 7), ([111], 8)] }

theorem genuine_accepted :
    acceptService cfg0 .authz fl0 { code := true, accessToken := true } sig0 cl0 = true ∧
    acceptService cfg0 .token fl0 { code := false, accessToken := true } sig0 cl0 = true ∧
    -- nonce of another pending flow at the token endpoint
    acceptService cfg0 .token fl0 { code := false, accessToken := true } sig0 { cl0 with nonce := .val [111] } = false ∧
    -- a key of another known issuer, body naming that issuer
    acceptService cfg0 .token fl0 { code := false, accessToken := true } { sig0 with signer := .jarKey [106] .rsa } { cl0 with iss := .val [106] } = false ∧
    -- HS256 under the client secret while RS256 is registered
    acceptService cfg0 .token fl0 { code := false, accessToken := true } { sig0 with alg := "HS256", signer := .secret } cl0 = false := by
  decide +kernel

end Idpy.Props.C08
