/-
C05 — scope never escalates across minting, refresh and exchange.
The history invariant (`Proofs/Scope.lean`: `SInv`, preserved by every API step) gives
`scope_bounded` for every reachable state; the decision-logic theorems say what each step does.
-/
import IdpyVerif.Proofs.Redeem
import IdpyVerif.Proofs.Scope
namespace Idpy.Props.C05
open Idpy Idpy.Provider

theorem isSubset_sub {a b : List Str} (h : isSubset a b = true) : Sub a b := by
  intro x hx
  simp only [isSubset, List.all_eq_true] at h
  simpa using h x hx

/-- the scope recorded for a grant is the request scope filtered by the client's allowed scopes -/
theorem grant_scope_authorised (cfg : Cfg) (client : Str) (scope : List Str) :
    Sub (filterScopes cfg client scope) scope ∧ Sub (filterScopes cfg client scope) (cfg.allowed client) := by
  constructor
  · intro x hx; exact (List.mem_filter.mp hx).1
  · intro x hx; simpa using (List.mem_filter.mp hx).2

theorem mint_none_ok {cfg : Cfg} {s : St} {g : Gr} {cls : Cls} {sc : Option (List Str)} {s' : St} {id : Nat}
    (h : mint cfg s g cls none sc = .ok s' id) :
    s'.toks = s.toks ++ [newTok cfg s g cls none (sc.getD g.scope)] ∧ s'.grants = s.grants ∧ id = s.next := by
  unfold mint at h
  split at h
  · simp at h
  · simp only [MintRes.ok.injEq] at h
    obtain ⟨rfl, rfl⟩ := h
    exact ⟨rfl, rfl, rfl⟩

/-- what an authorization step stores: a grant whose scope is the authorised set, and a code
    carrying exactly that scope -/
theorem authorize_stores_authorised (cfg : Cfg) (s : St) (user client : Str) (scope : List Str) (rd : Option Str)
    (c gid : Nat) (h : (step cfg s (.authorize user client scope rd)).2 = .code c gid) :
    ∃ g ∈ (step cfg s (.authorize user client scope rd)).1.grants, g.id = gid ∧
      g.scope = filterScopes cfg client scope ∧
      ∃ t ∈ (step cfg s (.authorize user client scope rd)).1.toks, t.id = c ∧ t.gid = gid ∧ t.scope = g.scope := by
  simp only [step] at h ⊢
  generalize hgdef : mkGrant cfg s user client scope rd = g at h ⊢
  have hgs : g.scope = filterScopes cfg client scope := by rw [← hgdef]; rfl
  have hgi : g.id = s.next := by rw [← hgdef]; rfl
  split at h
  · simp at h
  rename_i hdeny
  rw [if_neg hdeny]
  split at h
  · rename_i s2 c' hm
    simp only [Out.code.injEq] at h
    obtain ⟨rfl, hgid⟩ := h
    obtain ⟨ht, hg, hid⟩ := mint_none_ok hm
    simp only [hm]
    refine ⟨g, by rw [hg]; simp, hgid, hgs, ?_⟩
    refine ⟨_, by rw [ht]; exact List.mem_append_right _ (List.mem_singleton.mpr rfl), ?_, ?_, ?_⟩
    · rw [hid]; simp [newTok]
    · simp [newTok, hgid]
    · simp [newTok]
  · simp at h

/-- **deny_unknown_scopes** (the client's own setting, else the provider's preference): an authorization request that names
    a scope outside what the client may use is refused as a whole — no grant, no code, no change of state -/
theorem deny_unknown_refuses (cfg : Cfg) (s : St) (user client : Str) (scope : List Str) (rd : Option Str)
    (hd : cfg.denyUnknown client = true) (x : Str) (hx : x ∈ scope) (hnot : (cfg.allowed client).contains x = false) :
    step cfg s (.authorize user client scope rd) = (s, .err "unauthorized_scope") := by
  have hne : filterScopes cfg client scope ≠ scope := by
    intro he
    have : x ∈ filterScopes cfg client scope := by rw [he]; exact hx
    unfold filterScopes at this
    rw [List.mem_filter] at this
    rw [hnot] at this
    exact absurd this.2 (by simp)
  simp [step, hd, hne]

/-- ... and what it lets through was granted exactly what it asked for -/
theorem deny_unknown_grants_exactly (cfg : Cfg) (s : St) (user client : Str) (scope : List Str) (rd : Option Str)
    (hd : cfg.denyUnknown client = true) (c gid : Nat)
    (h : (step cfg s (.authorize user client scope rd)).2 = .code c gid) :
    filterScopes cfg client scope = scope := by
  simp only [step] at h
  split at h
  · simp at h
  · rename_i hn
    simpa [hd] using hn

/-- non-vacuity: a client limited to `[1]` with the setting on, asking for `[1, 2]` -/
example : step { oidc := true, jwt := false, rule := fun _ => { mints := [], expiresIn := 0 }, revokeRefreshOnIssue := false,
                 allowed := fun _ => [[1]], grantExpiresIn := 0, authnExpiresIn := 10, denyUnknown := fun _ => true } {}
            (.authorize [1] [2] [[1], [2]] none) = ({}, .err "unauthorized_scope") :=
  deny_unknown_refuses _ _ _ _ _ _ rfl [2] (by simp) (by decide)

/-- scope invariant restricted to one grant -/
def GrantScopeInv (s : St) (g : Gr) : Prop := ∀ t ∈ s.toks, t.gid = g.id → Sub t.scope g.scope

/-- `find_scope` never leaves the grant's scope: the lookup stays inside the grant
    (`Grant.get_token` only searches the grant's own `issued_token`) -/
theorem findScope_sub (s : St) (g : Gr) (h : GrantScopeInv s g) (fuel : Nat) (b : Option Nat) :
    Sub (findScope s g fuel b) g.scope := by
  induction fuel generalizing b with
  | zero => intro x hx; simpa [findScope] using hx
  | succ f ih =>
    cases b with
    | none => intro x hx; simpa [findScope] using hx
    | some bb =>
      unfold findScope
      split
      · intro x hx; exact hx
      · rename_i t ht
        split
        · intro x hx; exact hx
        · rename_i hgid
          split
          · exact h t (findTok_mem ht).1 (by simpa using hgid)
          · exact ih _

/-- refreshing with an explicit scope delivers only if that scope is within the bound computed
    by `find_scope` from the refresh token's ancestry — it can narrow, never widen -/
theorem refresh_never_widens (cfg : Cfg) (s : St) (client : Str) (rt : Nat) (sc : List Str)
    (code a r i : Option Nat) (out : List Str)
    (h : (step cfg s (.refresh client rt (some sc))).2 = .tokens code a r i out) :
    ∃ t g, findTok s rt = some t ∧ findGr s t.gid = some g ∧
      Sub sc (findScope s g (s.toks.length + 1) t.basedOn) ∧ out = sc := by
  simp only [step] at h
  split at h
  · simp at h
  · rename_i t ht
    split at h
    · simp at h
    · rename_i g hg
      split at h
      · simp at h
      · split at h
        · simp at h
        · split at h
          · simp at h
          · rename_i hbad
            split at h
            · simp at h
            · split at h
              · simp at h
              · simp at h
              · simp only [Out.tokens.injEq] at h
                refine ⟨t, g, ht, hg, ?_, by simpa using h.2.2.2.2.symm⟩
                apply isSubset_sub
                simpa [scopeBad] using hbad


/-- client-credentials and password grants: the token's scope is within what the client's record lists,
    and a client without a list gets no scope at all -/
theorem configured_scope_bounded (a : Option (List Str)) :
    (∀ l, a = some l → Sub (configuredScope a) l) ∧ (a = none → configuredScope a = []) := by
  constructor
  · intro l h; subst h; intro x hx; simpa [configuredScope] using hx
  · intro h; subst h; rfl

/-! ### the history invariant -/

/-- **scope never escalates — for every history.** After ANY sequence of authorizations, code
    redemptions (parse / process interleaved), refreshes with or without an explicit scope, token
    exchanges by the same or another client,
    revocations, logouts, removals and clock advances, every token the provider holds — code,
    access, refresh, ID token, however long its minting chain — carries a scope within the scope
    recorded for its own grant -/
theorem scope_bounded (cfg : Cfg) (ops : List Op) :
    ∀ t ∈ (run cfg {} ops).1.toks, ∃ g ∈ (run cfg {} ops).1.grants, g.id = t.gid ∧ Sub t.scope g.scope := by
  intro t ht
  have h := run_sinv cfg ops {} sinv_init
  obtain ⟨g, hg, hid⟩ := (h.sc t ht).1
  exact ⟨g, hg, hid, (h.sc t ht).2 g hg hid⟩

theorem mintX_new_token {cfg : Cfg} {s : St} {g : Gr} {cls : Cls} {b : Nat} {sc : List Str} {s' : St} {id : Nat}
    (hm : mintX cfg s g cls b sc = .ok s' id) : ∃ nt ∈ s'.toks, nt.id = id ∧ nt.scope = sc ∧ nt.basedOn = some b := by
  obtain ⟨bt, _, _, _, _, hid, rfl⟩ := mintX_ok_shape hm
  exact ⟨_, List.mem_append_right _ (List.mem_singleton.mpr rfl), by simp [newTok, hid], by simp [newTok], by simp [newTok]⟩

/-- **token exchange narrows, never widens.** Whatever client exchanges whatever token, asking for
    whatever scope and token type: if the exchange delivers, the scope of the new token (and the
    scope stated in the response) is within the SUBJECT TOKEN's scope and within what was asked -/
theorem exchange_never_widens (cfg : Cfg) (s : St) (client : Str) (subj : Nat) (styp : Cls) (rtyp : Option Cls)
    (scope : Option (List Str)) (id : Nat) (sc : List Str)
    (h : (step cfg s (.exchange client subj styp rtyp scope)).2 = .exchanged id sc) :
    ∃ t, findTok s subj = some t ∧ Sub sc t.scope ∧ (∀ r, scope = some r → Sub sc r) ∧
      ∃ nt ∈ (step cfg s (.exchange client subj styp rtyp scope)).1.toks,
        nt.id = id ∧ nt.scope = sc ∧ nt.basedOn = some subj := by
  generalize hst : step cfg s (.exchange client subj styp rtyp scope) = r at h ⊢
  simp only [step] at hst
  split at hst
  · subst hst; simp at h
  · rename_i t ht
    have key : Sub (xScope scope t.scope) t.scope ∧ (∀ r, scope = some r → Sub (xScope scope t.scope) r) := by
      refine ⟨xScope_sub scope t.scope, ?_⟩
      intro r hr x hx
      subst hr
      simp only [xScope, List.mem_eraseDups, List.mem_filter, Option.getD_some] at hx
      exact hx.1
    split at hst
    · subst hst; simp at h
    · repeat (first
        | (subst hst; cases h; exact ⟨t, ht, key.1, key.2, mintX_new_token (by assumption)⟩)
        | (subst hst; cases h)
        | split at hst)

/-- … hence, in every reachable state, what an exchange delivers is within the scope authorised
    for the grant the subject token belongs to -/
theorem exchange_within_original_grant (cfg : Cfg) (ops : List Op) (client : Str) (subj : Nat) (styp : Cls)
    (rtyp : Option Cls) (scope : Option (List Str)) (id : Nat) (sc : List Str)
    (h : (step cfg (run cfg {} ops).1 (.exchange client subj styp rtyp scope)).2 = .exchanged id sc) :
    ∃ t, findTok (run cfg {} ops).1 subj = some t ∧
      ∃ g ∈ (run cfg {} ops).1.grants, g.id = t.gid ∧ Sub sc g.scope := by
  obtain ⟨t, ht, hsub, _, _⟩ := exchange_never_widens cfg _ client subj styp rtyp scope id sc h
  obtain ⟨g, hg, hid, hs⟩ := scope_bounded cfg ops t (findTok_mem ht).1
  exact ⟨t, ht, g, hg, hid, fun x hx => hs x (hsub x hx)⟩

/-- what introspection reports for a token of a reachable state is within the grant's scope -/
theorem introspection_scope_bounded (cfg : Cfg) (ops : List Op) (client : Str) (tok : Nat) (sc : List Str)
    (h : (step cfg (run cfg {} ops).1 (.introspect client tok)).2 = .introspect true sc) :
    ∃ t g, findTok (run cfg {} ops).1 tok = some t ∧ findGr (run cfg {} ops).1 t.gid = some g ∧ Sub sc g.scope := by
  have hi := run_sinv cfg ops {} sinv_init
  generalize (run cfg {} ops).1 = s at h hi
  simp only [step] at h
  split at h
  · simp at h
  · rename_i t ht
    split at h
    · simp at h
    · rename_i g hg
      split at h
      · simp at h
      · split at h
        · simp at h
        · simp only [Out.introspect.injEq, true_and] at h
          have hgm := findGr_mem hg
          have htm := findTok_mem ht
          refine ⟨t, g, ht, hg, ?_⟩
          rw [← h]
          split
          · exact (hi.sc t htm.1).2 g hgm.1 hgm.2
          · exact findScope_sub' s hi g hgm.1 _ _

/-- the invariant is about something: the empty state satisfies it and it is carried along any run -/
example (cfg : Cfg) (ops : List Op) : SInv (run cfg {} ops).1 := run_sinv cfg ops {} sinv_init

end Idpy.Props.C05
